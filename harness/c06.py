"""C06 - value equality is an equivalence that sets and maps respect.

Spec: spec/Val.tla (Equal, Has, SetAdd, MapPut, ... quoted from the
statement), spec/ValLaws.tla (the laws over a finite universe, checked by
TLC), spec/ValCont.tla (a set / a map object driven by its mutators),
spec/Val_Trace.tla (validation of recorded observations).

Binding A: TLC exports the universe with the Equal table, and every reachable
container of ValCont with its transitions and reads.  Each abstract value is
built in the implementation twice - through the ckl.values constructors and
by evaluating a literal - and `==`, `!=`, hash, `in`, lookup, removal, set
difference, equals / not_equals, find, container `==` are compared with the
table, through the Python API and through interpreted programs.
Binding B: random values to depth 3 (ints beyond 2^53 as limbs, decimals as
exact rationals - neighbouring doubles included -, dates to the microsecond),
equal variants and near misses, values MADE by natives (decimal arithmetic,
date(<number>), date arithmetic); the relations - through the API and through
one interpreted program with two dozen observers of "the same value?" that
must all agree with `==` - and container histories the implementation
produced are validated by TLC.

Values with a history (spec/ValEdit.tla, Val.tla ApplyEdit): an object whose
hash was taken (set member, map key) and that a program then edits in place
(l[i] = e, append, insert_at, delete_at, remove, put, s[i] = c, also one level
down) must be interchangeable with a freshly written value of its present
content.  Binding A replays every transition of ValEdit on a real object;
binding B drives random objects through random edit sequences and lets
Val_Trace step the content (hnew / hedit / hrel).
"""
import random

from .common import MachineryError
from . import valmodel as M
from .valmodel import V

STR77 = "zz77"


def lit_key(a):
    return M.literal(a)


class Ctx:
    def __init__(self, run):
        self.run = run
        self.im = M.Impl()
        self.n_eval = 0
        self.observers = False

    def vio(self, key, what, case):
        self.run.violation(key, what, case)


def expect_host(cx, o, key, what, case):
    """o: result of valmodel.host / Impl.run.  A host exception while comparing
    values is a failure to terminate / answer: reported."""
    if o[0] == "host":
        cx.vio(key + " !" + o[1], f"host-exception: {what} raised {o[1]} {o[2]}", case)
        return False
    return True


def build_universe(cx, u):
    """values 1..n built by constructors (A) and by literals (L)"""
    im = cx.im
    n = u["n"]
    A = [None] * (n + 1)
    L = [None] * (n + 1)
    for i in range(1, n + 1):
        a = u["v"][i]
        A[i] = M.build(a, im.refs)
        if not M.evaluable(a):
            # no program writes this value (a date with microseconds): a second constructor-built object
            L[i] = M.build(a, im.refs)
            im.put("l%d" % i, L[i])
            im.put("a%d" % i, A[i])
            continue
        o = im.run("def l%d = %s" % (i, M.literal(a)))
        if o[0] != "val" or M.vkey(o[1], im.refs) != M.akey(a):
            cx.run.drift("literal-does-not-evaluate-to-value", {"lit": M.literal(a), "got": str(o)[:80]})
            L[i] = M.build(a, im.refs)
            im.put("l%d" % i, L[i])
        else:
            L[i] = o[1]
        im.put("a%d" % i, A[i])
    ua = V.ValueList()
    ul = V.ValueList()
    for i in range(1, n + 1):
        ua.addItem(A[i])
        ul.addItem(L[i])
    im.put("UA", ua)
    im.put("UL", ul)
    return A, L


def settle_resolution(cx, u, A, L):
    """Pairs that differ only in the sub-second parts of dates (ValLaws RoT): the statement does not
    say whether they are equal.  What the implementation answers (`==` through the API) becomes the
    reference for every other observation of the pair - hash, membership, lookup, container `==`,
    the interpreted operators - and must itself be symmetric; a difference from the model's finest
    resolution is recorded as drift."""
    n = u["n"]
    ro = u.get("ro")
    if not ro:
        return 0
    obs = {}
    for i in range(1, n + 1):
        for j in range(1, n + 1):
            if ro[i][j]:
                o = M.host(lambda: bool(A[i] == L[j]))
                if o[0] == "val":
                    obs[(i, j)] = o[1]
    for (i, j), e in obs.items():
        if e != u["eq"][i][j]:
            cx.run.drift("date-equality-coarser-than-microseconds",
                         {"a": lit_key(u["v"][i]), "b": lit_key(u["v"][j]), "==": e})
        if (j, i) in obs and obs[(j, i)] != e:
            a, b = u["v"][i], u["v"][j]
            cx.vio(f"sym:{lit_key(a)} ~ {lit_key(b)}", f"symmetry: {lit_key(a)} == {lit_key(b)} is {e}, the "
                                                          f"converse {obs[(j, i)]}",
                   {"kind": "pair", "a": a, "b": b, "eq": None})
        u["eq"][i][j] = e
    return len(obs)


def check_pair_api(cx, u, A, L, i, j):
    """one pair through the Python API of ckl.values"""
    a, b = u["v"][i], u["v"][j]
    eq = u["eq"][i][j]
    x, y = A[i], L[j]
    key = f"{lit_key(a)} ~ {lit_key(b)}"
    case = {"kind": "pair", "a": a, "b": b, "eq": eq}
    cx.n_eval += 1
    o = M.host(lambda: x == y)
    if not expect_host(cx, o, "eq:" + key, "==", case):
        return
    if bool(o[1]) != eq:
        cx.vio("eq:" + key, f"equality: {lit_key(a)} == {lit_key(b)} is {o[1]}, the model says {eq}", case)
    o = M.host(lambda: x != y)
    if expect_host(cx, o, "ne:" + key, "!=", case) and bool(o[1]) != (not eq):
        cx.vio("ne:" + key, f"inequality: {lit_key(a)} != {lit_key(b)} is {o[1]}, the model says {not eq}", case)
    if a["k"] == "ref" or b["k"] == "ref":
        pass
    o = M.host(lambda: (hash(x), hash(y)))
    if not expect_host(cx, o, "hash:" + key, "hash", case):
        return
    if eq and o[1][0] != o[1][1]:
        cx.vio("hash:" + key, f"hash: {lit_key(a)} == {lit_key(b)} but their hashes differ", case)

    def containers():
        s = V.ValueSet().addItem(x)
        r = {"set_has": s.hasItem(y)}
        s.addItem(y)
        r["set_len"] = len(s.value)
        m = V.ValueMap().addItem(x, V.ValueInt(7))
        r["map_has"] = m.hasItem(y)
        r["map_get"] = M.vkey(m.getItem(y)) if r["map_has"] else None
        m.addItem(y, V.ValueInt(8))
        r["map_len"] = len(m.value)
        lst = V.ValueList().addItem(x)
        r["find"] = lst.findItem(y)
        r["set_eq"] = V.ValueSet().addItem(x) == V.ValueSet().addItem(y)
        r["list_eq"] = V.ValueList().addItem(x) == V.ValueList().addItem(y)
        r["map_eq"] = (V.ValueMap().addItem(V.ValueInt(1), x) == V.ValueMap().addItem(V.ValueInt(1), y))
        r["key_eq"] = (V.ValueMap().addItem(x, V.ValueInt(1)) == V.ValueMap().addItem(y, V.ValueInt(1)))
        return r

    o = M.host(containers)
    if not expect_host(cx, o, "cont:" + key, "container operations", case):
        return
    want = {"set_has": eq, "set_len": 1 if eq else 2, "map_has": eq,
            "map_get": ("int", 7) if eq else None, "map_len": 1 if eq else 2,
            "find": 0 if eq else -1, "set_eq": eq, "list_eq": eq, "map_eq": eq, "key_eq": eq}
    for f, w in want.items():
        if o[1][f] != w:
            cx.vio(f"{f}:{key}", f"interchangeable: {f} with element {lit_key(a)} and probe "
                                 f"{lit_key(b)} gives {o[1][f]!r}, the model says {w!r}", case)


ROW_SRC = ("do def x = %s; def lx = [x]; def sx = set(lx); def mx = <<<>>>; mx[x] = 7; "
           "[[x == y, x != y, equals(x, y), not_equals(x, y), y in lx, find(lx, y), y in sx, y in mx] "
           "for y in %s]; end")
ROW_OPS = ["==", "!=", "equals", "not_equals", "in-list", "find", "in-set", "in-map"]


def row_want(eq):
    return [eq, not eq, eq, not eq, eq, 0 if eq else -1, eq, eq]


def check_row_interp(cx, u, i, xs, ys, names):
    """row i of the table through one interpreted program"""
    n = u["n"]
    o = cx.im.run(ROW_SRC % (xs % i, ys))
    a = u["v"][i]
    if o[0] == "val":
        rows = M.bools(o[1])
        cx.n_eval += n
        for j in range(1, n + 1):
            got = rows[j - 1]
            want = row_want(u["eq"][i][j])
            if got != want:
                b = u["v"][j]
                for f, g, w in zip(ROW_OPS, got, want):
                    if g != w:
                        cx.vio(f"prog {f}:{lit_key(a)} ~ {lit_key(b)}",
                               f"equality: program `{f}` on {lit_key(a)} and {lit_key(b)} gives {g!r}, "
                               f"the model says {w!r} ({names})",
                               {"kind": "pair-prog", "a": a, "b": b, "eq": u["eq"][i][j]})
        return
    # the row failed as a whole: localise pair by pair
    for j in range(1, n + 1):
        b = u["v"][j]
        src = ROW_SRC % (xs % i, "[" + {"UA": "a", "UL": "l"}[ys] + "%d" % j + "]")
        oo = cx.im.run(src)
        cx.n_eval += 1
        key = f"prog:{lit_key(a)} ~ {lit_key(b)}"
        case = {"kind": "pair-prog", "a": a, "b": b, "eq": u["eq"][i][j]}
        if oo[0] == "host":
            cx.vio(key + " !" + oo[1], f"host-exception: comparing {lit_key(a)} with {lit_key(b)} in a "
                                       f"program raised {oo[1]}", case)
        elif oo[0] != "val":
            cx.vio(key + " !error", f"error: comparing {lit_key(a)} with {lit_key(b)} in a program "
                                    f"failed: {oo[1]}", case)
        elif M.bools(oo[1])[0] != row_want(u["eq"][i][j]):
            cx.vio(key, f"equality: program on {lit_key(a)} and {lit_key(b)} gives {M.bools(oo[1])[0]}", case)


EQ_SRC = ("do def x = %s; def y = %s; def m = <<<>>>; m[x] = 5; def m2 = <<<>>>; m2[x] = 5; "
          "[length(remove(<< x, 'zz77' >>, y)), length(<< x, 'zz77' >> - << y >>), length([x, 'zz77'] - [y]), "
          "length(remove([x], y)), m[y], length(remove(m2, y)), << x >> == << y >>, [x] == [y], "
          "<<< 1 => x >>> == <<< 1 => y >>>, length(<< x, y >>), length(set([x, y])), "
          "equals(<< x, 'zz77' >>, << 'zz77', y >>), length(append(<< x >>, y))]; end")
EQ_WANT = [1, 1, 1, 0, 5, 0, True, True, True, 1, 1, True, 1]
EQ_OPS = ["remove-from-set", "set-difference", "list-difference", "remove-from-list", "map-lookup",
          "remove-from-map", "set==", "list==", "map==", "set-literal-size", "set()-size",
          "set==-other-order", "append-size"]
NE_SRC = ("do def x = %s; def y = %s; [length(<< x, y >>), << x >> == << y >>, [x] == [y], "
          "length(<< x, 'zz77' >> - << y >>), map([[x, 1]]) == map([[y, 1]])]; end")
NE_WANT = [2, False, False, 2, False]


def check_equal_pair_prog(cx, u, i, j):
    a, b = u["v"][i], u["v"][j]
    key = f"{lit_key(a)} ~ {lit_key(b)}"
    case = {"kind": "eqpair", "a": a, "b": b}
    o = cx.im.run(EQ_SRC % ("a%d" % i, "l%d" % j))
    cx.n_eval += 1
    if o[0] == "host":
        cx.vio("swap:" + key + " !" + o[1], f"host-exception: using {lit_key(b)} in place of the equal "
                                            f"{lit_key(a)} raised {o[1]} {o[2]}", case)
        return
    if o[0] != "val":
        cx.vio("swap:" + key + " !error", f"error: using {lit_key(b)} in place of the equal "
                                          f"{lit_key(a)} failed: {o[1]}", case)
        return
    got = M.bools(o[1])
    for f, g, w in zip(EQ_OPS, got, EQ_WANT):
        if g != w:
            cx.vio(f"swap {f}:{key}", f"interchangeable: {f} with {lit_key(a)} held and the equal "
                                      f"{lit_key(b)} used gives {g!r}, expected {w!r}", case)


def check_unequal_pair_prog(cx, u, i, j):
    a, b = u["v"][i], u["v"][j]
    key = f"{lit_key(a)} ~ {lit_key(b)}"
    o = cx.im.run(NE_SRC % ("a%d" % i, "l%d" % j))
    cx.n_eval += 1
    case = {"kind": "nepair", "a": a, "b": b}
    if o[0] == "host":
        cx.vio("distinct:" + key + " !" + o[1], f"host-exception: {o[1]}", case)
    elif o[0] == "val" and M.bools(o[1]) != NE_WANT:
        cx.vio("distinct:" + key, f"equality: containers of the unequal {lit_key(a)}, {lit_key(b)} "
                                  f"give {M.bools(o[1])}, expected {NE_WANT}", case)


# ------------------------------------------------------------ ValCont replay
def cont_abs(pool, c):
    ks = [pool["e"][i - 1] for i in c["ks"]]
    if c["k"] == "set":
        return M.a_set(ks)
    return M.a_map(ks, [pool["x"][i - 1] for i in c["vs"]])


def ckey(c):
    return (c["k"], tuple(c["ks"]), tuple(c["vs"]))


def observe_container(cx, cv, probes):
    """membership and lookup of every probe through the API"""
    has = [cv.hasItem(p) for p in probes]
    get = [M.vkey(cv.getItem(p)) if (isinstance(cv, V.ValueMap) and h) else None
           for p, h in zip(probes, has)]
    return len(cv.value), has, get


def check_reads(cx, pool, reads, use_prog):
    im = cx.im
    probes_a = pool["e"]
    probes = [M.build(p, im.refs) for p in probes_a]
    pl = V.ValueList()
    for p in probes:
        pl.addItem(p)
    im.put("PR", pl)
    nprog = 0
    for rk, r in reads.items():
        ca = cont_abs(pool, r["obj"])
        want_has = r["has"]
        want_get = [M.akey(g["v"]) if g["ok"] else None for g in r["get"]]
        lk = lit_key(ca)
        case = {"kind": "read", "cont": ca, "pool": probes_a}
        cv = M.build(ca, im.refs)
        cx.n_eval += 1
        o = M.host(lambda: observe_container(cx, cv, probes))
        if not expect_host(cx, o, "read:" + lk, "container reads", case):
            continue
        n, has, get = o[1]
        if n != len(ca["items"]):
            cx.vio("size:" + lk, f"no-equal-duplicates: container built by inserting {lk} holds {n} "
                                 f"entries, the model {len(ca['items'])}", case)
        for p, h, w in zip(probes_a, has, want_has):
            if h != w:
                cx.vio(f"member:{lit_key(p)} in {lk}", f"membership: {lit_key(p)} in {lk} is {h}, "
                                                        f"the model says {w}", case)
        for p, g, w in zip(probes_a, get, want_get):
            if g != w:
                cx.vio(f"lookup:{lk}[{lit_key(p)}]", f"lookup: {lk}[{lit_key(p)}] gives {g}, "
                                                      f"the model says {w}", case)
        if use_prog(nprog):
            src = "do def c = %s; [length(c), [p in c for p in PR]%s]; end" % (
                M.literal(ca), ", [if p in c then c[p] else NULL for p in PR]" if ca["k"] == "map" else "")
            oo = im.run(src)
            cx.n_eval += 1
            if oo[0] == "host":
                cx.vio("read-prog:" + lk + " !" + oo[1], f"host-exception: reading {lk} raised {oo[1]}", case)
            elif oo[0] == "val":
                res = oo[1].value
                if res[0].value != len(ca["items"]):
                    cx.vio("size-lit:" + lk, f"no-equal-duplicates: literal {lk} holds {res[0].value} "
                                             f"entries, the model {len(ca['items'])}", case)
                if M.bools(res[1]) != want_has:
                    cx.vio("member-prog:" + lk, f"membership: `p in {lk}` over the probes gives "
                                                f"{M.bools(res[1])}, the model {want_has}", case)
                if ca["k"] == "map":
                    g2 = [M.vkey(x) if h else None for x, h in zip(res[2].value, want_has)]
                    if g2 != want_get:
                        cx.vio("lookup-prog:" + lk, f"lookup: {lk}[p] over the probes gives {g2}, "
                                                    f"the model {want_get}", case)
            else:
                cx.vio("read-prog:" + lk + " !error", f"error: reading {lk} failed: {oo[1]}", case)
        nprog += 1


def check_edges(cx, pool, reads, edges, use_prog):
    im = cx.im
    probes_a = pool["e"]
    probes = [M.build(p, im.refs) for p in probes_a]
    k = 0
    for e in edges:
        pre = cont_abs(pool, e["pre"])
        post = cont_abs(pool, e["post"])
        rd = reads.get(ckey(e["post"]))
        if rd is None:
            raise MachineryError("ValCont edge leads to a container without a READ record")
        arg = probes_a[e["e"] - 1]
        xv = pool["x"][e["x"] - 1] if e["x"] else None
        want_has = rd["has"]
        want_get = [M.akey(g["v"]) if g["ok"] else None for g in rd["get"]]
        desc = f"{e['op']}({lit_key(pre)}, {lit_key(arg)}" + (f", {lit_key(xv)})" if xv else ")")
        case = {"kind": "edge", "pre": pre, "op": e["op"], "arg": arg, "x": xv, "post": post, "pool": probes_a}
        cv = M.build(pre, im.refs)
        av = M.build(arg, im.refs)

        def step():
            if e["op"] == "append":
                cv.addItem(av)
            elif e["op"] == "remove":
                cv.removeItem(av)
            else:
                cv.addItem(av, M.build(xv, im.refs))
            return observe_container(cx, cv, probes)

        cx.n_eval += 1
        o = M.host(step)
        if expect_host(cx, o, "edge:" + desc, desc, case):
            n, has, get = o[1]
            if n != len(post["items"]) or has != want_has or get != want_get:
                cx.vio("edge:" + desc, f"container-step: after {desc} size/membership/lookups are "
                                       f"{n}/{has}/{get}, the model says "
                                       f"{len(post['items'])}/{want_has}/{want_get}", case)
            elif M.vkey(cv) != M.akey(post):
                cx.run.drift("kept-representative", {"step": desc, "impl": str(cv), "model": lit_key(post)})
        if use_prog(k):
            if e["op"] == "append":
                call = "append(c, %s)" % M.literal(arg)
            elif e["op"] == "remove":
                call = "remove(c, %s)" % M.literal(arg)
            elif k % 2:
                call = "put(c, %s, %s)" % (M.literal(arg), M.literal(xv))
            else:
                call = "c[%s] = %s" % (M.literal(arg), M.literal(xv))
            src = "do def c = %s; %s; [length(c), [p in c for p in PR]%s]; end" % (
                M.literal(pre), call,
                ", [if p in c then c[p] else NULL for p in PR]" if pre["k"] == "map" else "")
            oo = im.run(src)
            cx.n_eval += 1
            if oo[0] == "host":
                cx.vio("edge-prog:" + desc + " !" + oo[1], f"host-exception: {desc} raised {oo[1]}", case)
            elif oo[0] != "val":
                cx.vio("edge-prog:" + desc + " !error", f"error: {desc} failed: {oo[1]}", case)
            else:
                res = oo[1].value
                g2 = want_get
                if pre["k"] == "map":
                    g2 = [M.vkey(x) if h else None for x, h in zip(res[2].value, want_has)]
                if res[0].value != len(post["items"]) or M.bools(res[1]) != want_has or g2 != want_get:
                    cx.vio("edge-prog:" + desc, f"container-step: program {src} gives "
                                                f"{res[0].value}/{M.bools(res[1])}/{g2}, the model says "
                                                f"{len(post['items'])}/{want_has}/{want_get}", case)
        k += 1


def check_orders(cx, pool, reads, rng):
    """container == and hash do not depend on the insertion order"""
    im = cx.im
    for rk, r in reads.items():
        ca = cont_abs(pool, r["obj"])
        if len(ca["items"]) < 2:
            continue
        base = M.build(ca, im.refs)
        for pa in M.perms_of(ca, rng, 5):
            pv = M.build(pa, im.refs)
            cx.n_eval += 1
            o = M.host(lambda: (base == pv, pv == base, hash(base) == hash(pv), base != pv))
            case = {"kind": "order", "a": ca, "b": pa}
            key = f"order:{lit_key(ca)} ~ {lit_key(pa)}"
            if expect_host(cx, o, key, "container ==", case) and o[1] != (True, True, True, False):
                cx.vio(key, f"insertion-order: {lit_key(ca)} and {lit_key(pa)} give ==/==/hash==/!= "
                            f"{o[1]}", case)


# ---------------------------------------------------------------- binding B
# Observers of "are bx and by the same value?" beyond the API `==`: every answer is normalised to a
# boolean that must coincide with `==` (Val_Trace clause `interchangeable`).
AX_NAMES = ["api:converse ==", "api:set.hasItem", "api:set size after adding both", "api:map.hasItem",
            "api:map size after putting both", "api:list.findItem", "api:set ==", "api:list ==",
            "api:map == (as value)", "api:map == (as key)"]


def ax_observe(x, y):
    s = V.ValueSet().addItem(x)
    r = [bool(y == x), bool(s.hasItem(y))]
    s.addItem(y)
    r.append(len(s.value) == 1)
    m = V.ValueMap().addItem(x, V.ValueInt(7))
    r.append(bool(m.hasItem(y)))
    m.addItem(y, V.ValueInt(8))
    r.append(len(m.value) == 1)
    r.append(V.ValueList().addItem(x).findItem(y) == 0)
    r.append(bool(V.ValueSet().addItem(x) == V.ValueSet().addItem(y)))
    r.append(bool(V.ValueList().addItem(x) == V.ValueList().addItem(y)))
    r.append(bool(V.ValueMap().addItem(V.ValueInt(1), x) == V.ValueMap().addItem(V.ValueInt(1), y)))
    r.append(bool(V.ValueMap().addItem(x, V.ValueInt(1)) == V.ValueMap().addItem(y, V.ValueInt(1))))
    return r


PX_ITEMS = [
    ("==", "bx == by"), ("converse ==", "by == bx"), ("!=", "not (bx != by)"), ("is", "bx is by"),
    ("equals", "equals(bx, by)"), ("not_equals", "not not_equals(bx, by)"),
    ("in list", "by in [bx]"), ("find", "find([bx], by) == 0"),
    ("in set", "by in << bx >>"), ("in set (converse)", "bx in << by >>"),
    ("in map", "by in mx"), ("in map (converse)", "bx in my"),
    ("set ==", "<< bx >> == << by >>"), ("list ==", "[bx] == [by]"),
    ("map == (as key)", "map([[bx, 1]]) == map([[by, 1]])"), ("map == (as value)", "<<< 1 => bx >>> == <<< 1 => by >>>"),
    ("size of << x, y >>", "length(<< bx, by >>) == 1"), ("size of set([x, y])", "length(set([bx, by])) == 1"),
    ("set difference", "length(<< bx, 'zz77' >> - << by >>) == 1"),
    ("list difference", "length([bx, 'zz77'] - [by]) == 1"),
    ("remove from set", "length(remove(<< bx, 'zz77' >>, by)) == 1"),
    ("remove from list", "length(remove([bx], by)) == 0"),
    ("remove from map", "length(remove(map([[bx, 1]]), by)) == 0"),
    ("append to set", "length(append(<< bx >>, by)) == 1"),
]
PX_NAMES = [n for n, _ in PX_ITEMS]
# the observers as functions of the interpreter session (parsed once; arguments are passed as the
# objects themselves)
PX_DEF = ("def c06_px(bx, by) do def mx = <<<>>>; mx[bx] = 7; def my = <<<>>>; my[by] = 7; ["
          + ", ".join(src for _, src in PX_ITEMS) + "]; end")
PX_ROW_DEF = "def c06_px_row(bx, probes) [c06_px(bx, by) for by in probes]"
PX_SRC = "c06_px(bx, by)"
OBS_NAMES = AX_NAMES + PX_NAMES


def define_observers(cx):
    for d in (PX_DEF, PX_ROW_DEF):
        o = cx.im.run(d)
        if o[0] != "val":
            raise MachineryError(f"the observer functions could not be defined: {o}")


def observe_pair(cx, x, y, key, case):
    """(eq, ne, hq, px) of two implementation objects, or None after reporting a host exception"""
    im = cx.im
    if not cx.observers:
        define_observers(cx)
        cx.observers = True
    o = M.host(lambda: (bool(x == y), bool(x != y), hash(x) == hash(y), ax_observe(x, y)))
    if o[0] == "host":
        cx.vio(f"rel:{key} !{o[1]}", f"host-exception: comparing {key} raised {o[1]} {o[2]}", case)
        return None
    eq, ne, hq, ax = o[1]
    im.put("bx", x)
    im.put("by", y)
    oo = im.run(PX_SRC)
    cx.n_eval += 1
    if oo[0] == "host":
        cx.vio(f"rel-prog:{key} !{oo[1]}", f"host-exception: comparing {key} in a program raised {oo[1]} {oo[2]}",
               case)
        return None
    if oo[0] != "val":
        cx.vio(f"rel-prog:{key} !error", f"error: comparing {key} in a program failed: {oo[1]}", case)
        return None
    px = M.bools(oo[1])
    if len(px) != len(PX_ITEMS) or not all(isinstance(t, bool) for t in px):
        cx.vio(f"rel-prog:{key} !shape", f"error: comparing {key} in a program gave {str(oo[1])[:120]}", case)
        return None
    return eq, ne, hq, ax + px


def disagreeing(e):
    names = OBS_NAMES + [n + " (converse)" for n in OBS_NAMES]
    return [n for n, t in zip(names, e["px"]) if t != e["eq"]]


def rel_event(cx, a, b, x=None, y=None):
    """the relations of two values: through the API and through one interpreted program; x, y: the
    implementation objects when they were not built from a, b (values made by natives)"""
    im = cx.im
    x = M.build(a, im.refs) if x is None else x
    y = M.build(b, im.refs) if y is None else y
    r = observe_pair(cx, x, y, f"{lit_key(a)} ~ {lit_key(b)}", {"kind": "pair", "a": a, "b": b, "eq": None})
    if r is None:
        return None
    eq, ne, hq, px = r
    return {"op": "rel", "a": a, "b": b, "eq": eq, "ne": ne, "hq": hq, "px": px, "ord": False,
            "lt": False, "le": False, "gt": False, "ge": False, "cmp": 0, "mn": 0, "mx": 0}


def tri_event(cx, a, b, c):
    im = cx.im
    x, y, z = (M.build(t, im.refs) for t in (a, b, c))
    o = M.host(lambda: (x == y, y == z, x == z))
    if o[0] == "host":
        return None
    return {"op": "tri", "a": a, "b": b, "c": c, "eab": bool(o[1][0]), "ebc": bool(o[1][1]),
            "eac": bool(o[1][2]), "ab": False, "bc": False, "ac": False, "ba": False, "ord": False}


def cont_trace(cx, rng, events, meta, elem_pool):
    """one random history of a set or a map object, driven through
    interpreted programs; every call logged with what it returned"""
    im = cx.im
    kind = rng.choice(["set", "map"])
    im.run("def c = " + ("<<>>" if kind == "set" else "<<<>>>"))
    events.append({"op": "cnew", "kind": kind})
    meta.append("def c = " + ("<<>>" if kind == "set" else "<<<>>>"))
    held = []           # abstract values the harness believes are in (for choosing removals)
    for _ in range(rng.randint(4, 10)):
        op = rng.choice(["add", "add", "has", "has", "rem", "eq", "diff"] if kind == "set"
                        else ["put", "put", "has", "get", "get", "rem", "eq"])
        v = rng.choice(elem_pool)
        if rng.random() < 0.4 and held:
            v = M.equal_variant(rng, rng.choice(held))
        lv = M.literal(v)
        if op == "add":
            src = f"length(append(c, {lv}))"
            o = im.run(src)
            if o[0] == "val":
                events.append({"op": "cadd", "v": v, "n": o[1].value})
                held.append(v)
        elif op == "put":
            xv = M.a_int(rng.randint(0, 9))
            src = (f"length(put(c, {lv}, {M.literal(xv)}))" if rng.random() < 0.5
                   else f"do c[{lv}] = {M.literal(xv)}; length(c); end")
            o = im.run(src)
            if o[0] == "val":
                events.append({"op": "cput", "k": v, "x": xv, "n": o[1].value})
                held.append(v)
        elif op == "has":
            src = f"{lv} in c"
            o = im.run(src)
            if o[0] == "val":
                events.append({"op": "chas", "v": v, "r": bool(o[1].value)})
        elif op == "get":
            src = f"if {lv} in c then [c[{lv}]] else []"
            o = im.run(src)
            if o[0] == "val":
                got = o[1].value
                try:
                    r = M.to_abs(got[0], im.refs, True) if got else M.a_null()
                except M.Unencodable:
                    continue
                events.append({"op": "cget", "k": v, "okk": bool(got), "r": r})
        elif op == "rem":
            # removal of an absent element is an error (C13); only present ones are recorded
            o = im.run(f"{lv} in c")
            if not (o[0] == "val" and o[1].value):
                continue
            src = f"length(remove(c, {lv}))"
            o = im.run(src)
            if o[0] == "val":
                events.append({"op": "crem", "v": v, "okk": True, "n": o[1].value})
                cv = M.canon(v)
                held = [h for h in held if M.canon(h) != cv]
            elif o[0] == "host":
                events.append({"op": "crem", "v": v, "okk": False, "n": -1})
        elif op == "eq":
            # the same content (as the harness tracks it) in another order and with other representatives
            seen = {}
            for h in held:
                seen.setdefault(M.canon(h), h)
            other_items = [M.equal_variant(rng, h) for h in seen.values()]
            rng.shuffle(other_items)
            if kind == "set":
                other = M.a_set(other_items)
            else:
                continue
            src = f"c == {M.literal(other)}"
            o = im.run(src)
            if o[0] == "val":
                events.append({"op": "ceq", "other": other, "r": bool(o[1].value)})
        else:
            src = f"length(c - << {lv} >>)"
            o = im.run(src)
            if o[0] == "val":
                events.append({"op": "cdiff", "v": v, "n": o[1].value})
        if o[0] == "host":
            cx.vio(f"trace:{kind}:{src} !{o[1]}", f"host-exception: {src} raised {o[1]} {o[2]}",
                   {"kind": "prog", "src": src})
        cx.n_eval += 1
        while len(meta) < len(events):
            meta.append(src)


# ------------------------------------------------- values with a history
def rich_scalar(rng, kind=None):
    return M.gen_scalar(rng, kind, rich=True)


def whole_seconds(a):
    """a with every date cut to the whole second (container histories are stepped by the model at
    its finest resolution; whether two dates inside one second are equal is not C06's to say)"""
    if a["k"] == "date":
        return M.mk("date", s=a["s"][:6] + [0])
    if a["k"] in ("list", "set", "map"):
        b = dict(a, items=[whole_seconds(x) for x in a["items"]], vals=[whole_seconds(x) for x in a["vals"]])
        if a["k"] != "list":
            cs = [M.canon(x) for x in b["items"]]
            if len(set(cs)) != len(cs):
                return M.a_null()
        return b
    return a


def path_expr(path):
    """the program text that denotes the part of `hw` addressed by the path"""
    t = "hw"
    for st in path:
        t += "[%d]" % (st["i"] - 1) if st["i"] > 0 else "[%s]" % M.literal(st["key"])
    return t


def edit_stmt(path, op, alt=False):
    """the statement that performs the edit on the object held in `hw`"""
    t = path_expr(path)
    n = op["name"]
    if n in ("setat", "setchar"):
        return "%s[%d] = %s" % (t, op["i"] - 1, M.literal(op["e"]))
    if n == "append":
        return "append(%s, %s)" % (t, M.literal(op["e"]))
    if n == "insertat":
        return "insert_at(%s, %d, %s)" % (t, op["i"] - 1, M.literal(op["e"]))
    if n == "deleteat":
        return "delete_at(%s, %d)" % (t, op["i"] - 1)
    if n == "remove":
        return "remove(%s, %s)" % (t, M.literal(op["e"]))
    if n == "put":
        if alt:
            return "put(%s, %s, %s)" % (t, M.literal(op["e"]), M.literal(op["x"]))
        return "%s[%s] = %s" % (t, M.literal(op["e"]), M.literal(op["x"]))
    raise ValueError(n)


def sub_object(w, path, refs):
    """the implementation object the path leads to, found by walking the object (no lookup)"""
    for st in path:
        if st["i"] > 0:
            w = w.value[st["i"] - 1]
        else:
            want = M.canon(st["key"])
            hit = [v for k, v in w.value.items() if M.canon(M.to_abs(k, refs, True)) == want]
            w = hit[0]
    return w


def edit_api(w, path, op, refs):
    """the same edit through the methods of ckl.values; False: no method performs it"""
    t = sub_object(w, path, refs)
    n = op["name"]
    meth = {"append": "addItem", "insertat": "insertAt", "deleteat": "deleteAt", "remove": "removeItem",
            "put": "addItem"}.get(n)
    if meth is None or not callable(getattr(t, meth, None)):
        return False            # no such method (any more): the edit goes through a program instead
    if n == "append":
        t.addItem(M.build(op["e"], refs))
    elif n == "insertat":
        t.insertAt(op["i"] - 1, M.build(op["e"], refs))
    elif n == "deleteat":
        t.deleteAt(op["i"] - 1)
    elif n == "remove":
        t.removeItem(M.build(op["e"], refs))
    elif n == "put":
        t.addItem(M.build(op["e"], refs), M.build(op["x"], refs))
    else:
        return False
    return True


TOUCH_SRC = "[hw in << hw >>, length(map([[hw, 1]])), hw in << 'zz77' >>, hw == hw]"


def touch(cx, w):
    """the object is used as a set member and a map key (its hash is taken) before it is edited"""
    cx.im.put("hw", w)
    M.host(lambda: (hash(w), V.ValueSet().addItem(w).hasItem(w)))
    cx.im.run(TOUCH_SRC)


def edit_desc(pre, path, op, alt=False):
    return f"{lit_key(pre)} ; {edit_stmt(path, op, alt)}"


def check_edits(cx, res, use_api):
    """binding A of ValEdit: every distinct transition on a real object whose hash was taken before,
    the edited object against a fresh value of the model's content and against the pool F"""
    im = cx.im
    fp = res.records("FPOOL")
    if not fp:
        raise MachineryError("ValEdit exported no pool")
    F = fp[0]["f"]
    Fv = [M.build(f, im.refs) for f in F]
    if not cx.observers:
        define_observers(cx)
        cx.observers = True
    seen = set()
    ops = {}
    n = ndrift = 0
    for e in res.records("EDGE"):
        pre, path, op, post = e["pre"], e["path"], e["op"], e["post"]
        k = (M.literal(pre), path_expr(path), op["name"], op["i"], M.literal(op["e"]), M.literal(op["x"]))
        if k in seen:
            continue
        seen.add(k)
        ops[(pre["k"], len(path), op["name"])] = ops.get((pre["k"], len(path), op["name"]), 0) + 1
        via_api = use_api(n) and op["name"] not in ("setat", "setchar")
        n += 1
        alt = n % 2 == 1
        desc = edit_desc(pre, path, op, alt) + (" (ckl.values method)" if via_api else "")
        case = {"kind": "edit", "pre": pre, "path": path, "op": op, "alt": alt}
        w = M.build(pre, im.refs) if n % 3 else None
        if w is None:
            o = im.run(M.literal(pre))
            w = o[1] if o[0] == "val" and M.vkey(o[1], im.refs) == M.akey(pre) else M.build(pre, im.refs)
        touch(cx, w)
        o = None
        if via_api:
            o = M.host(lambda: edit_api(w, path, op, im.refs))
            if o[0] == "val" and o[1] is False:
                o = None
                desc = edit_desc(pre, path, op, alt)
        if o is None:
            o = im.run(edit_stmt(path, op, alt))
        cx.n_eval += 1
        if o[0] == "host":
            cx.vio(f"edit:{desc} !{o[1]}", f"host-exception: {desc} raised {o[1]} {o[2]}", case)
            continue
        if o[0] != "val":
            cx.run.drift("edit-refused", {"edit": desc, "got": str(o[1])[:100]})
            ndrift += 1
            continue
        try:
            same = M.canon(M.to_abs(w, im.refs, True)) == M.canon(post)
        except M.Unencodable:
            same = False
        if not same:
            # what the writer does to the content is not C06's subject
            cx.run.drift("edit-result-differs-from-the-model", {"edit": desc, "impl": str(w)[:80],
                                                               "model": lit_key(post)})
            ndrift += 1
            continue
        # a fresh value of the same content, every pool value Equal to it, and three that are not
        # (rotating through the pool; the content before the edit among them when the pool has it)
        probes = [(post, M.build(post, im.refs), True)] + [(f, fv, q) for f, fv, q in zip(F, Fv, e["eqs"]) if q]
        ne = [(f, fv, q) for f, fv, q in zip(F, Fv, e["eqs"]) if not q]
        was = [t for t in ne if M.canon(t[0]) == M.canon(pre)]
        probes += was[:1] + [ne[(n + j * 7) % len(ne)] for j in range(3)]
        pl = V.ValueList()
        for _, pv, _ in probes:
            pl.addItem(pv)
        im.put("PF", pl)
        im.put("hw", w)
        # API
        for b, pv, want in probes:
            oo = M.host(lambda: (bool(w == pv), bool(w != pv), hash(w) == hash(pv), ax_observe(w, pv),
                                 ax_observe(pv, w)))
            cx.n_eval += 1
            if oo[0] == "host":
                cx.vio(f"edit:{desc} ~ {lit_key(b)} !{oo[1]}", f"host-exception: comparing the edited object "
                       f"with {lit_key(b)} raised {oo[1]}", dict(case, probe=b))
                continue
            eq, ne, hq, ax1, ax2 = oo[1]
            got = [eq, not ne] + ax1 + ax2
            names = ["api:==", "api:!="] + AX_NAMES + [t + " (fresh value held, edited object as probe)"
                                                        for t in AX_NAMES]
            wrong = [nm for nm, g in zip(names, got) if g != want]
            if wrong:
                cx.vio(f"edit:{desc} ~ {lit_key(b)}",
                       f"history: after {desc} the object is {lit_key(post)}; against a freshly written "
                       f"{lit_key(b)} the model says {'equal' if want else 'not equal'}, {len(wrong)} of "
                       f"{len(names)} observers answer otherwise: {wrong[:6]}", dict(case, probe=b))
            if want and not hq:
                cx.vio(f"edit hash:{desc} ~ {lit_key(b)}",
                       f"hash: after {desc} the object equals a freshly written {lit_key(b)} but their hashes "
                       f"differ", dict(case, probe=b))
        # program
        oo = im.run(HROW_SRC)
        cx.n_eval += len(probes)
        if oo[0] == "host":
            cx.vio(f"edit-prog:{desc} !{oo[1]}", f"host-exception: comparing the edited object in a program "
                                                 f"raised {oo[1]} {oo[2]}", case)
        elif oo[0] != "val":
            cx.vio(f"edit-prog:{desc} !error", f"error: comparing the edited object in a program failed: "
                                               f"{oo[1]}", case)
        else:
            rows = M.bools(oo[1])
            for (b, pv, want), row in zip(probes, rows):
                wrong = [nm for nm, g in zip(PX_NAMES, row) if g != want]
                if wrong:
                    cx.vio(f"edit-prog:{desc} ~ {lit_key(b)}",
                           f"history: after {desc} the object is {lit_key(post)}; against a freshly written "
                           f"{lit_key(b)} the model says {'equal' if want else 'not equal'}, {len(wrong)} of "
                           f"{len(PX_NAMES)} interpreted observers answer otherwise: {wrong[:6]}",
                           dict(case, probe=b))
    return n, ndrift, ops


HROW_SRC = "c06_px_row(hw, PF)"


def random_edit(rng, cur):
    """(path, op) of an edit enabled on the abstract content cur, or None"""
    path = []
    t = cur
    while True:
        subs = []
        if t["k"] == "list":
            subs = [(M_step(i + 1, None), x) for i, x in enumerate(t["items"]) if x["k"] in ("list", "set", "map", "str")]
        elif t["k"] == "map":
            subs = [(M_step(0, k), x) for k, x in zip(t["items"], t["vals"]) if x["k"] in ("list", "set", "map", "str")]
        if subs and rng.random() < 0.45 and len(path) < 2:
            st, t = rng.choice(subs)
            path.append(st)
        else:
            break
    k = t["k"]
    n = len(t["items"])
    e = M.gen_value(rng, rng.choice([0, 0, 0, 1]), elem=rich_scalar)
    if rng.random() < 0.3 and t["items"]:
        e = M.equal_variant(rng, rng.choice(t["items"]))
    if not M.evaluable(e):          # the edit is a program: its operands must have a program form
        e = whole_seconds(e)
    nul = M.a_null()
    if k == "list":
        c = rng.choice(["setat", "setat", "append", "insertat", "deleteat", "remove"])
        if c == "setat" and n:
            return path, {"name": "setat", "i": rng.randint(1, n), "e": e, "x": nul}
        if c == "insertat":
            return path, {"name": "insertat", "i": rng.randint(1, n + 1), "e": e, "x": nul}
        if c == "deleteat" and n:
            return path, {"name": "deleteat", "i": rng.randint(1, n), "e": nul, "x": nul}
        if c == "remove" and n:
            return path, {"name": "remove", "i": 0, "e": M.equal_variant(rng, rng.choice(t["items"])), "x": nul}
        return path, {"name": "append", "i": 0, "e": e, "x": nul}
    if k == "set":
        if n and rng.random() < 0.4:
            return path, {"name": "remove", "i": 0, "e": M.equal_variant(rng, rng.choice(t["items"])), "x": nul}
        return path, {"name": "append", "i": 0, "e": e, "x": nul}
    if k == "map":
        if n and rng.random() < 0.3:
            return path, {"name": "remove", "i": 0, "e": M.equal_variant(rng, rng.choice(t["items"])), "x": nul}
        x = M.gen_value(rng, rng.choice([0, 0, 1]), elem=rich_scalar)
        if not M.evaluable(x):
            x = whole_seconds(x)
        return path, {"name": "put", "i": 0, "e": e, "x": x}
    if k == "str" and t["s"]:
        return path, {"name": "setchar", "i": rng.randint(1, len(t["s"])), "e": M.a_str(rng.choice(M.ALPHA_RICH)),
                      "x": nul}
    return None


def M_step(i, key):
    return {"i": i, "key": key if key is not None else M.a_null()}


def hrel_event(cx, w, b, desc):
    """the edited object w against a freshly written b"""
    im = cx.im
    y = M.build(b, im.refs)
    case = {"kind": "prog", "src": desc}
    r = observe_pair(cx, w, y, f"{desc} ~ {lit_key(b)}", case)
    if r is None:
        return None
    eq, ne, hq, px = r
    r2 = observe_pair(cx, y, w, f"{lit_key(b)} ~ {desc}", case)
    if r2 is None:
        return None
    return {"op": "hrel", "b": b, "eq": eq, "ne": ne, "qe": r2[0], "hq": hq, "px": px + r2[3]}


def history_trace(cx, rng, events, meta):
    """one object with a history: built, used as a member and a key, edited in place by a program a
    few times; after every edit compared with freshly written values"""
    im = cx.im
    start = M.gen_value(rng, rng.choice([1, 2, 2]), kinds=rng.choice([["list"], ["list"], ["list", "map"], ["set"],
                                                                       ["map", "list"]]), elem=rich_scalar)
    if not M.evaluable(start):      # the edits are programs that name elements and keys of the object
        start = whole_seconds(start)
    if start["k"] not in ("list", "set", "map"):
        start = M.a_list([start])
    if rng.random() < 0.15:
        start = M.a_str("".join(rng.choice(M.ALPHA_RICH) for _ in range(rng.randint(1, 3))))
    w = M.build(start, im.refs)
    events.append({"op": "hnew", "v": start})
    meta.append("def hw = " + lit_key(start))
    hist = "def hw = " + lit_key(start)
    cur = start
    for _ in range(rng.randint(1, 5)):
        touch(cx, w)
        pe = random_edit(rng, cur)
        if pe is None:
            break
        path, op = pe
        alt = rng.random() < 0.5
        stmt = edit_stmt(path, op, alt)
        o = im.run(stmt)
        cx.n_eval += 1
        if o[0] == "host":
            cx.vio(f"history:{hist}; {stmt} !{o[1]}", f"host-exception: {hist}; {stmt} raised {o[1]} {o[2]}",
                   {"kind": "prog", "src": hist + "; " + stmt})
            break
        try:
            new = M.to_abs(w, im.refs, True)
        except M.Unencodable:
            break
        hist += "; " + stmt
        events.append({"op": "hedit", "path": path, "name": op["name"], "i": op["i"], "e": op["e"], "x": op["x"],
                       "okk": o[0] == "val", "cur": new})
        meta.append(hist)
        for b in (M.equal_variant(rng, new), M.deep_reorder(rng, new) if rng.random() < 0.5 else M.mutate(rng, new, rich=True),
                  cur):
            e = hrel_event(cx, w, b, hist)
            if e is None:
                return
            events.append(e)
            meta.append(hist + "  against  " + lit_key(b))
        cur = new


NATIVE_EXPRS = [
    "0.1 + 0.2", "0.3", "0.1 * 3", "0.2 + 0.1", "1.0 / 3", "1 / 3.0", "0.7 + 0.1", "0.8", "1.1 * 1.1", "1.21",
    "4.35 * 100", "435.0", "decimal('0.1') + decimal('0.2')", "3 / 10.0", "0.3 - 0.0", "1.0 - 0.9", "0.1",
    "date(45000.1234567)", "date(45000.12345671)", "date(45000.1234567) + 0", "date('20230315025746')",
    "date('20230315025746') + 0.0", "date(36678.533755138895)", "date('20000601124836')",
    "date('20000601124836') + 0.000005138888888888889", "date('20000601124836') + 0.000005138900462962963",
    "date(36678)", "date('20000601')", "date('20000601') + 1 - 1", "parse_date('2000-06-01', 'yyyy-MM-dd')",
    "[0.1 + 0.2]", "[0.3]", "<< 0.1 + 0.2 >>", "<< 0.3 >>", "[date(45000.1234567)]", "[date('20230315025746')]",
]


# texts that the host's readers turn into numbers the language has no literal for: no such value may come out
NATIVE_ODD = ["parse_json('[null]')[0]", "parse_json('null')", "parse_json('{\"a\": null}')['a']", "parse_json('[true, false]')[0]",
              "parse_json('[NaN]')[0]", "parse_json('[Infinity]')[0]", "parse_json('[-Infinity]')[0]", "parse_json('1e999')",
              "parse_json('[1e400, 1]')[0]", "decimal('nan')", "decimal('inf')", "decimal('1e999')", "decimal('-infinity')",
              # arithmetic that leaves the range of a decimal, and what the host makes of the difference of two such results
              "1" + "0" * 308 + ".0 * 10.0", "(1" + "0" * 308 + ".0 * 10.0) - (1" + "0" * 308 + ".0 * 10.0)",
              "sum([1" + "0" * 308 + ".0, 1" + "0" * 308 + ".0]) - sum([1" + "0" * 308 + ".0, 1" + "0" * 308 + ".0])",
              "(1" + "0" * 308 + ".0 + 1" + "0" * 308 + ".0) * 0", "9" * 400 + ".5 - " + "9" * 400 + ".5"]


def kclass(a):
    return "num" if a["k"] in ("int", "dec") else a["k"]


def native_pairs(cx, events, meta):
    """values MADE by natives (decimal arithmetic, date(<number>), date arithmetic): the very objects
    they returned, abstracted exactly, every pair of them"""
    im = cx.im
    made = []
    for src in NATIVE_EXPRS + NATIVE_ODD:
        o = im.run(src)
        if o[0] != "val":
            continue
        # whatever a native hands out is a value: equal to itself, found in a list and a set that hold it
        r = im.run(f"do def v_ = {src}; [v_ == v_, v_ in [v_], v_ in <<v_>>, length(<<v_, v_>>)] end")
        if r[0] == "val" and str(r[1]) == "[TRUE, TRUE, TRUE, 1]":
            # ... and symmetric towards the constants of its kind
            r2 = im.run(f"do def v_ = {src}; [(v_ == NULL) == (NULL == v_), (v_ == TRUE) == (TRUE == v_), length(<<NULL, v_>>) == length(<<v_, NULL>>)] end")
            if r2[0] == "val" and str(r2[1]) != "[TRUE, TRUE, TRUE]":
                r = r2
        if r[0] != "val" or str(r[1]) not in ("[TRUE, TRUE, TRUE, 1]", "[TRUE, TRUE, TRUE]"):
            cx.run.violation("made-reflexive:" + src,
                             f"reflexivity: the value of {src} ({str(o[1])[:40]}) answers [v == v, v in [v], v in <<v>>, length(<<v, v>>)] "
                             f"with {str(r[1])[:60] if r[0] == 'val' else r[:2]}", {"kind": "made", "src": src})
            continue
        if src in NATIVE_ODD:
            continue
        try:
            made.append((src, o[1], M.to_abs(o[1], im.refs, True)))
        except M.Unencodable:
            cx.run.drift("native-made-value-outside-the-encoding", {"src": src, "value": str(o[1])[:60]})
    for sa, x, a in made:
        for sb, y, b in made:
            if kclass(a) != kclass(b):
                continue
            e = rel_event(cx, a, b, x, y)
            if e:
                events.append(e)
                meta.append(f"{sa} ~ {sb}")
    return len(made)


def binding_b(cx, rng, npairs, ntraces, nhist=0):
    events, meta = [], []
    cx.cov_native = native_pairs(cx, events, meta)
    for _ in range(nhist):
        history_trace(cx, rng, events, meta)
    for _ in range(npairs):
        a = M.gen_value(rng, rng.choice([0, 1, 2, 3]), elem=rich_scalar)
        r = rng.random()
        b = (M.equal_variant(rng, a) if r < 0.45 else
             (M.mutate(rng, a, rich_scalar, rich=True) if r < 0.8 else M.gen_value(rng, 2, elem=rich_scalar)))
        e = rel_event(cx, a, b)
        if e:
            events.append(e)
            meta.append(f"{lit_key(a)} ~ {lit_key(b)}")
        if rng.random() < 0.3:
            c = M.equal_variant(rng, b) if rng.random() < 0.6 else M.mutate(rng, b, rich_scalar, rich=True)
            e = tri_event(cx, a, b, c)
            if e:
                events.append(e)
                meta.append(f"{lit_key(a)} ~ {lit_key(b)} ~ {lit_key(c)}")
        cx.n_eval += 1
    pool = [whole_seconds(M.gen_value(rng, 1, elem=rich_scalar)) for _ in range(6)] + [
        M.a_int(1), M.a_dec(1.0), M.a_dec(0.0), M.a_dec(-0.0), M.a_int(2 ** 53), M.a_dec(2.0 ** 53),
        M.a_int(2 ** 53 + 1), M.a_dec(0.3, True), M.a_dec(0.1 + 0.2, True),
        M.mk("date", s=[999, 12, 31, 23, 59, 59, 0]), M.mk("date", s=[999, 12, 31, 23, 59, 58, 0])]
    for _ in range(ntraces):
        pl = pool + [whole_seconds(M.gen_value(rng, 2, elem=rich_scalar)) for _ in range(3)]
        cont_trace(cx, rng, events, meta, pl)
    bad = M.validate(cx.run, events, "Val_Trace validation of recorded relations, container histories and "
                                     "objects edited in place")
    report_bad(cx, events, meta, bad)
    return len(events)


def report_bad(cx, events, meta, bad):
    for k, why in bad:
        if why.startswith("wf"):
            raise MachineryError(f"harness sent an ill-formed value: {meta[k]}")
        if why in ("edit-enabled", "edit-result"):
            # what a writer does to the content is not C06's subject (the model re-synchronises)
            cx.run.drift("edit-differs-from-the-model", {"history": meta[k], "clause": why})
            continue
        j = k
        op = events[k]["op"]
        if op.startswith("c"):
            while events[j]["op"] != "cnew":
                j -= 1
        elif op.startswith("h"):
            while events[j]["op"] != "hnew":
                j -= 1
        detail = _brief(events[k])
        if why == "interchangeable":
            detail = {"==": events[k]["eq"], "answer otherwise": disagreeing(events[k])[:8]}
        cx.vio(f"trace:{meta[k]} @{why}", f"{why}: recorded observation {meta[k]} rejected by Val_Trace "
                                          f"at clause {why}: {detail}",
               {"kind": "trace", "events": events[j:k + 1], "meta": meta[j:k + 1]})


def _brief(e):
    return {k: v for k, v in e.items()
            if k not in ("a", "b", "c", "v", "k", "x", "other", "r", "px", "e", "cur", "path")
            or isinstance(v, (bool, int))}


def run(run):
    quick = run.tier == "quick"
    rng = random.Random(run.seed)
    cx = Ctx(run)
    res_u, res, res_r, res_e = M.tlc_parallel([
        ("ValLaws", "ValLaws_c06_quick" if quick else "ValLaws_c06_thorough", dict(coverage=False, timeout=3000)),
        ("ValCont", "ValCont_quick" if quick else "ValCont_thorough",
         dict(coverage=False, timeout=3000, workers=8, heap="4g")),
        ("ValCont", "ValCont_rich", dict(coverage=False, timeout=3000, workers=2, heap="2g")),
        ("ValEdit", "ValEdit_quick" if quick else "ValEdit_thorough",
         dict(coverage=False, timeout=3000, workers=4, heap="3g"))])
    # how often each action was taken, counted from the transitions the specs export (TLC's -coverage
    # instruments every operator of Val.tla, which costs more than the runs themselves)
    for r in (res, res_r):
        acts = {"SetAppend": 0, "SetRemoveA": 0, "MapPutA": 0, "MapRemoveA": 0}
        for e in r.records("EDGE"):
            acts[{("set", "append"): "SetAppend", ("set", "remove"): "SetRemoveA", ("map", "put"): "MapPutA",
                  ("map", "remove"): "MapRemoveA"}[(e["pre"]["k"], e["op"])]] += 1
        r.coverage = acts
    acts = {a: 0 for a in ("WSetAt", "WAppend", "WInsertAt", "WDeleteAt", "WRemove", "WPut", "WSetChar", "InnerEdit")}
    for e in res_e.records("EDGE"):
        nm = {"setat": "WSetAt", "append": "WAppend", "insertat": "WInsertAt", "deleteat": "WDeleteAt",
              "remove": "WRemove", "put": "WPut", "setchar": "WSetChar"}[e["op"]["name"]]
        acts["InnerEdit" if e["path"] else nm] += 1
    res_e.coverage = acts
    u = M.load_universe(run, None, "ValLaws: equality laws over the universe", res_u)
    n = u["n"]
    A, L = build_universe(cx, u)
    nres = settle_resolution(cx, u, A, L)
    neq = 0
    for i in range(1, n + 1):
        for j in range(1, n + 1):
            check_pair_api(cx, u, A, L, i, j)
            neq += u["eq"][i][j]
    for i in range(1, n + 1):
        check_row_interp(cx, u, i, "a%d", "UL", "constructor-built against literal-built")
        if not quick or i % 4 == 0:
            check_row_interp(cx, u, i, "l%d", "UA", "literal-built against constructor-built")
    nun = 0
    for i in range(1, n + 1):
        for j in range(1, n + 1):
            if u["eq"][i][j]:
                check_equal_pair_prog(cx, u, i, j)
            elif rng.random() < (0.02 if quick else 0.1):
                check_unequal_pair_prog(cx, u, i, j)
                nun += 1
    run.sample({"PAIR": {"a": M.literal(u["v"][5]), "b": M.literal(u["v"][6]), "Equal": u["eq"][5][6]}})

    run.add_tlc(res, "ValCont: set / map object machine")
    pools = res.records("POOL")
    if not pools:
        raise MachineryError("ValCont exported no pool")
    pool = pools[0]
    reads = {}
    for r in res.records("READ"):
        reads.setdefault(ckey(r["obj"]), r)
    edges = {}
    for e in res.records("EDGE"):
        edges.setdefault((ckey(e["pre"]), e["op"], e["e"], e["x"]), e)
    if not reads or not edges:
        raise MachineryError("ValCont exported no cases")
    check_reads(cx, pool, reads, lambda k: True if not quick else k % 3 == 0)
    check_edges(cx, pool, reads, list(edges.values()), lambda k: k % (7 if quick else 2) == 0)
    check_orders(cx, pool, reads, rng)
    # the same machine over neighbouring doubles and dates inside one second
    run.add_tlc(res_r, "ValCont: set / map object machine over close decimals and dates")
    pool_r = res_r.records("POOL")[0]
    reads_r, edges_r = {}, {}
    for r in res_r.records("READ"):
        reads_r.setdefault(ckey(r["obj"]), r)
    for e in res_r.records("EDGE"):
        edges_r.setdefault((ckey(e["pre"]), e["op"], e["e"], e["x"]), e)
    check_reads(cx, pool_r, reads_r, lambda k: True)
    check_edges(cx, pool_r, reads_r, list(edges_r.values()), lambda k: True)
    check_orders(cx, pool_r, reads_r, rng)
    # objects edited in place after their hash was taken
    # (an exported transition must have the full shape; a run whose output holds a damaged record - seen once, in
    #  a run beside three other JVMs - is repeated alone with one worker, which prints in a fixed order)
    def _whole(e):
        return isinstance(e, dict) and all(k in e for k in ("pre", "path", "op", "post")) \
            and isinstance(e["op"], dict) and all(k in e["op"] for k in ("name", "i", "e", "x"))
    damaged = [e for e in res_e.records("EDGE") if not _whole(e)]
    if damaged:
        run.drift("damaged-export-record", str(damaged[0])[:300])
        res_e = M.run_tlc("ValEdit", "ValEdit_quick" if quick else "ValEdit_thorough", coverage=False, timeout=3000,
                          workers=1, heap="3g")
        if any(not _whole(e) for e in res_e.records("EDGE")):
            raise MachineryError("ValEdit exports records of an unexpected shape: " + str(damaged[0])[:300])
    run.add_tlc(res_e, "ValEdit: values with a history")
    nedit, nedrift, edit_ops = check_edits(cx, res_e, lambda k: k % 4 == 3)
    if nedit == 0:
        raise MachineryError("ValEdit exported no cases")
    ek = next(iter(edges.values()))
    run.sample({"EDGE": {"pre": M.literal(cont_abs(pool, ek["pre"])), "op": ek["op"],
                         "arg": M.literal(pool["e"][ek["e"] - 1]),
                         "post": M.literal(cont_abs(pool, ek["post"]))}})

    nev = binding_b(cx, rng, 1500 if quick else 30000, 150 if quick else 3000, 150 if quick else 3000)
    ncont = len(reads) + len(edges) + len(reads_r) + len(edges_r)
    run.cov["traces_validated_against_impl"] = n * n + ncont + nedit + nev
    run.cov["evaluations"] = cx.n_eval + cx.im.n
    run.cov["distinct_nontrivial"] = n * n + ncont + nedit + nev
    run.cov["rule"] = ("binding A: one case per ordered pair of the ValLaws universe (|U|^2, each through the "
                       "API and through programs, constructor-built against literal-built), one per reachable "
                       "container of ValCont (reads) and one per distinct transition (two pools), one per "
                       "distinct transition of ValEdit (an object edited in place after its hash was taken, "
                       "compared with fresh values); binding B: one per recorded event accepted by Val_Trace")
    run.cov["exhaustive"] = True
    run.cov["universe"] = n
    run.cov["equal_pairs"] = neq
    run.cov["pairs_differing_only_below_the_second"] = nres
    run.cov["unequal_pairs_through_container_programs"] = nun
    run.cov["bounds"] = {"universe": n, "containers": len(reads) + len(reads_r),
                         "transitions": len(edges) + len(edges_r), "edits": nedit, "trace_events": nev}
    run.cov["edits_by_kind_depth_writer"] = {f"{k[0]}/{k[1]}/{k[2]}": v for k, v in sorted(edit_ops.items())}
    run.cov["edits_not_compared_because_the_writer_differs_from_the_model"] = nedrift
    run.cov["values_made_by_natives"] = getattr(cx, "cov_native", 0)
    run.cov["observers_of_a_pair"] = len(OBS_NAMES)
    run.assumptions += [
        "hash is a host notion: `equal implies same hash` is checked on the code (and by Val_Trace clause "
        "`hash` on recorded pairs), not stated in the spec",
        "which of two equal representatives a container keeps is not part of the property: compared as drift",
        "removal of an absent element raises a host exception (C13); only removals of present elements are compared",
        "identity-only values (stdout, stdin, console) stand for the kind `ref`; functions and objects are not generated",
        "decimals: exact dyadic rationals (denominator <= 1024), integral values >= 10^8, and every other "
        "double as sign * M / 2^e (e <= 1100; neighbouring doubles one and two ulps apart); inf/nan are out "
        "of scope",
        "two dates inside one second: the statement does not say whether they are equal; what `==` answers is "
        "the reference for hash, membership, lookup and container == (consistency), a difference from the "
        "model's microsecond resolution is drift",
        "what an in-place writer does to the content of an object (l[i] = e, append, insert_at, ...) is not "
        "C06's subject: an edit whose result differs from the model is drift and the case is skipped",
    ]


def replay(run, case):
    if case.get("kind") == "made":
        cx = Ctx(run)
        native_pairs(cx, [], [])
        return
    cx = Ctx(run)
    k = case["kind"]
    if k in ("pair", "pair-prog", "eqpair", "nepair", "order"):
        a, b = case["a"], case["b"]
        u = {"n": 2, "v": [None, a, b], "os": [None, True, True]}
        events = []
        for x in (a, b):
            for y in (a, b):
                e = rel_event(cx, x, y)
                if e is None:
                    return
                events.append(e)
        bad = M.validate(run, events, "replay")
        eq = [[None, None, None], [None, events[0]["eq"], events[1]["eq"]], [None, events[2]["eq"], events[3]["eq"]]]
        # the model's verdict: an event is accepted iff eq was right
        wrong = {kk for kk, why in bad if why in ("eq", "ne")}
        for idx in wrong:
            i, j = divmod(idx, 2)
            eq[i + 1][j + 1] = not eq[i + 1][j + 1]
        for kk, why in bad:
            run.violation(f"replay:{lit_key(a)} ~ {lit_key(b)} @{why}", f"{why}: rejected by Val_Trace", case)
        u["eq"] = eq
        A, L = build_universe(cx, u)
        for i in (1, 2):
            for j in (1, 2):
                check_pair_api(cx, u, A, L, i, j)
            check_row_interp(cx, u, i, "a%d", "UL", "replay")
        for i in (1, 2):
            for j in (1, 2):
                if eq[i][j]:
                    check_equal_pair_prog(cx, u, i, j)
    elif k == "trace":
        events = reobserve(cx, case["events"])
        bad = M.validate(run, events, "replay")
        for kk, why in bad:
            if why in ("edit-enabled", "edit-result"):
                continue
            run.violation(f"replay-trace:{case['meta'][kk]} @{why}", f"{why}: rejected by Val_Trace", case)
    elif k == "prog":
        o = cx.im.run(case["src"])
        if o[0] == "host":
            run.violation("replay:" + case["src"], f"host-exception: {o[1]}", case)
    elif k in ("read", "edge"):
        replay_container(cx, case)
    elif k == "edit":
        replay_edit(cx, case)


def reobserve(cx, events):
    """the recorded events observed again on the current implementation, as far as they can be
    rebuilt from the record: relations of two values, and the history of an edited object (container
    histories are validated as recorded)"""
    im = cx.im
    out = []
    w = None
    hist = ""
    for e in events:
        if e["op"] == "rel" and "px" in e:
            out.append(rel_event(cx, e["a"], e["b"]) or e)
        elif e["op"] == "hnew":
            w = M.build(e["v"], im.refs)
            hist = "def hw = " + lit_key(e["v"])
            out.append(e)
        elif e["op"] == "hedit" and w is not None:
            touch(cx, w)
            stmt = edit_stmt(e["path"], {"name": e["name"], "i": e["i"], "e": e["e"], "x": e["x"]})
            o = im.run(stmt)
            hist += "; " + stmt
            try:
                out.append(dict(e, okk=o[0] == "val", cur=M.to_abs(w, im.refs, True)))
            except M.Unencodable:
                out.append(e)
        elif e["op"] == "hrel" and w is not None:
            out.append(hrel_event(cx, w, e["b"], hist) or e)
        else:
            out.append(e)
    return out


def replay_edit(cx, case):
    """an edit case as a history validated by Val_Trace: build, take the hash, edit, compare"""
    im = cx.im
    pre, path, op = case["pre"], case["path"], case["op"]
    w = M.build(pre, im.refs)
    touch(cx, w)
    stmt = edit_stmt(path, op, case.get("alt", False))
    o = im.run(stmt)
    if o[0] == "host":
        cx.vio(f"replay-edit:{stmt} !{o[1]}", f"host-exception: {stmt} raised {o[1]}", case)
        return
    cur = M.to_abs(w, im.refs, True)
    events = [{"op": "hnew", "v": pre},
              {"op": "hedit", "path": path, "name": op["name"], "i": op["i"], "e": op["e"], "x": op["x"],
               "okk": o[0] == "val", "cur": cur}]
    hist = f"def hw = {lit_key(pre)}; {stmt}"
    for b in [cur] + ([case["probe"]] if "probe" in case else []):
        e = hrel_event(cx, w, b, hist)
        if e:
            events.append(e)
    for kk, why in M.validate(cx.run, events, "replay"):
        if why not in ("edit-enabled", "edit-result"):
            cx.vio(f"replay-edit:{hist} @{why} #{kk}", f"{why}: rejected by Val_Trace: {_brief(events[kk])}", case)


def replay_container(cx, case):
    """a container case as a history validated by Val_Trace: build it entry by
    entry through the API, apply the step, probe everything"""
    im = cx.im
    ca = case["cont"] if case["kind"] == "read" else case["pre"]
    kind = ca["k"]
    cv = V.ValueSet() if kind == "set" else V.ValueMap()
    events = [{"op": "cnew", "kind": kind}]
    for idx, it in enumerate(ca["items"]):
        if kind == "set":
            cv.addItem(M.build(it, im.refs))
            events.append({"op": "cadd", "v": it, "n": len(cv.value)})
        else:
            cv.addItem(M.build(it, im.refs), M.build(ca["vals"][idx], im.refs))
            events.append({"op": "cput", "k": it, "x": ca["vals"][idx], "n": len(cv.value)})
    if case["kind"] == "edge":
        av = M.build(case["arg"], im.refs)
        if case["op"] == "append":
            cv.addItem(av)
            events.append({"op": "cadd", "v": case["arg"], "n": len(cv.value)})
        elif case["op"] == "remove":
            o = M.host(lambda: cv.removeItem(av))
            events.append({"op": "crem", "v": case["arg"], "okk": o[0] == "val", "n": len(cv.value)})
        else:
            cv.addItem(av, M.build(case["x"], im.refs))
            events.append({"op": "cput", "k": case["arg"], "x": case["x"], "n": len(cv.value)})
    for p in case["pool"]:
        pv = M.build(p, im.refs)
        o = M.host(lambda: cv.hasItem(pv))
        if o[0] != "val":
            cx.vio("replay-container !" + o[1], f"host-exception: {o[1]}", case)
            return
        events.append({"op": "chas", "v": p, "r": bool(o[1])})
        if kind == "map":
            got = cv.getItem(pv) if o[1] else None
            events.append({"op": "cget", "k": p, "okk": bool(o[1]),
                           "r": M.to_abs(got, im.refs) if got is not None else M.a_null()})
    for kk, why in M.validate(cx.run, events, "replay"):
        cx.vio(f"replay-container @{why} #{kk}", f"{why}: rejected by Val_Trace: {_brief(events[kk])}", case)
