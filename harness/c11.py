"""C11 - require binds exactly the requested names and evaluates each module once.

Spec: spec/SessionOps.tla (Denotes / Exposed / PubSyms: the reading of the
statement; the generated module files), spec/Session.tla in mode "c11" (the
loader as a sub-step machine; TLC first generates a module graph edge by edge,
then runs importer programs), cfgs Modules_quick / Modules_pairs / Modules_sim /
Modules_spell (thorough: Modules_thorough, Modules_sim5).  TLC checks BindsExactly, LoadOnce,
LoadOnlyInLoadStep, ModuleScopeIsBase, SingleInstance, CycleIsError and, on
the two-module universe, termination of every command.

Round 2: importer forms `import []` and `import [s as a, s as b]` (IForms);
bundled modules under every spelling of their name (Modules_spell: sys, which
the start-up code has loaded, and stat; SessionOps.Canon) - module objects of
one module must show the very same members (category instance) and a bundled
file must have one evaluated instance (loadonce); the command line runner
(ckl.run -m <dir>) executing importer programs over generated module graphs
with nested requires must print what the spec predicts.

Round 3: (a) every generated module defines one public name per kind of value
(statement `vals`: a plain object, list, map, string, NULL, TRUE, 0) and a name
that every module defines (`common`); (b) importer forms `as shared` (asx) and
`import [common, m_get as shared, length as .., MAXINT, secret as .., nosuch
as ..]` (impx): names that collide between modules and with the importer's own
`def common = 0`, listed symbols the module does not have (names of the base
environment behind every module scope, of the importer, of nobody); the
deviations ImportScopeChain / RebindKeep (cfgs Modules_devchain / _devkeep)
must give TLC a counterexample of BindsExactly; (c) a user module named by a
string ('ma', 'ma.ckl', 'lib/ma', './ma.ckl': Modules_spell, SessionOps.UserSpell);
(d) Modules_two: two interpreters of ONE process whose module paths name
different directories holding modules of the same names (AltFS11 / FSOfAlt) -
state of the loader that outlives an interpreter or is shared by the process
shows there; (e) the top level of a module may not run more often than the
requires of the history account for (a cycle that is walked until the host's
stack ends).  The additions to the shared observer are installed into
harness/c10.py by install() below.

Round 4: the module object as a snapshot made by every qualified require.  Every
generated module has a public definition that is REASSIGNED (`def m_cnt = 0`,
`m_cnt = m_cnt + 1` in m_bump; SessionOps.NCnt).  The spec carries in every
module object (and in every imported m_cnt) the value the definition had when
the require bound it (Session.NowVars / SessionOps.ModOf, BoundValue); the
observer reads the member directly, `n->m_cnt`, through the interpreter after
every command.  Importer command mset (`n->m_cnt = 5`, a member assignment on
the importer's own module object; Session.C11Mem): it may show in that object
only, not in an object another require binds.  Deviation ModAtLoad (cfg
Modules_devsnap: the object is made once and handed out again) must give TLC a
counterexample of BindsExactly.

Round 5: importers that run in a caller-supplied environment.  The command
envreq (Session.C11Env) runs `require m`, `require m; m->m_bump()` or `require m;
m->m_top + m->m_sees()` through Interpreter.interpret(script, name, environment)
in an environment of the CALLER that holds the caller's own `secret` (a fresh one,
the leaf of a chain the caller keeps; thorough: also the one kept environment).
The spec treats such an importer like any other: the module it loads is THE
module of the interpreter - its top level does not run again when the session (or
another caller environment) requires it (loadonce), the counter it bumps is the
one every importer sees (value), and the module's probes see neither the session
nor the caller's environment (the script's value; probe).  cfg Modules_env
(thorough: Modules_envwide, <= 3 commands, also the environment the caller keeps).

Binding A: every generated module graph is written to disk as .ckl files (a
load counter appended at the top of every file, private mutable state with
public bump/get functions, probes that try to read an importer variable at load
time and at call time, reader functions that reach a required module through
the binding the module's own require made).  The importer programs TLC explored
are run on fresh interpreters; after every command the harness compares the
importer's scope with the predicted one: the set of names (ls() minus the
base names, cross-checked with the scope map), what each name holds, the member
set of every module object, the counters seen through every path, the load
counters, and that a cycle gives a runtime error.
"""
import json
import random
import re
import time

from .common import MachineryError
from .absval import to_py, tagged
from . import c10 as S

C11_VERDICT = {"names", "members", "value", "probe", "loadonce", "outcome-cls", "instance"}
INTERPS = ["i1"]
INTERPS2 = ["i1", "i2"]


# ------------------------------------------------- round 3: what C11 adds to
# the shared renderer / observer of harness/c10.py.  C11 runs in processes of
# its own (./check C11, and the walker `python -m harness.c11 <job>`), so the
# additions are installed into the shared module there and nowhere else.
_ORIG = {}


def vals_source(m, st):
    """The statement `vals` of a generated module (SessionOps.SVals): one
    public definition per kind of value, and the name every module defines."""
    a = 10 if st["id"] == "alt" else 0
    return [f"def common = {int(st['n']) + a};",
            f"def {m}_objv = <* w = {3 + a} *>;",
            f"def {m}_lstv = [{4 + a}];",
            f"def {m}_mapv = <<< 'w' => {5 + a} >>>;",
            f"def {m}_strv = '{'s' * (6 + a)}';",
            f"def {m}_null = NULL;",
            f"def {m}_bool = {'FALSE' if a else 'TRUE'};",
            f"def {m}_zero = 0;",
            f"def {m}_cnt = 0;"]          # round 4: reassigned by m_bump (SessionOps.NCnt)


def module_source(m, rec):
    """c10's module text, with the statement `vals` written out where it stands
    (first statement after the prelude)."""
    body = rec.get("body") or []
    vals = [st for st in body if st["op"] == "vals"]
    if rec["syn"] or not vals:
        return _ORIG["module_source"](m, rec)
    if body[0]["op"] != "vals" or len(vals) != 1:
        raise MachineryError("the statement vals is expected once, as the first statement of a module")
    pre = _ORIG["module_source"](m, dict(rec, body=[]))
    full = _ORIG["module_source"](m, dict(rec, body=body[1:]))
    if not full.startswith(pre):
        raise MachineryError("module text does not start with the prelude")
    rest = full[len(pre):]
    # round 4: m_bump reassigns the public definition m_cnt next to the private state
    step = f"_{m}_st[0] = _{m}_st[0] + 1;"
    if pre.count(step) != 1:
        raise MachineryError("the prelude's bump function is not what it was")
    pre = pre.replace(step, f"{step} {m}_cnt = {m}_cnt + 1;")
    return pre + "\n".join(vals_source(m, vals[0])) + "\n" + rest


def spelled(d):
    """(module spec as written, the name it stands for): an identifier, or a
    string (SessionOps.SpellOf) whose last path component names the file."""
    if d.startswith("'"):
        name = d.strip("'").split("/")[-1]
        return d, name[:-4] if name.endswith(".ckl") else name
    return d, d


def require_src(d, form):
    spec, n = spelled(d)
    if form == "asx":
        return f"require {spec} as shared"
    if form == "impx":
        return (f"require {spec} import [common, {n}_get as shared, length as i_{n}_len, MAXINT, "
                f"secret as i_{n}_sec, nosuch as i_{n}_no]")
    if spec == n:
        return _ORIG["require_src"](d, form)
    tail = _ORIG["require_src"](n, form)
    head = f"require {n}"
    if not tail.startswith(head):
        raise MachineryError("unexpected require text " + tail)
    return f"require {spec}" + tail[len(head):]


def bind_name(form, d):
    return "shared" if form == "asx" else _ORIG["bind_name"](form, d)


def get_expr(form, d):
    return f"shared->{d}_get()" if form == "asx" else _ORIG["get_expr"](form, d)


def bump_expr(form, d):
    return f"shared->{d}_bump()" if form == "asx" else _ORIG["bump_expr"](form, d)


def cmd_source(c, binding=None):
    """Round 4: the importer command mset, `n->d_cnt = 5` (binding = the spec's
    abstract value of n: a module object of d); everything else as in c10."""
    if c["op"] != "mset":
        return _ORIG["cmd_source"](c, binding)
    if not binding or not binding.startswith("mod:"):
        raise MachineryError("mset on a name that holds no module object")
    return f"{c['n']}->{binding.split(':')[1]}_cnt = {c['v']}"


def compare_outcome(label, got, raw, want, c, prev):
    """Round 5: the value of a script that ran in a caller-supplied environment
    (command envreq) IS the observation of C11's clauses there - the counter
    after its bump (all importers share the single instance) and the sum of
    the module's probes (module code cannot see the importer's variables): a
    wrong int is a verdict of C11 (value / probe), where c10 says `outcome`."""
    finds = _ORIG["compare_outcome"](label, got, raw, want, c, prev)
    if c.get("op") != "envreq":
        return finds
    cat = "probe" if c["n"] == "probe" else "value"
    return [((cat, what) if k == "outcome" and got[:2] == want[:2] == ("val", "int") else (k, what))
            for k, what in finds]


CNT_MEMBER = re.compile(r"^\w+->\w+_cnt$")
VAL_KINDS = {"objv", "lstv", "mapv", "strv", "null", "bool"}


def render_value(sess, i, expr, v, want_kind):
    """The kinds of value the statement `vals` defines (spec: RenderSym, arm
    "vals"); everything else as in c10."""
    if want_kind == "int" and CNT_MEMBER.match(expr):
        # round 4: the reassigned definition, read as the importer reads it: n->d_cnt
        o, _ = sess.run(i, expr)
        if o[0] == "val" and o[1] == "int":
            return ("int", o[3])
        return ("read-failed", 0, o)
    if want_kind not in VAL_KINDS:
        return _ORIG["render_value"](sess, i, expr, v, want_kind)
    p = tagged(to_py(v))
    if want_kind == "null" and p is None:
        return ("null", 0)
    if want_kind == "bool" and p in (("bool", "T"), ("bool", "F")):
        return ("bool", 1 if p[1] == "T" else 0)
    if isinstance(p, tuple) and len(p) == 2:
        if (want_kind == "objv" and p[0] == "obj" and not getattr(v, "isModule", False)
                and len(p[1]) == 1 and p[1][0][0] == "w" and type(p[1][0][1]) is int):
            return ("objv", p[1][0][1])
        if want_kind == "lstv" and p[0] == "list" and len(p[1]) == 1 and type(p[1][0]) is int:
            return ("lstv", p[1][0])
        if want_kind == "mapv" and p[0] == "map" and len(p[1]) == 1:
            (k, x), = p[1]
            if k == ("str", "w") and type(x) is int:
                return ("mapv", x)
        if want_kind == "strv" and p[0] == "str" and isinstance(p[1], str) and set(p[1]) <= {"s"}:
            return ("strv", len(p[1]))
    return ("other", 0, repr(p)[:60])


def observe(sess, i, want, names_only=False, soft=()):
    """c10's comparison of a scope, plus: a name of the base environment that
    the session scope itself holds (an import list that was resolved through
    the module's parent chain binds e.g. MAXINT there).  ls() cannot show it
    (the name is visible anyway), the scope map can; without one the check is
    left to the aliased names of the same list, which ls() does show."""
    diffs = _ORIG["observe"](sess, i, want, names_only=names_only, soft=soft)
    it = sess.it.get(i)
    smap = S.scope_map(it.environment) if it is not None else None
    if it is not None and not names_only and want != []:
        diffs = snapshot_members(sess, i, want, diffs, it, smap)
    if smap is not None:
        exp = set(want) if want != [] else set()
        for n in sorted((set(smap) & set(sess.base_names)) - exp):
            diffs.append(("names", f"unexpected name {n} in the scope of {i} (a name of the base environment, "
                                   f"now bound in the session scope as well)"))
    return diffs


def snapshot_members(sess, i, want, diffs, it, smap):
    """Round 4.  (a) Two module objects of one module that were bound at
    different moments legitimately differ in the member d_cnt (each holds the
    value the definition had when its require bound it, or what the importer
    assigned to it): c10's `instance` comparison - the members of all module
    objects of one module are the very same objects - is redone here without
    that member.  (b) A module object whose d_cnt shows the module's PRESENT
    value where the spec predicts the value at the time of the binding is an
    object that follows the module; it still exposes the module's public
    definitions, so it only drifts."""
    out = [d for d in diffs if d[0] != "instance"]
    relabel = {}
    shown = {}
    for n in sorted(want):
        w = want[n]
        if w["v"]["k"] != "mod" or w.get("open"):
            if w["v"]["k"] == "mod":
                shown.setdefault(w.get("of", ""), []).append((n, None))
            continue
        of = w.get("of", "")
        shown.setdefault(of, []).append((n, None))
        mem = w["mem"] if w["mem"] != [] else {}
        k = of + "_cnt"
        if k in mem and "live" in w and mem[k]["r"] != w["live"]:
            relabel[f"{i}: {n}->{k} is {('int', w['live'])} but should be {(mem[k]['k'], mem[k]['r'])}"] = n
    out = [(("drift:liveobject", what) if cat == "value" and what in relabel else (cat, what)) for cat, what in out]
    for of, names in sorted(shown.items()):
        objs = []
        for n, _ in names:
            try:
                v = S.peek(it, smap, n)
            except Exception:  # noqa: BLE001
                continue        # reported by c10's observe as a value that cannot be read
            if isinstance(v, S.V.ValueObject) and getattr(v, "isModule", False) and isinstance(v.value, dict):
                objs.append((n, v))
        if len(objs) < 2:
            continue
        n0, v0 = objs[0]
        for n1, v1 in objs[1:]:
            if set(v0.value.keys()) != set(v1.value.keys()):
                continue            # reported as members
            other = sorted(k for k in v0.value if k != of + "_cnt" and v0.value[k] is not v1.value[k])
            if other:
                out.append(("instance", f"{i}: module objects {n0} and {n1} of module {of} do not share "
                                        f"one instance: members {other[:3]} are different objects"))
    return out


def diagnostics(sess, i, key, loadcap):
    """c10's diagnostics, plus: the top level of a module ran more often than
    the requires of the history account for (the spec runs a module that failed
    again at the next require, so its counter - while below loadcap - is exact).
    `At most once`, and `a cycle is reported as an error instead of looping`:
    a loader that goes round a cycle until the host's stack ends runs each top
    level hundreds of times and caches none of the modules."""
    d = _ORIG["diagnostics"](sess, i, key, loadcap)
    if i not in sess.it:
        return d
    log = [x.value for x in sess.loadlog[i].value]
    wantl = key["l"][i] if key["l"][i] != [] else {}
    have = {what for cat, what in d if cat == "loadonce"}
    for m in sorted(set(log) - S.MODEL_BUNDLED):
        n, w = log.count(m), wantl.get(m, 0)
        what = f"{i}: the top level of module {m} ran {n} times"
        if n > 1 and n > w and w < loadcap and what not in have:
            d.append(("loadonce", what + f", the requires so far account for {w}"))
    return d


# A walk that has already recorded findings of a verdict category is not
# continued for ever: on a tree whose loader walks a cycle of requires until
# the host's stack ends every such command takes a second and the walk tens of
# minutes.  After WALK_BUDGET seconds (CUT_BUDGET once a walk was cut) a walk
# WITH such findings is ended and what it found is reported; a walk without
# any is never cut, so a tree on which the property holds is walked in full
# however slow the machine is.
WALK_BUDGET = 90
CUT_BUDGET = 20
CUT = {"walks": 0}


def verdict_findings(path, pos, count):
    """Count the verdict findings appended to the walker's output since pos."""
    try:
        with open(path, "rb") as f:
            f.seek(pos)
            chunk = f.read()
    except OSError:
        return pos, count
    last = chunk.rfind(b"\n")
    if last < 0:
        return pos, count
    for line in chunk[:last].split(b"\n"):
        try:
            r = json.loads(line)
        except ValueError:
            continue
        if r.get("t") == "f" and r.get("cat") in C11_VERDICT:
            count += 1
    return pos + last + 1, count


def run_walk_job(job, d):
    """The walk runs in a fresh process of this module (see install)."""
    import os
    import signal
    import subprocess
    import sys
    jpath = os.path.join(d, "job.json")
    with open(jpath, "w") as f:
        json.dump(job, f)
    logpath = os.path.join(d, "walker.log")
    t0 = time.time()
    pos = count = 0
    cut = False
    with open(logpath, "w") as log:
        p = subprocess.Popen([sys.executable, "-m", "harness.c11", jpath], env=dict(os.environ),
                             cwd=os.path.dirname(os.path.dirname(os.path.abspath(__file__))),
                             stdout=log, stderr=subprocess.STDOUT, start_new_session=True)
        try:
            while True:
                try:
                    p.wait(timeout=2)
                    break
                except subprocess.TimeoutExpired:
                    pass
                el = time.time() - t0
                if el > 7000:
                    raise MachineryError("walker did not end")
                if el > (CUT_BUDGET if CUT["walks"] else WALK_BUDGET):
                    pos, count = verdict_findings(job["out"], pos, count)
                    if count:
                        cut = True
                        break
        finally:
            if p.poll() is None:
                try:
                    os.killpg(p.pid, signal.SIGKILL)
                except OSError:
                    pass
                p.wait()
    if cut:
        CUT["walks"] += 1
        # keep the complete lines only (a process may have been stopped while writing)
        with open(job["out"], "rb") as f:
            lines = f.read().split(b"\n")
        good = []
        for line in lines:
            try:
                r = json.loads(line)
            except ValueError:
                continue
            if r.get("t") != "crash":
                good.append(line)
        with open(job["out"], "wb") as f:
            f.write(b"\n".join(good) + b"\n")
        return
    if p.returncode != 0:
        with open(logpath) as f:
            raise MachineryError("walker failed: " + f.read()[-2000:])


def install():
    for name, fn in (("module_source", module_source), ("require_src", require_src), ("cmd_source", cmd_source),
                     ("render_value", render_value), ("observe", observe), ("diagnostics", diagnostics),
                     ("run_walk_job", run_walk_job), ("compare_outcome", compare_outcome), ("bind_name", bind_name), ("get_expr", get_expr),
                     ("bump_expr", bump_expr)):
        if name not in _ORIG:
            if not callable(getattr(S, name, None)):
                raise MachineryError("harness/c10.py has no function " + name)
            _ORIG[name] = getattr(S, name)
            setattr(S, name, fn)


install()


def with_alt(fsdefs, res):
    """Round 3: the directories of single interpreters (record FSALT) go with
    every generated file system of the run."""
    for extra in res.records("FSALT")[:1]:
        alt = extra["alt"] if extra["alt"] != [] else {}
        for f in fsdefs:
            f["alt"] = alt
    return fsdefs


def roots_of(g):
    """One root per generated file system: the idle state with no command yet."""
    by_g = {}
    for i, k in enumerate(g.key):
        if k["n"] == 0:
            by_g[json.dumps(k["g"], sort_keys=True)] = i
    fsdefs, roots, seen = [], [], set()
    for f in g.fsdefs:
        t = json.dumps(f["g"], sort_keys=True)
        if t in seen:
            continue
        seen.add(t)
        if t not in by_g:
            raise MachineryError("no initial state for a generated file system")
        fsdefs.append(f)
        roots.append((by_g[t], len(fsdefs) - 1))
    return fsdefs, roots


def ordered_records(out):
    """(tag, value) of every exported record in the order TLC printed them."""
    dec = json.JSONDecoder()
    for line in out.splitlines():
        i = line.find('"@@')
        if i < 0:
            continue
        s, _ = dec.raw_decode(line, i)
        j = s.index("@@", 2)
        yield s[2:j], json.loads(s[j + 2:])


def traces_of(g, res):
    """Simulation output -> per file system a trie of the importer programs."""
    index = {}
    for sid, outs in g.out.items():
        for k, (c, o, q) in enumerate(outs):
            index[(sid, json.dumps(c, sort_keys=True))] = k
    fsdefs, tries, pos = [], {}, {}
    cur = None
    ntraces = 0
    for tag, v in ordered_records(res.out):
        if tag == "FSDEF":
            t = json.dumps(v["g"], sort_keys=True)
            if t not in pos:
                pos[t] = len(fsdefs)
                fsdefs.append(v)
                tries[pos[t]] = {}
            cur = [pos[t], None, tries[pos[t]]]
            ntraces += 1
        elif tag == "EDGE" and cur is not None:
            p = g.kid(v["p"])
            if cur[1] is None:
                cur[1] = p
            k = index[(p, json.dumps(v["c"], sort_keys=True))]
            cur[2] = cur[2].setdefault(str(k), {})
    by_g = {}
    for i, k in enumerate(g.key):
        if k["n"] == 0:
            by_g[json.dumps(k["g"], sort_keys=True)] = i
    roots = []
    for t, fi in pos.items():
        if tries[fi]:
            roots.append((by_g[t], fi, tries[fi]))
    return fsdefs, roots, ntraces


def probes(run):
    """Behaviours next to the property that the statement does not fix: recorded
    (coverage.probes) and counted as drift where the spec's model of the code
    would be wrong, never a violation."""
    import shutil
    import tempfile
    d = tempfile.mkdtemp(prefix="c11p-")
    out = {}
    try:
        S.materialise({"fs": {"good": {"syn": False, "body": [{"op": "def", "n": "good_a", "id": "", "form": ""}]},
                              "half": {"syn": False, "body": [{"op": "def", "n": "half_a", "id": "", "form": ""},
                                                              {"op": "fail", "n": "", "id": "", "form": ""}]}}}, d)
        scen = {
            "import of a symbol the module does not have": ["require good import [nosuch as q1, good_a as q2]", "q2", "q1"],
            "require through a string variable": ["def s = 'good'", "require s", "good->good_a", "s"],
            "require through a non-string variable": ["def n = 1", "require n"],
            "module that fails half-way": ["require half", "half", "require half"],
            "alias equal to another module id": ["require good as half", "half->good_a", "require half"],
        }
        for name, cmds in scen.items():
            sess = S.Sessions(INTERPS, d)
            res = []
            for c in cmds:
                o, raw = sess.run("i1", c)
                res.append([c, list(o)])
            res.append(["module cache", sorted(set(sess.it["i1"].base_environment.modules) - S.BUNDLED)])
            out[name] = res
    finally:
        shutil.rmtree(d, ignore_errors=True)
    exp = {
        "import of a symbol the module does not have": [("val", "null"), ("val", "int"), ("err", "undef")],
        "require through a string variable": [("val", "str"), ("val", "null"), ("val", "int"), ("val", "str")],
        "module that fails half-way": [("err", "boom"), ("err", "undef"), ("err", "boom")],
    }
    for name, want in exp.items():
        got = [(o[0], "str" if o[1] == "ValueString" else o[1]) for _, o in out[name][:len(want)]]
        if got != want:
            run.drift("probe:" + name, {"got": out[name]})
    o = out["require through a non-string variable"][1][1]
    if o[0] == "host":
        run.drift("probe:require through a non-string variable raises a host exception (C13's concern)",
                  {"got": out["require through a non-string variable"]})
    run.cov["probes"] = out


def runner_program(g, sid, trie):
    """First path of a trie of importer commands -> (successful commands, the
    failing command that ends it or None, state reached by the successful ones)."""
    cmds, failing, cur, node = [], None, sid, trie
    while node:
        k = sorted(node, key=int)[0]
        c, o, q = g.out[cur][int(k)]
        src = S.cmd_source(c, g.binding(cur, c))
        if o["cls"] != "val":
            failing = (src, o["kind"])
            break
        cmds.append(src)
        node, cur = node[k], q
    return cmds, failing, cur


def runner_expect(obs):
    """Lines the program prints after its commands, from the predicted scope."""
    calls, reads = [], []
    for nm in sorted(obs):
        w = obs[nm]
        if w["v"]["k"] == "call":
            calls.append((nm, w["v"]["r"]))
        elif w["v"]["k"] == "mod":
            mem = w["mem"] if w["mem"] != [] else {}
            calls += [(f"{nm}->{k}", mem[k]["r"]) for k in sorted(mem) if mem[k]["k"] == "call"]
            # round 4: the reassigned definition d_cnt, read directly from the module object
            # (third entry: the module's present value, what an object that follows the module shows)
            reads += [(f"{nm}->{k}", mem[k]["r"], w.get("live", mem[k]["r"])) for k in sorted(mem)
                      if mem[k]["k"] == "int" and k == w.get("of", "") + "_cnt"]
    return sorted(n for n in obs if n != "secret"), calls, reads


def runner(run, g, fsdefs, roots, rng, info, count):
    """Configuration: the command line runner with the module path given by
    -m.  Importer programs of the simulation whose module graph has nested
    requires are run through `python -m ckl.run -m <dir> main.ckl`; the program
    prints the names it gained and every counter reachable from its scope.
    Compared with the spec: the names, the counter values, and that a program
    the spec predicts to succeed reports no error (one predicted to fail
    reports one)."""
    import os
    import re
    import shutil
    import subprocess
    import sys
    import tempfile
    repo = os.environ.get("VERIF_REPO", "/repo")
    def enters_nested(sid, fi, trie):
        """The program's first command loads a module that requires another one."""
        if not trie:
            return False
        c, o, _ = g.out[sid][int(sorted(trie, key=int)[0])]
        return (c["op"] == "require" and o["cls"] == "val"
                and any(e["m"] == c["id"] and e["d"] != c["id"] for e in fsdefs[fi]["g"]))

    nested = sorted((sid, fi) for (sid, fi, t) in roots if enters_nested(sid, fi, t))
    tries = {(sid, fi): t for (sid, fi, t) in roots}
    picks = rng.sample(nested, min(count, len(nested)))
    d = tempfile.mkdtemp(prefix="c11run-")
    ran = 0
    try:
        for n, (sid, fi) in enumerate(picks):
            md = os.path.join(d, "m%d" % n)
            os.mkdir(md)
            for m, rec in fsdefs[fi]["fs"].items():
                with open(os.path.join(md, m + ".ckl"), "w") as f:
                    f.write("\n".join(l for l in S.module_source(m, rec).split("\n")
                                      if not l.startswith("append(loadlog")))
            cmds, failing, cur = runner_program(g, sid, tries[(sid, fi)])
            obs = g.obs[cur]["i1"] if g.obs[cur]["i1"] != [] else {}
            names, calls, reads = runner_expect(obs)
            main = ["def secret = 1;", "def base_names = set(ls());"] + [c + ";" for c in cmds]
            main.append("println('NAMES ' + string(set(ls()) - base_names));")
            main += [f"println('CALL {e} ' + string({e}()));" for e, _ in calls]
            main += [f"println('READ {e} ' + string({e}));" for e, _, _ in reads]
            if failing:
                main.append(failing[0] + ";")
            main.append("println('END');")
            with open(os.path.join(md, "main.ckl"), "w") as f:
                f.write("\n".join(main) + "\n")
            try:
                p = subprocess.run([sys.executable, "-m", "ckl.run", "-m", md, os.path.join(md, "main.ckl")],
                                   env=dict(os.environ, PYTHONPATH=os.path.join(repo, "src")), cwd=md,
                                   stdout=subprocess.PIPE, stderr=subprocess.STDOUT, text=True, timeout=300)
                lines = p.stdout.splitlines()
            except subprocess.TimeoutExpired:
                lines = ["TIMEOUT"]
            ran += 1
            gotn = None
            gotc = []
            gotr = []
            other = []
            for l in lines:
                if l.startswith("NAMES "):
                    gotn = sorted(set(re.findall(r"'(\w+)'", l)) - {"base_names"})
                elif l.startswith("CALL "):
                    gotc.append(tuple(l.split(" ")[1:3]))
                elif l.startswith("READ "):
                    gotr.append(tuple(l.split(" ")[1:3]))
                elif l != "END":
                    other.append(l)
            hist = " ; ".join(cmds + ([failing[0]] if failing else []))
            fsk = S.gen_label(fsdefs[fi]["g"])
            case = {"kind": "runner", "fs": fsdefs[fi], "main": main, "names": names,
                    "calls": [[e, r] for e, r in calls], "reads": [[e, r] for e, r, _ in reads],
                    "output": lines[-12:]}
            finds = []
            if gotn is None:
                finds.append(("outcome-cls", f"reported {other[:1]} before the successful commands were through"))
            else:
                if gotn != names:
                    finds.append(("names", f"gained the names {gotn}, the spec predicts {names}"))
                if gotc != [(e, str(r)) for e, r in calls]:
                    finds.append(("value", f"printed the counters {gotc}, the spec predicts {calls}"))
                if gotr != [(e, str(r)) for e, r, _ in reads]:
                    # each read shows the value at the binding, or (drift) the module's present value
                    if ([e for e, _ in gotr] == [e for e, _, _ in reads]
                            and all(x in (str(r), str(lv)) for (_, x), (_, r, lv) in zip(gotr, reads))):
                        run.drift("runner:liveobject", {"history": hist, "got": gotr,
                                                        "spec": [[e, r] for e, r, _ in reads]})
                    else:
                        finds.append(("value", f"read the members {gotr}, the spec predicts "
                                               f"{[(e, r) for e, r, _ in reads]}"))
                ended = "END" in lines
                if failing is None and not ended:
                    finds.append(("outcome-cls", f"reported {other[:1]}, the spec predicts success"))
                elif failing is not None and ended:
                    finds.append(("outcome-cls", f"reported no error, the spec predicts {failing[1]}"))
                elif failing is not None:
                    pat = {"circular": "circular module dependency", "boom": "boom", "notfound": "not found",
                           "undef": "not defined"}.get(failing[1])
                    if pat and not any(pat in l for l in other):
                        run.drift("runner:error kind", {"history": hist, "got": other[:1], "spec": failing[1]})
            for cat, what in finds:
                run.violation(f"c11/runner:{cat}:{hist} :: {what} fs={fsk}",
                              f"{cat}: `ckl.run -m <dir>` on [{hist}] {what}; fs={fsk}", case)
    finally:
        shutil.rmtree(d, ignore_errors=True)
    info["runner"] = {"programs_run_through_ckl_run": ran, "graphs_with_nested_requires": len(nested)}
    run.cov["runner_programs"] = ran


def replay_runner(run, case):
    import os
    import shutil
    import subprocess
    import sys
    import tempfile
    repo = os.environ.get("VERIF_REPO", "/repo")
    d = tempfile.mkdtemp(prefix="c11run-")
    try:
        for m, rec in case["fs"]["fs"].items():
            with open(os.path.join(d, m + ".ckl"), "w") as f:
                f.write("\n".join(l for l in S.module_source(m, rec).split("\n")
                                  if not l.startswith("append(loadlog")))
        with open(os.path.join(d, "main.ckl"), "w") as f:
            f.write("\n".join(case["main"]) + "\n")
        p = subprocess.run([sys.executable, "-m", "ckl.run", "-m", d, os.path.join(d, "main.ckl")],
                           env=dict(os.environ, PYTHONPATH=os.path.join(repo, "src")), cwd=d,
                           stdout=subprocess.PIPE, stderr=subprocess.STDOUT, text=True, timeout=300)
        lines = p.stdout.splitlines()
        if lines[-12:] == case["output"]:
            run.violation("c11/runner:replay:same output as recorded", "runner: " + " | ".join(lines[-4:]), case)
    finally:
        shutil.rmtree(d, ignore_errors=True)


DEVIATIONS = {
    "Modules_devsnap": "ModObj <- ModAtLoad (the module object is made once and handed out by every later "
                       "qualified require)",
    "Modules_devchain": "ImportScope <- ImportScopeChain (an import list resolved through the module's "
                        "environment chain)",
    "Modules_devkeep": "Rebind <- RebindKeep (a require keeps what the importer's scope already holds)",
}


def check_deviations(run, ahead, info):
    """Round 3: with a named deviation substituted TLC must find a
    counterexample of BindsExactly - otherwise the property says nothing
    about listed symbols the module does not have / about names that collide
    (round 4: / about WHEN the definitions a module object exposes are taken)."""
    for cfg, what in DEVIATIONS.items():
        res = ahead.take(cfg)
        run.add_tlc(res, f"Session/c11 with the deviation {what}: counterexample expected")
        if res.ok or "Action property BindsExactly is violated" not in res.out:
            raise MachineryError(cfg + ": TLC did not find the expected counterexample of BindsExactly")
    info["deviations_refuted"] = sorted(DEVIATIONS)


def run(run):
    quick = run.tier == "quick"
    rng = random.Random(run.seed)
    info = {}
    total_edges = total_evals = 0
    seeds = {}

    def sim_kw(num, cfg):
        """(the TLC seed of a simulation is drawn once, when it is first asked for)"""
        if cfg not in seeds:
            seeds[cfg] = rng.randrange(1 << 30)
        return dict(workers=1, simulate=f"num={num}", depth=900, seed=seeds[cfg])

    # (the small graphs first: they are replayed while TLC works on the larger ones)
    ahead = S.Ahead()
    ahead.graph("Modules_spell")
    ahead.graph("Modules_quick")
    ahead.graph("Modules_pairs")
    ahead.graph("Modules_two")
    ahead.graph("Modules_env", workers=4)           # round 5
    ahead.graph("Modules_sim", **sim_kw(1500 if quick else 10000, "Modules_sim"))
    for cfg in DEVIATIONS:
        ahead.start(cfg, workers=2, allow_violation=True, timeout=900)
    if not quick:
        ahead.graph("Modules_envwide", workers=4)       # round 5
        ahead.graph("Modules_thorough")
        ahead.graph("Modules_sim5", **sim_kw(10000, "Modules_sim5"))
    try:
        run_checks(run, quick, rng, info, ahead, sim_kw)
    finally:
        ahead.close()


def run_checks(run, quick, rng, info, ahead, sim_kw):
    total_edges = total_evals = 0

    def bfs(cfg, label, name, off=(), interps=INTERPS):
        nonlocal total_edges, total_evals
        g, res = S.tlc_graph(run, cfg, label, c11=True, off=off, ahead=ahead if cfg in ahead.futs else None)
        fsdefs, roots = roots_of(g)
        with_alt(fsdefs, res)
        t0 = time.time()
        e, v = S.walk(run, g, interps, [(sid, fi, None) for sid, fi in roots], fsdefs, "cover",
                      C11_VERDICT, "c11/" + cfg, loadcap=2)
        total_edges += e
        total_evals += v
        info[name] = {"module_graphs": len(fsdefs), "states": len(g.key),
                      "graph_edges": sum(len(x) for x in g.out.values()), "commands_executed": e,
                      "tlc_wall_s": round(res.wall, 1), "replay_wall_s": round(time.time() - t0, 1)}
        return g, fsdefs

    def sim(cfg, label, name, num):
        nonlocal total_edges, total_evals
        g, res = S.tlc_graph(run, cfg, label, c11=True, ahead=ahead if cfg in ahead.futs else None,
                             **sim_kw(num, cfg))
        fsdefs, roots, ntraces = traces_of(g, res)
        with_alt(fsdefs, res)
        t0 = time.time()
        e, v = S.walk(run, g, INTERPS, roots, fsdefs, "trie", C11_VERDICT, "c11/" + cfg, loadcap=2)
        total_edges += e
        total_evals += v
        info[name] = {"traces": ntraces, "module_graphs": len(fsdefs), "commands_executed": e,
                      "tlc_wall_s": round(res.wall, 1), "replay_wall_s": round(time.time() - t0, 1)}
        return g, fsdefs, roots

    bfs("Modules_spell", "Session/c11: bundled modules sys / stat under every spelling, a user module named by a "
        "string, importer programs <= 3 commands", "bundled_spellings", off=("GenEdge",))
    g, fsdefs = bfs("Modules_quick", "Session/c11: all graphs over 3 modules, entry through the first module",
                    "graphs3_entry")
    run.sample({"FSDEF": fsdefs[min(40, len(fsdefs) - 1)]["g"],
                "files": {m: S.module_source(m, r) for m, r in fsdefs[min(40, len(fsdefs) - 1)]["fs"].items()}})
    bfs("Modules_pairs", "Session/c11: all graphs over 2 modules, importer programs <= 2 commands, termination",
        "graphs2_pairs")
    bfs("Modules_two", "Session/c11: two interpreters with different module directories (generated graph over 2 "
        "modules / the fixed second directory), interleaved programs <= 2 commands", "two_directories",
        interps=INTERPS2)
    # round 5: importers that run in a caller-supplied environment
    bfs("Modules_env", "Session/c11: importers run through interpret(script, name, environment) in a fresh "
        "environment / in the leaf of a chain kept by the caller, next to importers in the session; all graphs "
        "over 2 modules with <= 1 require per module, programs <= 2 commands", "caller_environments")
    g, fsdefs, roots = sim("Modules_sim", "Session/c11 simulation: random graphs over 3 modules, 4 commands",
                           "sim3", 1500 if quick else 10000)
    sid, fi, trie = roots[0]
    k = sorted(trie, key=int)[0]
    run.sample({"importer": {"fs": fsdefs[fi]["g"], "first_command": S.cmd_source(g.out[sid][int(k)][0]),
                             "predicted_scope_after": g.obs[g.out[sid][int(k)][2]]["i1"]}})
    runner(run, g, fsdefs, roots, rng, info, 12 if quick else 80)
    check_deviations(run, ahead, info)
    if not quick:
        bfs("Modules_envwide", "Session/c11: caller-supplied environments incl. the one the caller keeps, programs "
            "<= 3 commands", "caller_environments_le3")
        bfs("Modules_thorough", "Session/c11: all graphs over 3 modules, importer programs <= 2 commands",
            "graphs3_pairs")
        sim("Modules_sim5", "Session/c11 simulation: random graphs over 5 modules, 4 commands", "sim5", 10000)
    probes(run)
    run.cov["traces_validated_against_impl"] = total_edges
    total_evals += repeated_requires(run)
    run.cov["evaluations"] = total_evals
    run.cov["distinct_nontrivial"] = total_edges
    run.cov["rule"] = ("one case per importer command executed on a materialised module graph, each compared "
                       "on the full predicted importer scope (names, values, module-object members, counters "
                       "through every path, load counters); evaluations counts interpret calls and look-ups")
    run.cov["exhaustive"] = not CUT["walks"]
    if CUT["walks"]:
        info["walks_ended_early"] = CUT["walks"]
        run.assumptions.append(f"INCOMPLETE: {CUT['walks']} walk(s) were ended after {WALK_BUDGET} s / {CUT_BUDGET} s "
                               "because they had already recorded violations; the violations listed were observed "
                               "before that point")
    run.cov["bounds"] = info
    run.assumptions += [
        "checkerlang_module_path and the load log list are placed in the base environment (DESIGN 5.4)",
        "public symbols of a module = the names of its top-level scope that do not start with an "
        "underscore, including names its own require statements bound there; the module object leaves "
        "out those that are module objects (nodes.py:1797), `unqualified` and `import` do not",
        "a symbol listed in `import [...]` that the module does not export is skipped silently "
        "(the import lists used here contain one private name to exercise this)",
        "a module whose top level fails is run again by the next require; `at most once` is judged for "
        "modules that end up in the cache",
        "aliases and definition names never collide with module identifiers (names DO collide between modules "
        "and with the importer's own definitions: `common`, `shared`; the later binding wins)",
        "a symbol of an import list is looked up in the module's own top-level scope only (SessionOps.ImportScope); "
        "a base-environment name bound in the session scope by a require is read from the scope map when the "
        "implementation has one (ls() cannot show it), else only the aliased names of the list are judged",
        "a user module named by a string is the file the string's last path component names; only the spellings "
        "whose bound name is beyond doubt are used ('ma' plain; 'ma.ckl' / 'lib/ma' / './ma.ckl' with `as`, "
        "`import`, `unqualified`)",
        "the top level of a module that is not cached may run once per require that reaches it; more runs than the "
        "spec's (unsaturated) load counter are a violation (loadonce)",
        "a bundled module is one module whatever the case of the name it is required under (the loader "
        "finds it case-insensitively); its members are not modelled, only the object, the instance it shows "
        "and the number of evaluated instances in the module cache",
        "`unqualified` / `import [m]` binding a module object that the module itself required is within "
        "`binds all public symbols` (the statement's only notion of private is the underscore)",
        "command line runner: the generated module files are used without their load-log line (the runner "
        "offers no way to put a list into the base environment)",
        "round 4: `exposing the module's public top-level definitions` is read as: the object a qualified require "
        "binds shows every public definition with the value it has when THAT require binds (a reassigned "
        "definition, m_cnt, is in every generated module); an object that shows the module's present value "
        "later on (an object that follows the module) only drifts (drift:liveobject), a value older than the "
        "binding or one that an importer assigned to ANOTHER object is a violation (value)",
        "round 5: a script run through interpret(script, name, environment) in an environment created outside "
        "the interpreter is an importer like any other (`from wherever it is required`): same module cache, same "
        "instance, module scope under the interpreter's base; what its require binds in the caller's environment "
        "is judged through the value of the script (the bumped counter, the probes), not name by name",
        "round 4: the member assignment n->m_cnt = 5 is issued only while no loaded module holds a module object "
        "of that module in its own scope (`require mb unqualified` hands mb's own object on: one shared object the "
        "statement does not speak about and the value-copying model does not follow)",
    ]


# ---------------------------------------------------------------------------------------------------------------
# ONE require statement evaluated several times (a loop body, a function body) with a module spec that is a
# variable holding a string: every evaluation binds the module the variable names at that moment, each module's
# top-level code runs once (Session!LoadOnce / BindsExactly per evaluation of the statement, not per statement)
REPEATED_MODULES = {
    "za": "def who() 'za'; def only_a = 1; def shared = 'a'; def _hidden = 0; append(checkerlang_load_log_, 'za');",
    "zb": "def who() 'zb'; def only_b = 2; def shared = 'b'; def _hidden = 0; append(checkerlang_load_log_, 'zb');",
    "zc": "def who() 'zc'; def only_c = 3; def shared = 'c'; def _hidden = 0; append(checkerlang_load_log_, 'zc');",
}
REPEATED_PROGRAMS = [
    ("def seen = []; for nm in ['za', 'zb', 'zc', 'za'] do require nm unqualified; append(seen, [who(), shared]) end; "
     "[seen, sorted([n for n in ls() if starts_with(n, 'only_')]), checkerlang_load_log_]",
     "[[['za', 'a'], ['zb', 'b'], ['zc', 'c'], ['za', 'a']], ['only_a', 'only_b', 'only_c'], ['za', 'zb', 'zc']]"),
    ("def pick(nm) do require nm import [who as w, shared]; return [w(), shared] end; [pick('zc'), pick('za'), pick('zb'), pick('zc'), "
     "checkerlang_load_log_]", "[['zc', 'c'], ['za', 'a'], ['zb', 'b'], ['zc', 'c'], ['zc', 'za', 'zb']]"),
    ("def load(nm) do def before = set(ls()); require nm; def added = sorted(list(set(ls()) - before - <<'before'>>)); "
     "return [added, eval(added[0])->who()] end; [load('za'), load('zb'), load('za'), checkerlang_load_log_]",
     "[[['za'], 'za'], [['zb'], 'zb'], [['za'], 'za'], ['za', 'zb']]"),
    ("def r = []; def nm = 'za'; while length(r) < 3 do require nm as m_; append(r, m_->who()); nm = if nm == 'za' then 'zb' else 'zc' end; "
     "[r, checkerlang_load_log_]", "[['za', 'zb', 'zc'], ['za', 'zb', 'zc']]"),
]


def repeated_requires(run):
    import os
    import shutil
    import tempfile
    from ckl.interpreter import Interpreter
    from ckl.values import ValueList, ValueString
    from . import absval
    d = tempfile.mkdtemp(prefix="c11rep-")
    n = 0
    try:
        for name, text in REPEATED_MODULES.items():
            with open(os.path.join(d, name + ".ckl"), "w") as f:
                f.write(text)
        for src, want in REPEATED_PROGRAMS:
            for legacy in (False, True):
                it = Interpreter(False, legacy)
                path = ValueList()
                path.addItem(ValueString(d))
                it.base_environment.put("checkerlang_module_path", path)
                it.base_environment.put("checkerlang_load_log_", ValueList())
                o = absval.outcome(lambda: it.interpret(src, "c11"), limit=30)
                w = absval.outcome(lambda: Interpreter(True, False).interpret(want, "c11"))
                n += 1
                if o[0] != "val" or w[0] != "val" or not absval.strict_eq(absval.to_py(o[1]), absval.to_py(w[1])):
                    got = str(o[1])[:200] if o[0] in ("val", "err") else o[1:]
                    run.violation(("legacy: " if legacy else "") + "repeated-require:" + src[:70],
                                  f"value: {src!r} should yield {want}, got {o[0]} {got}",
                                  {"kind": "repeated", "legacy": legacy})
    finally:
        shutil.rmtree(d, ignore_errors=True)
    return n


def replay(run, case):
    if case.get("kind") == "repeated":
        repeated_requires(run)
        return
    if case.get("kind") == "runner":
        return replay_runner(run, case)
    S.replay_history(run, case, C11_VERDICT, "c11")


if __name__ == "__main__":
    import sys
    S.walk_main(sys.argv[1])
