"""C11 - require binds exactly the requested names and evaluates each module once.

Spec: spec/SessionOps.tla (Denotes / Exposed / PubSyms: the reading of the
statement; the generated module files), spec/Session.tla in mode "c11" (the
loader as a sub-step machine; TLC first generates a module graph edge by edge,
then runs importer programs), cfgs Modules_quick / Modules_pairs / Modules_sim
(thorough: Modules_thorough, Modules_sim5).  TLC checks BindsExactly, LoadOnce,
LoadOnlyInLoadStep, ModuleScopeIsBase, SingleInstance, CycleIsError and, on
the two-module universe, termination of every command.

Binding A: every generated module graph is written to disk as .ckl files (a
load counter appended at the top of every file, private mutable state with
public bump/get functions, probes that try to read an importer variable at load
time and at call time, reader functions that reach a required module through
the binding the module's own require made).  The importer programs TLC explored
are run on fresh interpreters; after every command the harness compares the
importer's scope with the predicted one: the set of names (ls() minus the
base names, cross-checked with the scope map), what each name holds, the member
set of every module object, the counters seen through every path, the load
counters, and that a cycle gives a runtime error.
"""
import json
import random
import time

from .common import MachineryError
from . import c10 as S

C11_VERDICT = {"names", "members", "value", "probe", "loadonce", "outcome-cls"}
INTERPS = ["i1"]


def roots_of(g):
    """One root per generated file system: the idle state with no command yet."""
    by_g = {}
    for i, k in enumerate(g.key):
        if k["n"] == 0:
            by_g[json.dumps(k["g"], sort_keys=True)] = i
    fsdefs, roots, seen = [], [], set()
    for f in g.fsdefs:
        t = json.dumps(f["g"], sort_keys=True)
        if t in seen:
            continue
        seen.add(t)
        if t not in by_g:
            raise MachineryError("no initial state for a generated file system")
        fsdefs.append(f)
        roots.append((by_g[t], len(fsdefs) - 1))
    return fsdefs, roots


def ordered_records(out):
    """(tag, value) of every exported record in the order TLC printed them."""
    dec = json.JSONDecoder()
    for line in out.splitlines():
        i = line.find('"@@')
        if i < 0:
            continue
        s, _ = dec.raw_decode(line, i)
        j = s.index("@@", 2)
        yield s[2:j], json.loads(s[j + 2:])


def traces_of(g, res):
    """Simulation output -> per file system a trie of the importer programs."""
    index = {}
    for sid, outs in g.out.items():
        for k, (c, o, q) in enumerate(outs):
            index[(sid, json.dumps(c, sort_keys=True))] = k
    fsdefs, tries, pos = [], {}, {}
    cur = None
    ntraces = 0
    for tag, v in ordered_records(res.out):
        if tag == "FSDEF":
            t = json.dumps(v["g"], sort_keys=True)
            if t not in pos:
                pos[t] = len(fsdefs)
                fsdefs.append(v)
                tries[pos[t]] = {}
            cur = [pos[t], None, tries[pos[t]]]
            ntraces += 1
        elif tag == "EDGE" and cur is not None:
            p = g.kid(v["p"])
            if cur[1] is None:
                cur[1] = p
            k = index[(p, json.dumps(v["c"], sort_keys=True))]
            cur[2] = cur[2].setdefault(str(k), {})
    by_g = {}
    for i, k in enumerate(g.key):
        if k["n"] == 0:
            by_g[json.dumps(k["g"], sort_keys=True)] = i
    roots = []
    for t, fi in pos.items():
        if tries[fi]:
            roots.append((by_g[t], fi, tries[fi]))
    return fsdefs, roots, ntraces


def probes(run):
    """Behaviours next to the property that the statement does not fix: recorded
    (coverage.probes) and counted as drift where the spec's model of the code
    would be wrong, never a violation."""
    import shutil
    import tempfile
    d = tempfile.mkdtemp(prefix="c11p-")
    out = {}
    try:
        S.materialise({"fs": {"good": {"syn": False, "body": [{"op": "def", "n": "good_a", "id": "", "form": ""}]},
                              "half": {"syn": False, "body": [{"op": "def", "n": "half_a", "id": "", "form": ""},
                                                              {"op": "fail", "n": "", "id": "", "form": ""}]}}}, d)
        scen = {
            "import of a symbol the module does not have": ["require good import [nosuch as q1, good_a as q2]", "q2", "q1"],
            "require through a string variable": ["def s = 'good'", "require s", "good->good_a", "s"],
            "require through a non-string variable": ["def n = 1", "require n"],
            "module that fails half-way": ["require half", "half", "require half"],
            "alias equal to another module id": ["require good as half", "half->good_a", "require half"],
        }
        for name, cmds in scen.items():
            sess = S.Sessions(INTERPS, d)
            res = []
            for c in cmds:
                o, raw = sess.run("i1", c)
                res.append([c, list(o)])
            res.append(["module cache", sorted(set(sess.it["i1"].base_environment.modules) - S.BUNDLED)])
            out[name] = res
    finally:
        shutil.rmtree(d, ignore_errors=True)
    exp = {
        "import of a symbol the module does not have": [("val", "null"), ("val", "int"), ("err", "undef")],
        "require through a string variable": [("val", "str"), ("val", "null"), ("val", "int"), ("val", "str")],
        "module that fails half-way": [("err", "boom"), ("err", "undef"), ("err", "boom")],
    }
    for name, want in exp.items():
        got = [(o[0], "str" if o[1] == "ValueString" else o[1]) for _, o in out[name][:len(want)]]
        if got != want:
            run.drift("probe:" + name, {"got": out[name]})
    o = out["require through a non-string variable"][1][1]
    if o[0] == "host":
        run.drift("probe:require through a non-string variable raises a host exception (C13's concern)",
                  {"got": out["require through a non-string variable"]})
    run.cov["probes"] = out


def run(run):
    quick = run.tier == "quick"
    rng = random.Random(run.seed)
    info = {}
    total_edges = total_evals = 0

    def bfs(cfg, label, name):
        nonlocal total_edges, total_evals
        g, res = S.tlc_graph(run, cfg, label, c11=True)
        fsdefs, roots = roots_of(g)
        t0 = time.time()
        e, v = S.walk(run, g, INTERPS, [(sid, fi, None) for sid, fi in roots], fsdefs, "cover",
                      C11_VERDICT, "c11/" + cfg, loadcap=2)
        total_edges += e
        total_evals += v
        info[name] = {"module_graphs": len(fsdefs), "states": len(g.key),
                      "graph_edges": sum(len(x) for x in g.out.values()), "commands_executed": e,
                      "tlc_wall_s": round(res.wall, 1), "replay_wall_s": round(time.time() - t0, 1)}
        return g, fsdefs

    def sim(cfg, label, name, num):
        nonlocal total_edges, total_evals
        g, res = S.tlc_graph(run, cfg, label, c11=True, workers=1, simulate=f"num={num}", depth=900,
                             seed=rng.randrange(1 << 30))
        fsdefs, roots, ntraces = traces_of(g, res)
        t0 = time.time()
        e, v = S.walk(run, g, INTERPS, roots, fsdefs, "trie", C11_VERDICT, "c11/" + cfg, loadcap=2)
        total_edges += e
        total_evals += v
        info[name] = {"traces": ntraces, "module_graphs": len(fsdefs), "commands_executed": e,
                      "tlc_wall_s": round(res.wall, 1), "replay_wall_s": round(time.time() - t0, 1)}
        return g, fsdefs, roots

    g, fsdefs = bfs("Modules_quick", "Session/c11: all graphs over 3 modules, entry through the first module",
                    "graphs3_entry")
    run.sample({"FSDEF": fsdefs[min(40, len(fsdefs) - 1)]["g"],
                "files": {m: S.module_source(m, r) for m, r in fsdefs[min(40, len(fsdefs) - 1)]["fs"].items()}})
    bfs("Modules_pairs", "Session/c11: all graphs over 2 modules, importer programs <= 2 commands, termination",
        "graphs2_pairs")
    g, fsdefs, roots = sim("Modules_sim", "Session/c11 simulation: random graphs over 3 modules, 4 commands",
                           "sim3", 1500 if quick else 10000)
    sid, fi, trie = roots[0]
    k = sorted(trie, key=int)[0]
    run.sample({"importer": {"fs": fsdefs[fi]["g"], "first_command": S.cmd_source(g.out[sid][int(k)][0]),
                             "predicted_scope_after": g.obs[g.out[sid][int(k)][2]]["i1"]}})
    if not quick:
        bfs("Modules_thorough", "Session/c11: all graphs over 3 modules, importer programs <= 2 commands",
            "graphs3_pairs")
        sim("Modules_sim5", "Session/c11 simulation: random graphs over 5 modules, 4 commands", "sim5", 10000)
    probes(run)
    run.cov["traces_validated_against_impl"] = total_edges
    run.cov["evaluations"] = total_evals
    run.cov["distinct_nontrivial"] = total_edges
    run.cov["rule"] = ("one case per importer command executed on a materialised module graph, each compared "
                       "on the full predicted importer scope (names, values, module-object members, counters "
                       "through every path, load counters); evaluations counts interpret calls and look-ups")
    run.cov["exhaustive"] = True
    run.cov["bounds"] = info
    run.assumptions += [
        "checkerlang_module_path and the load log list are placed in the base environment (DESIGN 5.4)",
        "public symbols of a module = the names of its top-level scope that do not start with an "
        "underscore, including names its own require statements bound there; the module object leaves "
        "out those that are module objects (nodes.py:1797), `unqualified` and `import` do not",
        "a symbol listed in `import [...]` that the module does not export is skipped silently "
        "(the import lists used here contain one private name to exercise this)",
        "a module whose top level fails is run again by the next require; `at most once` is judged for "
        "modules that end up in the cache",
        "aliases and definition names never collide with module identifiers",
    ]


def replay(run, case):
    S.replay_history(run, case, C11_VERDICT, "c11")
