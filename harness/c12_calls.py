"""C12, second observation channel: single calls, each with its value, the text it printed AND its error
message (a script cannot see the message of an error it catches; only the host sees it, as ckl.run does when it
prints an uncaught error).

A small driver program (DRIVER, written to a scratch directory) is started as a fresh process under a given
PYTHONHASHSEED.  It creates one interpreter the way ckl.run does (public API: Interpreter(secure, legacy),
setStandardOutput, interpret; the attributes of CklRuntimeError that ckl.run prints), evaluates a prelude once
and then every call of a list, each after `fresh` (which rebuilds S, M ... so that a call that changes its
argument does not affect the next one) and after Random->set_seed.  One line of JSON per call.

The calls are (a) the NATIVE SWEEP: every function of the base environment and of the bundled modules, applied
to the set S / the map M themselves in every argument position, the other positions filled with an int, a
string, a list, logging functions ...; also where that is an error today: a later "also accept sets" change
that walks the raw host container shows in the value, the log of the callback or the error message;
(b) directed calls (error messages that name the first offending member, order-sensitive reductions, seeded
random numbers).  Oracle: the outcome of a call is the same in every process (hash seed) and for every
construction order.
"""
import json
import os
import shutil
import subprocess
import tempfile
from concurrent.futures import ThreadPoolExecutor

from .common import import_ckl, MachineryError, REPO

PY = "/venv/bin/python"

DRIVER = r'''
import io, json, signal, sys
from ckl.interpreter import Interpreter
from ckl.errors import CklRuntimeError, CklSyntaxError

spec = json.load(open(sys.argv[1], encoding="utf-8"))
legacy = sys.argv[2] == "1"
real = sys.stdout
buf = io.StringIO()
sys.stdout = buf                   # the interpreter takes its standard output from here when it is created
it = Interpreter(True, legacy)


class Alarm(BaseException):
    pass


def on_alarm(sig, frm):
    raise Alarm()


signal.signal(signal.SIGALRM, on_alarm)


def text_of(e):
    """what ckl.run prints for an uncaught error"""
    try:
        val = str(e.value.asString().value)
    except Exception:
        val = str(getattr(e, "value", "?"))
    s = val + ": " + str(getattr(e, "msg", e)) + " (Line " + str(getattr(e, "pos", None)) + ")"
    for st in (getattr(e, "stacktrace", None) or []):
        s += "\n" + str(st)
    return s


def one(src, limit):
    buf.seek(0)
    buf.truncate()
    signal.alarm(limit)
    try:
        r = it.interpret(src, "c")
        out = ["val", str(r)]
    except CklRuntimeError as e:
        out = ["err", text_of(e)]
    except CklSyntaxError as e:
        out = ["syntax", str(getattr(e, "msg", e))]
    except Alarm:
        out = ["timeout", ""]
    except RecursionError:
        out = ["host", "RecursionError"]
    except Exception as e:
        out = ["host", type(e).__name__ + ": " + str(e)[:200]]
    finally:
        signal.alarm(0)
    return out + [buf.getvalue()]


res = one(spec["prelude"], 60)
real.write("@@P " + json.dumps(res) + "\n")
for cid, src in spec["calls"]:
    try:
        res = one(spec["fresh"] + src, spec["limit"])
    except Alarm:                      # the alarm fired between the try blocks
        res = ["timeout", "", ""]
    real.write("@@R " + json.dumps([cid] + res) + "\n")
real.write("@@END\n")
real.flush()
'''

MODULES = ["Bitwise", "Core", "Date", "IO", "List", "Math", "OS", "Predicate", "Random", "Set", "Stat", "String",
           "Sys", "Type"]

# fallback when ls() cannot be asked (names of the tree this was written against)
BASE_NAMES = ['abs', 'add', 'all', 'any', 'append', 'apply', 'bind_native', 'body', 'boolean', 'ceiling', 'chunks', 'compare',
              'const', 'contains', 'count', 'curry', 'date', 'decimal', 'delete_at', 'div', 'div0', 'ends_with', 'enumerate',
              'equals', 'esc', 'escape_pattern', 'eval', 'find', 'find_last', 'floor', 'greater', 'greater_equals',
              'identity', 'if_empty', 'if_null', 'if_null_or_empty', 'info', 'insert_at', 'int', 'interval',
              'is_alphanumerical', 'is_empty', 'is_list', 'is_map', 'is_negative', 'is_not_empty', 'is_not_null', 'is_null',
              'is_numeric', 'is_numerical', 'is_object', 'is_set', 'is_string', 'is_valid_date', 'is_valid_time', 'is_zero',
              'join', 'label_data', 'length', 'less', 'less_equals', 'lines', 'list', 'ls', 'map', 'map_get',
              'map_get_pattern', 'matches', 'max', 'min', 'mod', 'mul', 'new', 'non_empty', 'non_zero', 'not_equals', 'object',
              'pairs', 'parse', 'parse_json', 'pattern', 'print', 'println', 'put', 'q', 'range', 'remove', 'replace',
              'reverse_string', 'round', 's', 'set', 'sign', 'sorted', 'split', 'split2', 'sprintf', 'starts_with', 'string',
              'sub', 'sublist', 'substitute', 'substr', 'sum', 'trim', 'type', 'unlines', 'unwords', 'words', 'zip', 'zip_map']
MODULE_NAMES = {
    "List": ['append_all', 'contains', 'filter', 'find', 'find_last', 'first', 'first_n', 'flatten', 'for_each', 'grep',
             'grouped', 'last', 'last_n', 'map_list', 'permutations', 'prod', 'reduce', 'rest', 'reverse', 'reverse_list',
             'unique'],
    "Set": ['diff', 'intersection', 'symmetric_diff', 'union'],
    "Stat": ['geometric_mean', 'harmonic_mean', 'mean', 'median', 'median_high', 'median_low'],
    "Random": ['choice', 'choices', 'random', 'sample', 'set_seed'],
    "String": ['join', 'q', 'split', 'trim', 'upper', 'lower', 'reverse', 'replace'],
    "IO": ['process_lines', 'read_all', 'str_input', 'str_output', 'printf'],
}

# never compared: their result is the clock / the machine, not the program and its inputs
BY_DESIGN = {"now", "timestamp", "get_env", "which", "checkerlang_version", "checkerlang_platform"}

# fillers for the other argument positions: (name, source).  The functions LOG their arguments, so the order in
# which a native visits the members of a collection is in the printed text whatever it does with the results.
FILLERS = [
    ("int", "2"),
    ("str", "'fig'"),
    ("lst", "['kiwi', 3, 'fig']"),
    ("id", "fn(x) do println([x]); x; end"),
    ("yes", "fn(x) do println([x]); TRUE; end"),
    ("no", "fn(x) do println([x]); FALSE; end"),
    ("two", "fn(a, b) do println([a, b]); string(a) + '/' + string(b); end"),
    ("cmp", "fn(a, b) do println([a, b]); 0; end"),
]
MIXED_ROWS = [("id", "int"), ("int", "id"), ("two", "int"), ("str", "int"), ("lst", "id"), ("two", "str")]


def functions_of_tree():
    """[(call name, [argument names] or None)] for the functions of the base environment and of the bundled
    modules, asked of the interpreter under test in this process (language level: ls(), require; the argument
    names through getArgNames, guarded: without them every arity 1..3 is tried)."""
    import_ckl()
    from ckl.interpreter import Interpreter
    it = Interpreter(True, False)
    out = []
    seen = set()

    def add(call, expr):
        try:
            v = it.interpret(expr, "c12")
            if not v.isFunc():
                return
        except Exception:
            return
        try:
            names = [str(n) for n in v.getArgNames()]
        except Exception:
            names = None
        if call not in seen:
            seen.add(call)
            out.append((call, names))

    try:
        base = sorted(str(x.value) for x in it.interpret("ls()", "c12").value)
    except Exception:
        base = BASE_NAMES           # ls() itself is gone or broken: the names known when this was written
    for n in base:
        add(n, n)
    for m in MODULES:
        try:
            names = sorted(str(x.value) for x in it.interpret(f"require {m}; ls({m})", "c12").value)
        except Exception:
            names = MODULE_NAMES.get(m, [])
        for n in names:
            if m == "Core" and n in seen:
                continue
            add(f"{m}->{n}", f"{m}->{n}")
    return out


def arities(names):
    """(min, max) number of positional arguments worth trying, at most 3"""
    if names is None:
        return 1, 3
    k = len(names)
    if any(n.endswith("...") for n in names):
        k = 3
    return 1, max(1, min(k, 3))


def sweep_calls(funcs, subjects=("S", "M"), max_args=3):
    """-> [(call id, source, function name)]"""
    calls = []
    fill = dict(FILLERS)
    for call, names in funcs:
        short = call.split("->")[-1]
        if short in BY_DESIGN:
            continue
        lo, hi = arities(names)
        hi = min(hi, max_args)
        for x in subjects:
            done = set()
            for n in range(lo, hi + 1):
                for pos in range(n):
                    rows = [(f,) * (n - 1) for f, _ in FILLERS] + [("x",) * (n - 1)] if n > 1 else [()]
                    if n == 3:
                        rows += MIXED_ROWS
                    for row in rows:
                        others = [x if r == "x" else fill[r] for r in row]
                        args = others[:pos] + [x] + others[pos:]
                        src = f"{call}({', '.join(args)})"
                        if src in done:
                            continue
                        done.add(src)
                        calls.append((src, f"println({src});", call))
            if hi >= 1:
                src = f"{call}([{x}])"
                calls.append((src, f"println({src});", call))
    return calls


def run_driver(workdir, spec_path, seed, legacy, timeout=600):
    env = dict(os.environ)
    env["PYTHONPATH"] = os.path.join(REPO, "src")
    env["PYTHONHASHSEED"] = str(seed)
    env["PYTHONIOENCODING"] = "utf-8"
    env.pop("PYTHONSTARTUP", None)
    cmd = [PY, os.path.join(workdir, "c12_driver.py"), spec_path, "1" if legacy else "0"]
    for attempt in (0, 1):
        try:
            p = subprocess.run(cmd, cwd=workdir, env=env, stdin=subprocess.DEVNULL, stdout=subprocess.PIPE,
                               stderr=subprocess.PIPE, timeout=timeout, text=True, encoding="utf-8", errors="replace")
            return p.returncode, p.stdout, p.stderr
        except subprocess.TimeoutExpired:
            if attempt == 1:
                raise MachineryError(f"call driver timed out twice ({spec_path})")
    return None


def parse_driver(out):
    """stdout of the driver -> (prelude outcome, {call id: outcome}, complete?)"""
    pre = None
    res = {}
    done = False
    for line in out.splitlines():
        if line.startswith("@@P "):
            pre = tuple(json.loads(line[4:]))
        elif line.startswith("@@R "):
            r = json.loads(line[4:])
            res[r[0]] = tuple(r[1:])
        elif line == "@@END":
            done = True
    return pre, res, done


def execute(groups, workers=16):
    """groups: [{"gid", "prelude": {order name: source}, "fresh", "calls": [(cid, src)], "runs": [(order name, seed,
    legacy)], "limit"}] -> {gid: {(order, seed, legacy): {cid: outcome}}}, number of processes"""
    root = tempfile.mkdtemp(prefix="c12-calls-")
    try:
        with open(os.path.join(root, "c12_driver.py"), "w", encoding="utf-8") as f:
            f.write(DRIVER)
        jobs = []
        for gi, g in enumerate(groups):
            for oname, pre in g["prelude"].items():
                path = os.path.join(root, f"g{gi}-{oname}.json")
                with open(path, "w", encoding="utf-8") as f:
                    json.dump({"prelude": pre, "fresh": g["fresh"], "calls": [[c, s] for c, s in g["calls"]],
                               "limit": g.get("limit", 10)}, f)
            for (oname, seed, legacy) in g["runs"]:
                jobs.append((g["gid"], oname, seed, legacy, os.path.join(root, f"g{gi}-{oname}.json")))
        res = {}
        with ThreadPoolExecutor(max_workers=workers) as ex:
            outs = ex.map(lambda j: run_driver(root, j[4], j[2], j[3]), jobs)
            for j, o in zip(jobs, outs):
                pre, calls, done = parse_driver(o[1])
                if pre is None or not done:
                    raise MachineryError(f"call driver did not finish: group {j[0]} order {j[1]} seed {j[2]} rc {o[0]} "
                                         f"stderr {o[2].strip()[-300:]}")
                res.setdefault(j[0], {})[(j[1], j[2], j[3])] = (pre, calls)
        return res, len(jobs)
    finally:
        shutil.rmtree(root, ignore_errors=True)


_ADDR = None


def norm(outcome):
    """an outcome as it is compared: host exception texts without memory addresses"""
    global _ADDR
    if _ADDR is None:
        import re
        _ADDR = re.compile(r"0x[0-9a-fA-F]{6,}")
    kind, text, printed = outcome
    if kind == "host":
        text = _ADDR.sub("0x?", text)
    return (kind, text, printed)


def compare(group, runs):
    """runs: {(order, seed, legacy): (prelude outcome, {cid: outcome})} -> ({cid: [(legacy, {outcome: [run keys]})]} for the
    calls whose outcome is not the same in all runs of one mode, [cids not judged because a run timed out], number of
    (call, run) evaluations)"""
    varying = {}
    skipped = []
    n = 0
    for legacy in (False, True):
        sel = sorted((k, v) for k, v in runs.items() if k[2] == legacy)
        if len(sel) < 2:
            continue
        for cid, _ in [("@prelude", None)] + list(group["calls"]):
            distinct = {}
            timeout = False
            for rk, (pre, res) in sel:
                o = pre if cid == "@prelude" else res.get(cid)
                if o is None:
                    o = ("missing", "", "")
                if o[0] == "timeout":
                    timeout = True
                n += 1
                distinct.setdefault(norm(o), []).append(rk)
            if timeout:
                skipped.append(cid)
            elif len(distinct) > 1:
                varying.setdefault(cid, []).append((legacy, distinct))
    return varying, sorted(set(skipped)), n
