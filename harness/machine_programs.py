"""Programs of the Machine families (C03-C05) as plain source texts, for the
program pool of C14: the log goes to stdout so that layout variants can be
compared on result, output and error value."""
from .tla import run_tlc_many
from . import machine

PRELUDE = "def log(v) do println(v); v end; "


def sample(run, rng, n):
    cfgs = ["MC_scope", "MC_loop", "MC_err"]
    results = run_tlc_many([((cfg,), dict(timeout=3000, workers=4)) for cfg in cfgs], parallel=3)
    texts = []
    for cfg, res in zip(cfgs, results):
        run.add_tlc(res, f"Machine ({cfg}) as program pool")
        seen = set()
        for rec in res.records("RUN"):
            key = tuple(rec["id"])
            if key in seen or rec["out"]["t"] == "fuel":
                continue
            seen.add(key)
            texts.append(PRELUDE + machine.program_src(rec["prog"]))
    texts.sort()
    return rng.sample(texts, min(n, len(texts)))
