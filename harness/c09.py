"""C09 - secure mode denies file, process and script-loading access.

Spec: spec/SecureOps.tla (reference operators quoted from the statement),
spec/Secure.tla (the capability gate state machine, model-checked over tables
EXTRACTED FROM THE CURRENT TREE at check time), spec/Secure_Trace.tla
(validation of what secure interpreters were observed doing).

Extraction (nothing about the natives is written down here): the names the
binder knows are found by TRYING every string constant of the package's
sources, every bind_native argument of the bundled modules and the name of
every function class on an open gate (directly and through the language's
bind_native), plus `run`; every function class of the package is classified,
whether or not a name binds it.  For each one the function object is captured
in front of the gate, its `secure` attribute is read and `osTouching` is
*measured* by invoking it in a non-secure interpreter with the argument tuples
of SecureOps!CallShapes (path-like and command-like arguments in every
parameter position next to callbacks, streams, numbers, maps, ...; generated
by TLC from spec/SecureCases.tla) inside a canary directory under an audit
hook (plus recording wrappers for the stat family, which raises no audit
event).  The module tables (which natives each bundled module's environment
holds, what the base scripts bind, what a `require` loads) are read off
interpreters whose gate is held open.

Binding A: TLC explores Secure.tla and prints every transition with the
expected observation; each behaviour is replayed as a program on
Interpreter(secure, legacy) and after every action the harness projects the
reachable function values, the base flag, the OS events and the canary.  The
behaviours include the host constructing OTHER interpreters in the same process
before or after this one (the gate's decision must be this interpreter's own),
bundled modules required under spellings with a directory part, and `require`
of module specs that name no module.
Binding B: every symbol of every bundled module (qualified and unqualified)
and of the base environment is invoked with the argument tuples of CallShapes
in secure interpreters; `require` is handed the module specs of
SecureOps!ForeignSpecs (prefix x traversal x target x clause x module path);
the command line front ends are started with every option set and a probe
program.  All observations of secure interpreters (A and B, plus direct calls
of the binder) are validated by TLC against Secure_Trace.tla; what it rejects
are the violations.  Differences between the model's prediction and the code
that the statement does not name are drift.
"""
import ast
import concurrent.futures as cf
import glob
import hashlib
import io
import json
import multiprocessing
import os
import random
import re
import shutil
import signal
import subprocess
import sys
import sysconfig
import tempfile
import threading

from .common import import_ckl, MachineryError, REPO
from .tla import run_tlc

import_ckl()
import ckl.functions as F  # noqa: E402
import ckl.nodes as N  # noqa: E402
import ckl.values as V  # noqa: E402
from ckl.interpreter import Interpreter  # noqa: E402

FLAG = "checkerlang_secure_mode"
MODDIR = os.path.realpath(os.path.join(REPO, "src", "ckl", "modules"))
SRCDIR = os.path.realpath(os.path.join(REPO, "src"))
NWORKERS = min(16, os.cpu_count() or 4)
# Wall-clock guards.  None of them produces a verdict: a call that does not
# come back in time is recorded as drift (termination is not this property).
BOOT_LIMIT = 300.0
ACT_LIMIT = 120.0
CALL_LIMIT = 2.0
DEEP_CAP = 150000      # length-3 behaviours replayed in the thorough tier (seeded sample above that)

# --------------------------------------------------------------------------
# Python mirror of SecureOps!PermittedOs.  Used only to *classify* natives as
# osTouching (a measurement that becomes a constant of the model) and to
# explain a rejection; the verdict on secure interpreters is TLC's.
FILE_KINDS = {"read", "write", "list", "mkdir", "delete", "move", "stat", "chdir"}
JUDGED = FILE_KINDS | {"spawn"}
MODSRC = {"bundled", "usermods", "modpath"}


def permitted_os(kind, cls, req):
    if kind not in JUDGED:
        return True
    if cls == "hostlib" and kind in ("read", "stat"):
        return True
    return bool(req) and cls in MODSRC and kind in ("read", "stat")


# --------------------------------------------------------------------------
# The recorder: one audit hook per process (hooks cannot be removed) and
# recording wrappers for calls that raise no audit event.  Installed only in
# worker processes.
class Rec:
    installed = False
    on = False
    req = 0            # depth of NodeRequire.evaluate / base loading
    raw = []


_AUDIT = {
    "os.listdir": "list", "os.scandir": "list", "os.walk": "list", "glob.glob": "list",
    "glob.glob/2": "list", "pathlib.Path.glob": "list", "pathlib.Path.rglob": "list",
    "os.mkdir": "mkdir", "os.remove": "delete", "os.rmdir": "delete", "os.rename": "move",
    "os.link": "write", "os.symlink": "write", "os.truncate": "write", "os.chmod": "write",
    "os.chown": "write", "os.utime": "write", "os.mkfifo": "write", "os.mknod": "write",
    "os.chdir": "chdir", "os.fwalk": "list",
    "subprocess.Popen": "spawn", "os.system": "spawn", "os.fork": "spawn", "os.forkpty": "spawn",
    "os.startfile": "spawn", "pty.spawn": "spawn", "os.posix_spawn": "spawn",
    "tempfile.mkstemp": "write", "tempfile.mkdtemp": "mkdir",
}
_TWO_PATHS = {"os.rename", "os.link", "os.symlink", "shutil.copyfile", "shutil.move",
              "shutil.copytree", "shutil.copymode", "shutil.copystat"}
_WRITE_FLAGS = os.O_WRONLY | os.O_RDWR | os.O_CREAT | os.O_TRUNC | os.O_APPEND


def _hook(event, args):
    if not Rec.on:
        return
    kind = _AUDIT.get(event)
    if kind is None:
        if event == "open":
            mode = args[1] if len(args) > 1 else None
            flags = args[2] if len(args) > 2 else 0
            if isinstance(mode, str):
                kind = "write" if any(c in mode for c in "wax+") else "read"
            else:
                kind = "write" if isinstance(flags, int) and flags & _WRITE_FLAGS else "read"
        elif event.startswith("shutil."):
            kind = "delete" if event == "shutil.rmtree" else ("move" if event == "shutil.move" else "write")
        elif event.startswith("os.exec") or event.startswith("os.spawn"):
            kind = "spawn"
        elif event.startswith("socket."):
            kind = "net"
        else:
            return
    Rec.raw.append((kind, args[0] if args else None, Rec.req > 0, event))
    if event in _TWO_PATHS and len(args) > 1:
        Rec.raw.append((kind, args[1], Rec.req > 0, event))


def _wrap(owner, name, kind):
    orig = getattr(owner, name, None)
    if orig is None or getattr(orig, "_c09", False):
        return

    def w(*a, **k):
        if Rec.on:
            Rec.raw.append((kind, a[0] if a else None, Rec.req > 0, name))
        return orig(*a, **k)
    w._c09 = True
    w.__name__ = getattr(orig, "__name__", name)
    setattr(owner, name, w)


def install_recorder():
    if Rec.installed:
        return
    Rec.installed = True
    sys.addaudithook(_hook)
    for name in ("stat", "lstat", "access", "readlink", "statvfs"):
        _wrap(os, name, "stat")
    for name in ("exists", "lexists", "isdir", "isfile", "islink", "getsize",
                 "getmtime", "getatime", "getctime", "ismount", "samefile"):
        _wrap(os.path, name, "stat")
    _wrap(os, "getcwd", "cwd")
    _wrap(os, "getenv", "env")
    try:
        _wrap(os.environ, "get", "env")
    except (AttributeError, TypeError):
        pass
    # mark the evaluation of `require` (the only time module sources may be read)
    if not hasattr(N, "NodeRequire"):
        raise MachineryError("ckl.nodes.NodeRequire not found: cannot tell module loading apart")
    orig_eval = N.NodeRequire.evaluate
    if not getattr(orig_eval, "_c09", False):
        def evaluate(self, environment):
            Rec.req += 1
            try:
                return orig_eval(self, environment)
            finally:
                Rec.req -= 1
        evaluate._c09 = True
        N.NodeRequire.evaluate = evaluate


class _Timeout(BaseException):
    pass


def _alarm(signum, frame):
    raise _Timeout()


# --------------------------------------------------------------------------
# Per-process context: canary directory, module path directory, private HOME.
class Ctx:
    def __init__(self, root):
        self.root = os.path.realpath(root)
        self.canary = os.path.join(self.root, "canary")
        self.mods = os.path.join(self.root, "mods")
        self.home = os.path.join(self.root, "home")
        self.usermods = os.path.join(self.home, ".ckl", "modules")
        os.makedirs(self.usermods, exist_ok=True)
        os.makedirs(self.mods, exist_ok=True)
        self.build()
        self.ref = self.snapshot()
        pre = {sys.prefix, sys.base_prefix, sys.exec_prefix}
        for k in ("stdlib", "platstdlib", "purelib", "platlib"):
            p = sysconfig.get_paths().get(k)
            if p:
                pre.add(p)
        self.host = sorted({os.path.realpath(p) for p in pre if p and os.path.realpath(p) != "/"})
        # symbolic palette of path-like and command-like arguments
        c = self.canary
        self.pal = {
            "F": _q(os.path.join(c, "a.txt")), "D": _q(os.path.join(c, "sub")),
            "N": _q(os.path.join(c, "new.txt")), "S": _q(os.path.join(c, "script.ckl")),
            "M": _q(os.path.join(c, "newdir", "x")), "R": "'rel.txt'", "C": "'true'",
            "L": "[" + _q(os.path.join(c, "a.txt")) + "]", "T": "TRUE", "U": "'utf-8'",
            "X": "FALSE",
            # companions (SecureOps!CompanionsMore).  The streams are made inside a function
            # frame, so nothing is bound in the environment the call is made from.
            "K": "(fn(a...) TRUE)", "J": "(fn(a, b = NULL, c = NULL) a)",
            "I": "(fn() do bind_native('str_input'); str_input('c09-line\\nc09-line2') end)()",
            "O": "(fn() do bind_native('str_output'); str_output() end)()",
            "1": "1", "Z": "NULL", "E": "''",
            "P": "<<<" + _q(os.path.join(c, "a.txt")) + " => " + _q(os.path.join(c, "new.txt")) +
                 ", 'file' => " + _q(os.path.join(c, "a.txt")) + ", 'path' => " + _q(os.path.join(c, "a.txt")) +
                 ", 'name' => " + _q(os.path.join(c, "new.txt")) + ", 'dir' => " + _q(os.path.join(c, "sub")) + ">>>",
            "B": "<*path = " + _q(os.path.join(c, "a.txt")) + ", name = " + _q(os.path.join(c, "new.txt"))
                 + ", file = " + _q(os.path.join(c, "a.txt")) + "*>",
        }

    def build(self):
        c = self.canary
        shutil.rmtree(c, ignore_errors=True)
        os.makedirs(os.path.join(c, "sub", "deep"))
        os.makedirs(os.path.join(c, "cwd"))
        for rel, text in (("a.txt", "canary-a\n"), ("sub/b.txt", "canary-b\n"),
                          ("sub/deep/c.txt", "canary-c\n"), ("cwd/rel.txt", "canary-rel\n"),
                          ("script.ckl", "def c09_script_ran = 1; 1;\n")):
            with open(os.path.join(c, rel), "w") as f:
                f.write(text)

    def snapshot(self):
        out = []
        for dp, dns, fns in os.walk(self.canary):
            dns.sort()
            rel = os.path.relpath(dp, self.canary)
            out.append((rel, "d", ""))
            for fn in sorted(fns):
                p = os.path.join(dp, fn)
                try:
                    with open(p, "rb") as f:
                        h = hashlib.sha1(f.read()).hexdigest()
                except OSError:
                    h = "?"
                out.append((os.path.join(rel, fn), "f", h))
        return out

    def check_restore(self):
        same = self.snapshot() == self.ref
        if not same:
            self.build()
        try:
            if os.getcwd() != os.path.join(self.canary, "cwd"):
                os.chdir(os.path.join(self.canary, "cwd"))
        except OSError:
            os.chdir(os.path.join(self.canary, "cwd"))
        return same

    def classify(self, kind, p):
        if isinstance(p, int) or p is None:
            return "fd"
        if isinstance(p, (list, tuple)):
            p = p[0] if p else ""
        try:
            p = os.fsdecode(os.fspath(p))
        except TypeError:
            return "other"
        if kind == "spawn" and "/" not in p:
            return "cmd"
        if kind in ("env", "cwd"):
            return "none"
        ap = os.path.realpath(os.path.join(self.canary, "cwd", os.path.expanduser(p)))
        for cls, pre in (("canary", self.canary), ("modpath", self.mods), ("usermods", self.usermods),
                         ("bundled", MODDIR)):
            if ap == pre or ap.startswith(pre + os.sep):
                return cls
        for pre in self.host:
            if ap == pre or ap.startswith(pre + os.sep):
                return "hostlib"
        if (ap.startswith(SRCDIR + os.sep) and ap.endswith((".py", ".pyc"))):
            return "hostlib"
        return "other"


def _q(s):
    return "'" + s.replace("\\", "\\\\").replace("'", "\\'") + "'"


CTX = None


def worker_init(root):
    """Runs in every worker process (forked): private canary, recorder."""
    global CTX
    d = os.path.join(root, f"w{os.getpid()}")
    os.makedirs(d, exist_ok=True)
    CTX = Ctx(d)
    os.environ["HOME"] = CTX.home
    os.chdir(os.path.join(CTX.canary, "cwd"))
    null = os.open(os.devnull, os.O_RDWR)
    os.dup2(null, 0)
    os.dup2(null, 1)
    sys.stdin = open(os.devnull)
    sys.stdout = open(os.devnull, "w")
    signal.signal(signal.SIGALRM, _alarm)
    try:
        import resource
        resource.setrlimit(resource.RLIMIT_AS, (8 << 30, 8 << 30))
    except (ImportError, ValueError, OSError):
        pass
    install_recorder()


def take_events():
    """Classify and return the OS events recorded since the last call."""
    raw, Rec.raw = Rec.raw, []
    out = []
    seen = set()
    for kind, p, req, _ev in raw:
        cls = CTX.classify(kind, p)
        if cls == "fd":
            continue
        t = (kind, cls, bool(req))
        if t in seen:
            continue
        seen.add(t)
        out.append({"kind": kind, "cls": cls, "req": bool(req)})
    return out


def recorded(fn, limit=20.0, req=False):
    """Run fn() with recording on; return (outcome, os events)."""
    Rec.raw = []
    if req:
        Rec.req += 1
    signal.setitimer(signal.ITIMER_REAL, limit)
    Rec.on = True
    try:
        try:
            out = ("val", fn())
        finally:
            Rec.on = False
            signal.setitimer(signal.ITIMER_REAL, 0)
    except _Timeout:
        out = ("timeout", None)
    except BaseException as e:  # noqa: BLE001 - SystemExit, KeyboardInterrupt included
        out = ("exc", type(e).__name__)
    finally:
        Rec.on = False
        if req:
            Rec.req -= 1
    return out, take_events()


# --------------------------------------------------------------------------
# Projection (a): native function values reachable from all environments.
_NODE_EXITS = {}     # id(ast node) -> (node, [non-AST ckl objects below it])
_INTERESTING = None


def _interesting(o):
    return isinstance(o, (V.ValueFunc, F.Environment, V.ValueList, V.ValueObject, V.ValueMap,
                          V.ValueSet, V.ValueNode))


def _node_exits(node):
    """AST subtrees are immutable after parsing: walk each once and remember
    the function values / environments / containers hanging below it."""
    hit = _NODE_EXITS.get(id(node))
    if hit is not None and hit[0] is node:
        return hit[1]
    exits = []
    seen = set()
    stack = [node]
    while stack:
        o = stack.pop()
        if id(o) in seen:
            continue
        seen.add(id(o))
        if isinstance(o, (str, int, float, bytes, bool, type(None))):
            continue
        if isinstance(o, dict):
            stack.extend(o.keys())
            stack.extend(o.values())
        elif isinstance(o, (list, tuple, set, frozenset)):
            stack.extend(o)
        elif type(o).__module__ == "ckl.nodes":
            d = getattr(o, "__dict__", None)
            if d:
                stack.extend(d.values())
        elif _interesting(o):
            exits.append(o)
    _NODE_EXITS[id(node)] = (node, exits)
    return exits


def reachable(roots, classmap):
    """roots: iterable of objects.  Returns (native ids, insecure function
    values of classes the binder does not know, number of objects visited)."""
    ids = set()
    unknown = set()
    seen = set()
    stack = list(roots)
    n = 0
    while stack:
        o = stack.pop()
        if isinstance(o, (str, int, float, bytes, bool, type(None))):
            continue
        i = id(o)
        if i in seen:
            continue
        seen.add(i)
        n += 1
        if isinstance(o, dict):
            for k, v in o.items():
                stack.append(k)
                stack.append(v)
            continue
        if isinstance(o, (list, tuple, set, frozenset)):
            stack.extend(o)
            continue
        mod = type(o).__module__
        if not mod.startswith("ckl"):
            continue
        if mod == "ckl.nodes":
            stack.extend(_node_exits(o))
            continue
        if isinstance(o, V.ValueFunc):
            nid = classmap.get(type(o).__qualname__)
            if nid is not None:
                ids.add(nid)
            elif not getattr(o, "secure", True):
                unknown.add(type(o).__qualname__)
        d = getattr(o, "__dict__", None)
        if d:
            stack.extend(d.values())
    return ids, unknown, n


def interp_roots(it):
    roots = [it.environment, it.base_environment]
    base = it.base_environment
    roots.extend(getattr(base, "modules", {}).values())
    return roots


def direct_bindings(env, classmap):
    out = set()
    for name, v in env.map.items():
        if isinstance(v, V.ValueFunc):
            nid = classmap.get(type(v).__qualname__)
            if nid is not None:
                out.add((name, nid))
    return out


def read_flag(it):
    try:
        base = it.environment.getBase()
        if base is not it.base_environment:
            return "other"
        v = base.map.get(FLAG)
        if v is None:
            return "absent"
        if isinstance(v, V.ValueBoolean) and v.value is True:
            return "TRUE"
        if isinstance(v, V.ValueBoolean) and v.value is False:
            return "FALSE"
        return "other"
    except Exception:  # noqa: BLE001
        return "other"


def observe(it, data, phase, osev, extra=()):
    """One `obs` event of Secure_Trace plus the details behind it."""
    classmap = data["classmap"]
    ids, unknown, nobj = reachable(interp_roots(it) + list(extra), classmap)
    forb = data["forbidden"]
    bad = sorted(i for i in ids if forb.get(i, True)) + sorted("class:" + u for u in unknown)
    same = CTX.check_restore()
    ev = {"op": "obs", "phase": phase, "os": osev, "flag": read_flag(it),
          "nbad": len(bad), "canary": bool(same), "ran": False}
    return ev, {"bad": bad, "reach": ids, "objects": nobj}


def make_interp(sec, leg):
    _NODE_EXITS.clear()          # the memo keeps ASTs alive: one interpreter at a time
    it = Interpreter(sec, leg)
    it.setStandardOutput(io.StringIO())
    it.setStandardInput(io.StringIO(""))
    return it


# --------------------------------------------------------------------------
# The case families of the specification, written out by TLC.
_BASE_SHAPES = [
    (), ("F",), ("D",), ("N",), ("S",), ("R",), ("C",), ("M",),
    ("F", "N"), ("F", "D"), ("N", "F"), ("D", "T"), ("C", "L"), ("F", "U"), ("N", "U"), ("M", "T"),
    ("S", "N"), ("F", "L"),
    ("C", "L", "D"), ("N", "U", "T"), ("D", "T", "T"),
    ("D", "T", "T", "T"), ("C", "L", "D", "X", "N"),
]       # SecureOps!BaseShapes (checked against the export; used for the narrow sweeps)
MAX_ARITY = 5


def load_cases():
    """spec/SecureCases.tla -> argument tuples per number of parameters, module
    specs for `require`, command line cases."""
    res = run_tlc("SecureCases", workers=1, timeout=600)
    try:
        sh = res.records("SHAPES")[0]
        sp = res.records("SPECS")[0]
        cli = res.records("CLI")[0]["cases"]
    except (IndexError, KeyError):
        raise MachineryError("SecureCases.tla printed no case tables")
    shapes = {}
    for tier in ("quick", "thorough"):
        tab = [sorted({tuple(t) for t in row}) for row in sh[tier]]
        if len(tab) != MAX_ARITY + 1 or not all(tab):
            raise MachineryError("SecureCases.tla: malformed shape table")
        shapes[tier] = tab
    for t in _BASE_SHAPES:
        if t not in shapes["quick"][max(1, min(len(t), MAX_ARITY))]:
            raise MachineryError(f"SecureOps!BaseShapes and the harness disagree on {t}")

    def spec_key(x):
        return json.dumps(x, sort_keys=True)
    specs = sorted(sp["all"], key=spec_key)
    core = sorted(sp["core"], key=spec_key)
    if not core or len(specs) < len(core):
        raise MachineryError("SecureCases.tla: no module specs")
    return {"shapes": shapes, "specs": specs, "core": core, "cli": sorted(cli, key=spec_key)}, res


def shapes_for(cases, nargs, tier, wide=True):
    """Argument tuples for a function of nargs parameters plus one call with
    one argument too many."""
    n = max(0, min(nargs, MAX_ARITY))
    if wide:
        tups = list(cases["shapes"][tier][n])
    else:
        tups = [t for t in _BASE_SHAPES if len(t) <= max(n, 1)]
    over = [t for t in _BASE_SHAPES if len(t) == nargs + 1][:1]
    return tups + [t for t in over if t not in tups]


def usable_palette(it):
    """Palette symbols whose program text evaluates in this interpreter (a
    renamed helper native must not stop the sweep: its symbol is left out and
    listed)."""
    ok, missing = set(), []
    for sym, text in CTX.pal.items():
        out, _evs = recorded(lambda: it.interpret(text, "c09"), limit=20.0)
        if out[0] == "val":
            ok.add(sym)
        else:
            missing.append(sym)
    CTX.check_restore()
    return ok, sorted(missing)


# --------------------------------------------------------------------------
# Extraction.
def ast_native_names():
    """String literals compared with the name parameter inside bind_native
    (the registration pattern of the tree this check was built on; only a
    cross-check now)."""
    path = os.path.join(REPO, "src", "ckl", "functions.py")
    names = []
    try:
        with open(path, encoding="utf-8") as f:
            tree = ast.parse(f.read())
    except (OSError, SyntaxError):
        return names
    for node in tree.body:
        if isinstance(node, ast.FunctionDef) and node.name == "bind_native":
            argname = node.args.args[1].arg if len(node.args.args) > 1 else "native"
            for c in ast.walk(node):
                if isinstance(c, ast.Compare) and isinstance(c.left, ast.Name) and c.left.id == argname:
                    for comp in c.comparators:
                        for k in ast.walk(comp):
                            if isinstance(k, ast.Constant) and isinstance(k.value, str):
                                if k.value not in names:
                                    names.append(k.value)
    return names


_PLAIN_NAME = re.compile(r"^[A-Za-z0-9_.:-]+$")
_BIND_IN_CKL = re.compile(r"""bind_native\s*\(\s*(['"])(.*?)\1""")


def candidate_names():
    """Every string that could be a native name: all short string constants of
    the package's Python sources and every first argument of bind_native in a
    bundled module."""
    cands = set()
    pkg = os.path.join(REPO, "src", "ckl")
    for py in sorted(glob.glob(os.path.join(pkg, "**", "*.py"), recursive=True)):
        try:
            with open(py, encoding="utf-8") as f:
                tree = ast.parse(f.read())
        except (OSError, SyntaxError):
            continue
        for k in ast.walk(tree):
            if isinstance(k, ast.Constant) and isinstance(k.value, str):
                v = k.value
                if 0 < len(v) <= 64 and not any(ch.isspace() for ch in v) and "'" not in v and "\\" not in v:
                    cands.add(v)
    for ck in sorted(glob.glob(os.path.join(pkg, "**", "*.ckl"), recursive=True)):
        try:
            with open(ck, encoding="utf-8") as f:
                for m in _BIND_IN_CKL.finditer(f.read()):
                    if 0 < len(m.group(2)) <= 64 and "'" not in m.group(2) and "\\" not in m.group(2):
                        cands.add(m.group(2))
        except OSError:
            continue
    return sorted(cands)


class open_gate:
    """Hold the gate open (and see what passes it) while extracting: the
    tables must not depend on the gate they are used to check."""

    def __enter__(self):
        self.captured = []
        self.orig = getattr(F, "bind_native_fun", None)
        if self.orig is not None:
            def passthrough(environment, func, alias=None):
                self.captured.append(func)
                # what the binder does once the gate is passed (written out here: the helper of the
                # implementation that does it is not part of what the tables may depend on)
                if alias is not None:
                    environment.put(alias, func)
                environment.put(func.name, func)
            F.bind_native_fun = passthrough
        return self

    def __exit__(self, *a):
        if self.orig is not None:
            F.bind_native_fun = self.orig


def capture_native(name, alias=None):
    """-> (func object or None, value bound, error)"""
    with open_gate() as g:
        base = F.get_none_environment()
        base.put(FLAG, V.ValueBoolean.fromval(False))
        env = base.newEnv()
        try:
            F.bind_native(env, name, alias)
        except Exception as e:  # noqa: BLE001
            return None, None, type(e).__name__
        if alias is not None:
            return env.map.get(alias), None, None
        if g.captured:
            return g.captured[-1], None, None
        for k, v in env.map.items():
            if isinstance(v, V.ValueFunc):
                return v, None, None
        vals = list(env.map.values())
        if not vals:
            return None, None, "nothing-bound"
        return None, vals[0], None


def capture_by_language(name, alias=None):
    """The function object `bind_native('<name>')` binds when a program of a
    non-secure interpreter says so (for a name only the language-level binder
    knows).  -> func or None"""
    try:
        with open_gate():
            it = make_interp(False, False)
            before = dict(it.environment.map)
            al = "" if alias is None else ", '" + alias + "'"
            it.interpret(f"bind_native('{name}'{al})", "c09")
    except Exception:  # noqa: BLE001
        return None
    if alias is not None:
        v = it.environment.map.get(alias)
        return v if isinstance(v, V.ValueFunc) else None
    for k, v in it.environment.map.items():
        if isinstance(v, V.ValueFunc) and before.get(k) is not v:
            return v
    return None


def _subclasses(c):
    out = []
    for s in c.__subclasses__():
        if s not in out:
            out.append(s)
        for t in _subclasses(s):
            if t not in out:
                out.append(t)
    return out


def function_classes():
    """Function classes of the package: {qualname: instance or None}; the class
    of the functions a program defines itself is left out."""
    try:
        lam = type(Interpreter(False, False).interpret("fn() 1", "c09"))
    except Exception:  # noqa: BLE001
        lam = None
    out = {}
    for c in _subclasses(V.ValueFunc):
        if c is lam or not str(c.__module__).startswith("ckl"):
            continue
        try:
            out[c.__qualname__] = c()
        except Exception:  # noqa: BLE001
            out[c.__qualname__] = None
    return out


def task_known(cands):
    """Which of the candidate strings does the binder know?  Tried in front of
    an open gate: directly (bind_native of the package) and through a program
    of a non-secure interpreter.  Also the function classes of the package."""
    classes = function_classes()
    names = set(cands)
    for q, inst in classes.items():
        nm = getattr(inst, "name", None)
        if isinstance(nm, str) and 0 < len(nm) <= 64 and "'" not in nm and "\\" not in nm:
            names.add(nm)
    names = sorted(names)
    direct = {}
    for n in names:
        func, val, err = capture_native(n)
        if err is None and (func is not None or val is not None):
            direct[n] = type(func).__qualname__ if func is not None else ""
    lang = []
    lang_error = None
    try:
        with open_gate():
            it = make_interp(False, False)
            lst = "[" + ", ".join("'" + n + "'" for n in names if _PLAIN_NAME.match(n)) + "]"
            r = it.interpret("def c09_ok = []; for c09_n in " + lst + " do do bind_native(c09_n); "
                             "c09_ok = c09_ok + [c09_n]; catch all NULL end; end; c09_ok", "c09")
        lang = [v.value for v in r.value]
    except Exception as e:  # noqa: BLE001
        lang_error = type(e).__name__ + ": " + str(e)[:120]
    lang_only = []
    for n in lang:
        if n not in direct:
            f = capture_by_language(n)
            if f is not None:
                direct[n] = type(f).__qualname__
                lang_only.append(n)
    return {"known": direct, "lang_only": lang_only, "lang_error": lang_error, "tried": len(names),
            "classes": {q: inst is not None for q, inst in classes.items()}}


def task_classify(arg):
    """Measure one native: secure attribute and what it does to the OS when
    invoked directly (in front of the gate) in a non-secure interpreter.
    arg = (id, cases, tier); id is a name the binder knows, `run`, or
    `class:<QualName>` for a function class no name binds."""
    name, cases, tier = arg
    with open_gate():                  # the measurement must not depend on the gate
        it = make_interp(False, False)
    registered = None
    err = val = None
    if name == "run":
        func = it.base_environment.map.get("run")
        registered = func is not None
        if func is None:
            cls = getattr(F, "FuncRun", None)
            try:
                func = cls(it) if cls is not None else None
            except Exception:  # noqa: BLE001
                func = None
        if func is None:
            return {"id": name, "absent": True}
    elif name.startswith("class:"):
        func = function_classes().get(name[6:])
        if func is None:
            return {"id": name, "error": "not-instantiable"}
    else:
        func, val, err = capture_native(name)
        if err:
            func = capture_by_language(name)
            if func is None:
                return {"id": name, "error": err}
    if func is None:
        return {"id": name, "isFunc": False, "secureAttr": True, "osTouching": False, "known": True,
                "fname": name, "cls": "", "touch": [], "unjudged": [], "takesAlias": False}
    takes_alias = False
    if name != "run" and not name.startswith("class:"):
        takes_alias = (capture_native(name, "c09_alias")[0] or capture_by_language(name, "c09_alias")) is not None
    it.environment.put("c09_f", func)
    touch = set()
    unjudged = set()
    by_shape = {}
    ncalls = 0
    timeouts = 0
    try:
        argnames = list(func.getArgNames())
        nargs = MAX_ARITY if any(str(a).endswith("...") for a in argnames) else len(argnames)
    except Exception:  # noqa: BLE001
        nargs = MAX_ARITY
    usable, _missing = usable_palette(it)
    for tup in shapes_for(cases, nargs, tier):
        if any(a not in usable for a in tup):
            continue
        src = "c09_f(" + ", ".join(CTX.pal[a] for a in tup) + ")"
        out, evs = recorded(lambda: it.interpret(src, "c09"), limit=20.0)
        ncalls += 1
        if out[0] == "timeout":
            timeouts += 1
        here = set()
        for e in evs:
            if permitted_os(e["kind"], e["cls"], False):
                if e["kind"] not in JUDGED:
                    unjudged.add(e["kind"])
                continue
            here.add(e["kind"] + ":" + e["cls"])
        if not CTX.check_restore():
            here.add("canary-changed")
        if here:
            touch |= here
            if len(by_shape) < 4:
                by_shape[",".join(tup)] = sorted(here)
    return {"id": name, "isFunc": True, "secureAttr": bool(getattr(func, "secure", True)),
            "osTouching": bool(touch), "fname": str(func.name), "cls": type(func).__qualname__,
            "takesAlias": takes_alias, "known": not name.startswith("class:"),
            "touch": sorted(touch), "touchShapes": by_shape, "unjudged": sorted(unjudged), "calls": ncalls,
            "timeouts": timeouts, "registered": registered}


def module_names():
    """Bundled module files -> the name a program uses to require them."""
    stems = sorted(f[:-4] for f in os.listdir(MODDIR) if f.endswith(".ckl"))
    canon = {}
    try:
        with open_gate():
            it = Interpreter(False, False)
            lst = it.interpret("require Sys; Sys->checkerlang_modules", "c09")
        for v in lst.value:
            canon[v.value.lower()] = v.value
    except Exception:  # noqa: BLE001
        pass
    return [(s, canon.get(s, s)) for s in stems]


def module_id(modules, name):
    """The key under which the interpreter files the module a program calls
    `name` (bundled modules are filed under their lower-case file name)."""
    if name in modules:
        return name
    for k in modules:
        if k.lower() == name.lower():
            return k
    return name


def func_key(v):
    """Identifies a function value across interpreters: class, name, parameter
    names and (for functions written in the language) the text of the body."""
    try:
        args = ",".join(str(a) for a in v.getArgNames())
    except Exception:  # noqa: BLE001
        args = "?"
    try:
        body = getattr(v, "body", None)
        bh = hashlib.sha1(repr(body).encode("utf-8", "replace")).hexdigest()[:12] if body is not None else ""
    except Exception:  # noqa: BLE001
        bh = "?"
    return "|".join((type(v).__qualname__, str(getattr(v, "name", "")), args, bh))


def task_tables(classmap):
    """Module tables, read off interpreters whose gate is held open."""
    def binds(env):
        return [{"name": n, "id": i, "priv": n.startswith("_")}
                for n, i in sorted(direct_bindings(env, classmap))]
    out = {"moduleBinds": {}, "moduleLoads": {}, "baseBinds": {}, "bootLoads": {}, "symbols": {}, "modname": {}}
    mods = module_names()
    with open_gate():
        for leg, key in ((False, "plain"), (True, "legacy")):
            it = make_interp(False, leg)
            base = it.base_environment
            out["baseBinds"][key] = [b for b in binds(base) if b["id"] != "run"]
            out["bootLoads"][key] = sorted(base.modules)
            for m, env in base.modules.items():
                out["moduleBinds"].setdefault(m, binds(env))
        for stem, name in mods:
            it = make_interp(False, False)
            before = set(it.base_environment.modules)
            try:
                it.interpret("require " + name, "c09")
            except Exception as e:  # noqa: BLE001
                out.setdefault("errors", []).append(f"require {name}: {type(e).__name__}")
                continue
            after = it.base_environment.modules
            mid = module_id(after, name)        # the key the interpreter files the module under
            out["modname"][mid] = name
            out["moduleLoads"][mid] = sorted((set(after) - before) | {mid})
            for m, env in after.items():
                out["moduleBinds"].setdefault(m, binds(env))
    for m in out["moduleBinds"]:
        out["moduleLoads"].setdefault(m, [m])
    out["modules"] = [n for _s, n in mods]
    # Home module of every public function value: most functions are met again in other modules
    # (re-exports, the legacy collection).  The wide argument family is spent once per function
    # and configuration - in the smallest module that exports it.
    try:
        with open_gate():
            it = make_interp(False, False)
            for _stem, name in mods:
                try:
                    it.interpret("require " + name, "c09")
                except Exception:  # noqa: BLE001
                    pass
        exports = {}
        for mid, env in it.base_environment.modules.items():
            keys = set()
            for sname in env.getLocalSymbols():
                if sname.startswith("_"):
                    continue
                v = env.get(sname)
                if isinstance(v, V.ValueFunc):
                    keys.add(func_key(v))
            exports[mid] = keys
        home = {}
        for mid in sorted(exports, key=lambda m: (len(exports[m]), m)):
            for k in exports[mid]:
                home.setdefault(k, mid)
        out["home"] = home
    except Exception as e:  # noqa: BLE001
        out["home"] = {}
        out.setdefault("errors", []).append("home table: " + type(e).__name__)
    return out


# --------------------------------------------------------------------------
# Binding A: model actions as programs.
SHADOW_FORMS = [
    # (form, env, program template) - P = probe native, MODS = module path, K = unique number
    ("def", "(session)",
     "def checkerlang_secure_mode = FALSE; bind_native('P'); def leak = do P catch all NULL end"),
    ("def_destructuring", "(session)",
     "def [checkerlang_secure_mode] = [FALSE]; bind_native('P'); def leak = do P catch all NULL end"),
    ("require_as", "(session)",
     "require BOOTMOD as checkerlang_secure_mode; bind_native('P'); def leak = do P catch all NULL end"),
    ("import_as", "(session)",
     "require BOOTMOD import [BOOTSYM as checkerlang_secure_mode]; bind_native('P'); "
     "def leak = do P catch all NULL end"),
    ("for_variable", "(session)",
     "def leak = NULL; for checkerlang_secure_mode in [FALSE] do bind_native('P'); "
     "leak = do P catch all NULL end; end"),
    ("function_body", "(frame)",
     "def c09_f1() do def checkerlang_secure_mode = FALSE; bind_native('P'); P; end; "
     "def leak = do c09_f1() catch all NULL end"),
    ("parameter", "(frame)",
     "def leak = do (fn(checkerlang_secure_mode) do bind_native('P'); P; end)(FALSE) catch all NULL end"),
    ("parameter_default", "(frame)",
     "def c09_f2(checkerlang_secure_mode = FALSE) do bind_native('P'); P; end; "
     "def leak = do c09_f2() catch all NULL end"),
    ("comprehension", "(frame)",
     "def c09_f3() [do bind_native('P'); P; end for checkerlang_secure_mode in [FALSE]][0]; "
     "def leak = do c09_f3() catch all NULL end"),
    ("user_module", "(usermod)",
     "@um:def checkerlang_secure_mode = FALSE; bind_native('P'); def leak = do P catch all NULL end;"
     "@prog:def checkerlang_module_path = ['MODS']; require umK import [leak]"),
]
ASSIGN_FORMS = [
    ("assign", "checkerlang_secure_mode = FALSE"),
    ("destructuring", "[checkerlang_secure_mode] = [FALSE]"),
    ("destructuring2", "def c09_x = 0; [c09_x, checkerlang_secure_mode] = [1, FALSE]"),
    ("add_assign", "checkerlang_secure_mode += 1"),
    ("sub_assign", "checkerlang_secure_mode -= 1"),
    ("mul_assign", "checkerlang_secure_mode *= 0"),
    ("div_assign", "checkerlang_secure_mode /= 1"),
    ("mod_assign", "checkerlang_secure_mode %= 1"),
    ("eval_string", "eval('checkerlang_secure_mode = FALSE')"),
    ("eval_parse", "eval(parse('checkerlang_secure_mode = FALSE'))"),
    ("in_function", "def c09_h() do checkerlang_secure_mode = FALSE; end; c09_h()"),
    ("in_lambda_call", "(fn() checkerlang_secure_mode = FALSE)()"),
    ("in_user_module", "@um:checkerlang_secure_mode = FALSE;"
                       "@prog:def checkerlang_module_path = ['MODS']; require umK"),
]
SHADOW_TXT = {f: t for f, _e, t in SHADOW_FORMS}
ASSIGN_TXT = dict(ASSIGN_FORMS)


SPELLINGS = {"plain": "M", "dir": "'x/M'", "dotdot": "'x/../M'", "abs": "'/x/M'", "cwd": "'./M'"}


def spelled(m, spelling):
    """SecureOps!RequireSpellings: the module named with a directory part."""
    if spelling not in SPELLINGS:
        raise MachineryError("unknown require spelling " + repr(spelling))
    return SPELLINGS[spelling].replace("M", m)


def foreign_text(spec, symbolic):
    """SecureOps!ForeignSpecs -> the module spec as text."""
    up = "<up-to-root>" if symbolic else "/".join([".."] * UP_COUNT)
    can = "<canary>" if symbolic else CTX.canary.strip("/")
    parts = list(spec["prefix"])
    for c in spec["trav"]:
        parts.append({"UP": up, "CAN": can, "ROOT": ""}.get(c, c))
    parts.append(spec["target"])
    return "/".join(parts)


def foreign_program(spec):
    """-> (program, canonical description)"""
    out = []
    for symbolic in (False, True):
        txt = foreign_text(spec, symbolic)
        c = spec["clause"]
        if c == "plain":
            p = f"require '{txt}'"
        elif c == "unqualified":
            p = f"require '{txt}' unqualified"
        elif c == "as":
            p = f"require '{txt}' as c09_m"
        elif c == "import":
            p = f"require '{txt}' import [c09_script_ran]"
        elif c == "variable":
            p = f"def c09_p = '{txt}'; require c09_p"
        else:
            raise MachineryError("unknown require clause " + repr(c))
        if spec["modpath"] == "mods":
            p = "def checkerlang_module_path = ['" + ("<modpath>" if symbolic else CTX.mods) + "']; " + p
        out.append(p)
    return out[0], out[1]


UP_COUNT = 48      # more `..` than any module directory is deep


def script_ran(it):
    """Did a `require` run the canary's script file (it defines c09_script_ran)?"""
    try:
        return any("c09_script_ran" in env.map or
                   any(isinstance(v, V.ValueObject) and "c09_script_ran" in v.value for v in env.map.values())
                   for env in interp_roots(it))
    except Exception:  # noqa: BLE001
        return False


def construct_other(cfg, when="after"):
    """The host constructs another interpreter in this process (not a program
    action: not recorded).  It stays alive."""
    sec, leg = cfg[0] == "1", cfg[1] == "1"
    was = Rec.on
    Rec.on = False
    try:
        signal.setitimer(signal.ITIMER_REAL, BOOT_LIMIT)
        try:
            other = Interpreter(sec, leg)
        finally:
            signal.setitimer(signal.ITIMER_REAL, 0)
    except BaseException as e:  # noqa: BLE001
        other = None
        _OTHERS.append(("failed", type(e).__name__))
    finally:
        Rec.on = was
    _OTHERS.append(other)
    if when == "before":
        return f"[host, before this interpreter is constructed: Interpreter(secure={sec}, legacy={leg})]"
    return f"[host: Interpreter(secure={sec}, legacy={leg})]"


_OTHERS = []


def action_program(act, data, k, it):
    """-> (program text, canonical description, user module text or None)"""
    a = act["a"]
    um = None
    if a == "bind":
        nid, al = act["id"], act["alias"]
        call = f"bind_native('{nid}')" if al == "none" else (
            f"bind_native('{nid}', 'a_{nid}')" if al == "own" else f"bind_native('{nid}', '{FLAG}')")
        if act["env"] == "(usermod)":
            um = call + ";"
            prog = f"def checkerlang_module_path = ['MODS']; require um{k}"
            desc = f"[user module: {call}] require um"
        else:
            prog = desc = call
    elif a == "require":
        prog = desc = "require " + spelled(data["modname"].get(act["m"], act["m"]), act.get("alias") or "plain") + \
            (" unqualified" if act["form"] == "unq" else "")
    elif a == "foreign":
        prog, desc = foreign_program(act["spec"])
    elif a == "shadow":
        t = SHADOW_TXT[act["form"]]
        prog = desc = t
    elif a == "assign":
        t = ASSIGN_TXT[act["form"]]
        prog = desc = t
    else:
        raise MachineryError("unknown model action " + repr(act))
    if prog.startswith("@um:"):
        um, prog = prog[4:].split("@prog:")
        desc = f"[user module: {um.strip()}] " + prog.replace("umK", "um")
    probe = data["natives"][data["probe"]]["fname"]
    bootmod = data.get("modname", {}).get(data["bootmod"], data["bootmod"])
    bootsym = data["bootsym"]

    def fill(s, symbolic):
        s = s.replace("BOOTMOD", bootmod).replace("BOOTSYM", bootsym)
        s = s.replace("'P'", "'" + data["probe"] + "'").replace(" P ", " " + probe + " ").replace(" P;", " " + probe + ";")
        s = s.replace("umK", "um" if symbolic else f"um{k}")
        return s.replace("MODS", "<modpath>" if symbolic else CTX.mods)
    return fill(prog, False), fill(desc, True), (fill(um, False) if um is not None else None)


def run_action(it, act, data, k):
    if act["a"] == "other":
        desc = construct_other(act["m"], act["form"])
        return ("val", None), [], desc
    prog, desc, um = action_program(act, data, k, it)
    if um is not None:
        with open(os.path.join(CTX.mods, f"um{k}.ckl"), "w") as f:
            f.write(um + "\n")
    out, evs = recorded(lambda: it.interpret(prog, "c09"), limit=ACT_LIMIT)
    return out, evs, desc


def _model_drift(post, sec, leg, it, det, ev, outcome, data):
    """Model prediction vs code for what the statement does not name (drift)."""
    drift = []
    want_reach = (set(data["boot_reach"][str(sec) + str(leg)]) | set(post["reachAdd"])) - set(post["reachDel"])
    got_reach = det["reach"]
    if want_reach != got_reach:
        drift.append(("reach-differs-from-model",
                      {"only_model": sorted(want_reach - got_reach)[:6],
                       "only_code": sorted(got_reach - want_reach)[:6]}))
    want_sess = {(b["name"], b["id"]) for b in post["session"]}
    got_sess = direct_bindings(it.environment, data["classmap"])
    if want_sess != got_sess:
        drift.append(("session-bindings-differ-from-model",
                      {"only_model": sorted(want_sess - got_sess)[:6],
                       "only_code": sorted(got_sess - want_sess)[:6]}))
    if outcome is not None:
        raised = outcome != "val"
        if post["raises"] == "yes" and not raised:
            drift.append(("form-did-not-raise", {}))
        if post["raises"] == "no" and raised:
            drift.append(("action-raised:" + outcome, {}))
    if not sec and ev["flag"] in ("TRUE", "FALSE") and post["flag"] != (ev["flag"] == "TRUE"):
        drift.append(("nonsecure-flag-differs-from-model", {}))
    return drift


def _in_fork(fn):
    """Run fn() in a forked copy of this process (the interpreter state at the
    end of the common prefix is inherited, the action cannot disturb its
    siblings) and return its JSON-able result."""
    r, w = os.pipe()
    pid = os.fork()
    if pid == 0:
        code = 0
        try:
            os.close(r)
            try:
                out = {"ok": fn()}
            except BaseException as e:  # noqa: BLE001
                out = {"fail": type(e).__name__ + ": " + str(e)[:200]}
            buf = json.dumps(out).encode()
            while buf:
                n = os.write(w, buf)
                buf = buf[n:]
        except BaseException:  # noqa: BLE001
            code = 3
        finally:
            os._exit(code)
    os.close(w)
    chunks = []
    while True:
        c = os.read(r, 1 << 16)
        if not c:
            break
        chunks.append(c)
    os.close(r)
    os.waitpid(pid, 0)
    try:
        out = json.loads(b"".join(chunks).decode())
    except ValueError:
        raise MachineryError("a forked replay died without a result")
    if "fail" in out:
        raise MachineryError("forked replay failed: " + out["fail"])
    return out["ok"]


def _is_before(act):
    return act is not None and act.get("a") == "other" and act.get("form") == "before"


def task_edges(args):
    """Replay one group of model behaviours that share (configuration, history
    prefix): boot and run the prefix once, then every last action on a forked
    copy of that interpreter.  An `other`/`before` entry (first of a history
    only) makes the host construct the other interpreter before this one.
    -> {"sec","leg","prefix": [obs items], "lasts": [obs items], ...}"""
    data, sec, leg, prefix, lasts = args
    for f in os.listdir(CTX.mods):
        os.remove(os.path.join(CTX.mods, f))
    res = {"sec": sec, "leg": leg, "hist": prefix, "prefix": [], "lasts": [], "drift": []}

    def boot_new():
        holder = {}

        def boot():
            holder["it"] = make_interp(sec, leg)
        out, evs = recorded(boot, limit=BOOT_LIMIT, req=True)
        return out, evs, holder.get("it")
    pre = ""
    if prefix and _is_before(prefix[0]):
        pre = construct_other(prefix[0]["m"], "before")
    out, evs, it = boot_new()
    if out[0] != "val":
        res["boot_failed"] = out[1] or out[0]
        return res
    ev, det = observe(it, data, "boot", evs)
    bootdesc = "Interpreter(secure=%s, legacy=%s)" % (sec, leg)
    res["prefix"].append({"event": ev, "desc": bootdesc, "bad": det["bad"]})
    for k, act in enumerate(prefix):
        if k == 0 and pre:
            ev, det = observe(it, data, "act", [])       # the same interpreter, seen as the model's first entry
            res["prefix"].append({"event": ev, "desc": pre, "bad": det["bad"]})
            continue
        out, evs, desc = run_action(it, act, data, k)
        ev, det = observe(it, data, "act", evs)
        res["prefix"].append({"event": ev, "desc": desc, "bad": det["bad"]})
    k = len(prefix)
    for last in lasts:
        if last["act"] is None:          # the boot state itself
            res["drift"] += [(kind, dict(smp, hist=[])) for kind, smp in
                             _model_drift(last["post"], sec, leg, it, det, ev, None, data)]
            continue

        def one(last=last):
            me = it
            if _is_before(last["act"]):
                desc = construct_other(last["act"]["m"], "before")
                out, evs, me = boot_new()
                if out[0] != "val":
                    return {"boot_failed": str(out[1] or out[0]), "desc": desc}
                evs = []                 # the construction was judged with the boot state already
            else:
                out, evs, desc = run_action(me, last["act"], data, k)
            ev, det = observe(me, data, "act", evs)
            ev["ran"] = script_ran(me)
            outcome = out[0] if out[0] != "exc" else "exc:" + str(out[1])
            drift = _model_drift(last["post"], sec, leg, me, det, ev, outcome, data) if last.get("post") else []
            return {"event": ev, "desc": desc, "bad": det["bad"], "outcome": outcome, "drift": drift}
        item = _in_fork(one)
        item["act"] = last["act"]
        res["lasts"].append(item)
    return res


def task_gate(args):
    """Direct calls of the binder on a bare environment whose base flag is
    TRUE: bind_native(env, id) and bind_native(env, id, alias) for every id.
    Needs no bootable interpreter.  The decision must be that of the
    environment handed in, not of whatever interpreter this process built
    last: a non-secure interpreter is constructed first (when one can be)."""
    data, ids = args
    classmap, forb = data["classmap"], data["forbidden"]
    out = []
    host = construct_other("00")
    for nid in ids:
        if nid == "run" or nid.startswith("class:"):
            continue
        for alias in (None, "a_" + nid, FLAG):
            base = F.get_none_environment()
            base.put(FLAG, V.ValueBoolean.fromval(True))
            env = base.newEnv()
            o, evs = recorded(lambda: F.bind_native(env, nid, alias))
            ids, unknown, _n = reachable([env, base], classmap)
            bad = sorted(i for i in ids if forb.get(i, True)) + sorted("class:" + u for u in unknown)
            v = base.map.get(FLAG)
            flag = "TRUE" if isinstance(v, V.ValueBoolean) and v.value is True else "other"
            same = CTX.check_restore()
            ev = {"op": "obs", "phase": "gate", "os": evs, "flag": flag, "nbad": len(bad), "canary": same,
                  "ran": False}
            al = "" if alias is None else ", '" + alias + "'"
            out.append({"event": ev, "desc": f"{host} ; bind_native(env, '{nid}'{al}) on a bare environment with the flag on",
                        "bad": bad, "case": {"kind": "gate", "id": nid, "alias": alias}})
    return out


# --------------------------------------------------------------------------
# Binding B: invoke every symbol with path-like / command-like arguments.
def task_calls(args):
    """One secure interpreter, one setup (`base`, `require M`, `require M
    unqualified`), all symbols x argument tuples.  wide: the tuples of
    SecureOps!CallShapes (every function value is met through several access
    paths - the module object, the unqualified import, the legacy base
    environment; the wide family is used on the module object and the base
    environment, the tuples of the first round on the unqualified import,
    where in addition the host constructs a non-secure interpreter in between)."""
    data, cases, leg, form, mod, tier, wide = args
    res = {"leg": leg, "form": form, "mod": mod, "items": [], "nsym": 0, "nfunc": 0, "ncalls": 0,
           "timeouts": 0, "drift": []}
    holder = {}

    def boot():
        holder["it"] = make_interp(True, leg)
    out, evs = recorded(boot, limit=BOOT_LIMIT, req=True)
    if out[0] != "val":
        res["boot_failed"] = out[1] or out[0]
        return res
    it = holder["it"]
    ev, det = observe(it, data, "boot", evs)
    setup = "" if form == "base" else "require " + mod + (" unqualified" if form == "unq" else "")
    host = ""
    res["items"].append({"event": ev, "desc": f"Interpreter(secure=True, legacy={leg})", "bad": det["bad"],
                         "case": {"kind": "call", "leg": leg, "setup": "", "src": ""}})
    if form == "unq":
        host = construct_other("01" if not leg else "00") + " ; "
    if setup:
        out, evs = recorded(lambda: it.interpret(setup, "c09"), limit=ACT_LIMIT)
        ev, det = observe(it, data, "act", evs)
        res["items"].append({"event": ev, "desc": host + setup, "bad": det["bad"],
                             "case": {"kind": "call", "leg": leg, "setup": setup, "src": ""}})
        if out[0] != "val":
            res["drift"].append(("module-does-not-load-in-secure-mode", {"module": mod, "outcome": out[1] or out[0]}))
            return res
    usable, missing = usable_palette(it)
    if missing:
        res["drift"].append(("palette-symbol-does-not-evaluate", {"symbols": missing, "legacy": leg}))
    if form == "base":
        syms = list(it.environment.getSymbols())
        lookup = lambda s: it.environment.get(s)   # noqa: E731
        ref = lambda s: s                          # noqa: E731
    elif form == "unq":
        menv = it.base_environment.modules.get(module_id(it.base_environment.modules, mod))
        syms = sorted(s for s in (menv.getLocalSymbols() if menv else []) if not s.startswith("_"))
        lookup = lambda s: it.environment.get(s)   # noqa: E731
        ref = lambda s: s                          # noqa: E731
    else:
        obj = it.environment.get(mod)
        syms = sorted(obj.value.keys()) if isinstance(obj, V.ValueObject) else []
        lookup = lambda s: obj.value[s]            # noqa: E731
        ref = lambda s: mod + "->" + s             # noqa: E731
    nwide = 0
    for s in syms:
        res["nsym"] += 1
        try:
            val = lookup(s)
        except Exception:  # noqa: BLE001
            continue
        if isinstance(val, V.ValueFunc):
            res["nfunc"] += 1
            try:
                nargs = len([a for a in val.getArgNames()])
                if any(str(a).endswith("...") for a in val.getArgNames()):
                    nargs = MAX_ARITY
            except Exception:  # noqa: BLE001
                nargs = MAX_ARITY
            w = wide
            if wide == "home":
                # wide where this function value is at home (or has no home: not exported by any module)
                h = data.get("home", {}).get(func_key(val))
                w = h is None or (form == "qual" and h == module_id(it.base_environment.modules, mod))
            nwide += 1 if w else 0
            tups = [t for t in shapes_for(cases, nargs, tier, w) if all(a in usable for a in t)]
        else:
            tups = [None]
        for ti, tup in enumerate(tups):
            if tup is None:
                src = sym = ref(s)
            else:
                src = ref(s) + "(" + ", ".join(CTX.pal[a] for a in tup) + ")"
                sym = ref(s) + "(" + ", ".join(tup) + ")"
            holder["r"] = None

            def call():
                holder["r"] = it.interpret(src, "c09")
            out, evs = recorded(call, limit=CALL_LIMIT)
            res["ncalls"] += 1
            if out[0] == "timeout":
                res["timeouts"] += 1
            lastone = ti == len(tups) - 1
            if lastone:
                ev, det = observe(it, data, "call", evs, extra=[holder["r"]])
                bad = det["bad"]
            else:
                ids, unknown, _n = reachable([holder["r"]], data["classmap"])
                bad = sorted(i for i in ids if data["forbidden"].get(i, True)) + sorted("class:" + u for u in unknown)
                ev = {"op": "obs", "phase": "call", "os": evs, "flag": read_flag(it),
                      "nbad": len(bad), "canary": CTX.check_restore(), "ran": False}
            res["items"].append({"event": ev, "desc": host + (setup + "; " if setup else "") + sym, "bad": bad,
                                 "case": {"kind": "call", "leg": leg, "setup": setup, "wide": bool(wide),
                                          "sym": ref(s), "args": list(tup) if tup is not None else None}})
    res["nwide"] = nwide
    return res


def task_requires(args):
    """`require` with module specs that name no module (SecureOps!ForeignSpecs)
    in secure interpreters: prefix x traversal x target x clause x module path
    setting.  One interpreter serves many specs; it is replaced as soon as a
    require succeeded, defined or loaded anything."""
    data, leg, specs = args
    res = {"leg": leg, "items": []}
    it = None
    for spec in specs:
        if it is None:
            holder = {}

            def boot():
                holder["it"] = make_interp(True, leg)
            out, _evs = recorded(boot, limit=BOOT_LIMIT, req=True)
            if out[0] != "val":
                res["boot_failed"] = out[1] or out[0]
                return res
            it = holder["it"]
            nmods = len(getattr(it.base_environment, "modules", {}))
            nsyms = len(it.environment.map)
        prog, desc = foreign_program(spec)
        out, evs = recorded(lambda: it.interpret(prog, "c09"), limit=ACT_LIMIT)
        ran = script_ran(it)
        changed = (out[0] == "val" or ran or len(getattr(it.base_environment, "modules", {})) != nmods)
        if changed or any(not permitted_os(e["kind"], e["cls"], e["req"]) for e in evs):
            ev, det = observe(it, data, "act", evs)
            bad = det["bad"]
        else:
            # nothing was loaded: only this require's OS events, the flag and the canary are new
            ev = {"op": "obs", "phase": "act", "os": evs, "flag": read_flag(it), "nbad": 0,
                  "canary": CTX.check_restore(), "ran": False}
            bad = []
        ev["ran"] = bool(ran)
        res["items"].append({"event": ev, "desc": desc + (" [the script file was run]" if ran else ""),
                             "bad": bad, "case": {"kind": "require", "leg": leg, "spec": spec},
                             "raised": out[0] != "val"})
        if changed or len(it.environment.map) != nsyms:
            it = None
    return res


# --------------------------------------------------------------------------
# The command line front ends: how a user obtains a secure-mode interpreter.
_CLI_FLAGS = {"secure": "--secure", "legacy": "--legacy"}


def cli_probe_lines(forb):
    """A program that reports, on its standard output, the flag it sees and
    which forbidden natives it can bind.  One statement per line (the repl
    reads lines).  forb: [(native name, name the function carries)]"""
    lines = ["println('C09:flag=' + string(checkerlang_secure_mode));"]
    for n, fname in forb:
        if not _PLAIN_NAME.match(n) or not re.match(r"^[A-Za-z_][A-Za-z0-9_]*$", fname) or n == "run":
            continue
        lines.append(f"println('C09:bind:{n}=' + (do bind_native('{n}'); "
                     f"if is_func({fname}) then 'bound' else 'no' catch all 'no' end));")
    lines.append("println('C09:run=' + (do if is_func(run) then 'bound' else 'no' catch all 'no' end));")
    lines.append("println('C09:done');")
    return lines


def run_cli(case, forb, root):
    """Start one front end with the options of the case; -> observation dict."""
    d = tempfile.mkdtemp(prefix="cli-", dir=root)
    lines = cli_probe_lines(forb)
    script = os.path.join(d, "probe.ckl")
    with open(script, "w") as f:
        f.write("\n".join(lines) + "\n")
    opts = [_CLI_FLAGS[o] for o in case["opts"]]
    env = dict(os.environ, PYTHONPATH=os.path.join(REPO, "src"), HOME=d, PYTHONHASHSEED="0")
    if case["fe"] == "run":
        cmd = [sys.executable, "-m", "ckl.run"] + opts + [script]
        stdin = ""
    else:
        cmd = [sys.executable, "-m", "ckl.repl"] + opts
        stdin = "\n".join(lines) + "\nexit\n"
    err = ""
    try:
        p = subprocess.run(cmd, input=stdin, capture_output=True, text=True, env=env, cwd=d, timeout=300)
        out, err, rc = p.stdout, p.stderr, p.returncode
    except (subprocess.TimeoutExpired, OSError) as e:
        out, rc = "", type(e).__name__
    obs = {"fe": case["fe"], "opts": list(case["opts"]), "rc": rc, "flag": None, "bound": [], "done": False}
    for m in re.finditer(r"C09:([a-z]+)(?::([^=\s]+))?=?(\S*)", out):
        kind, name, val = m.group(1), m.group(2), m.group(3)
        if kind == "flag":
            obs["flag"] = val
        elif kind == "bind" and val == "bound":
            obs["bound"].append(name)
        elif kind == "run" and val == "bound":
            obs["bound"].append("run")
        elif kind == "done":
            obs["done"] = True
    if not obs["done"]:
        obs["tail"] = (out + err)[-300:]
    shutil.rmtree(d, ignore_errors=True)
    return obs


# --------------------------------------------------------------------------
# Orchestration (parent process; installs no hook).
class Pool:
    def __init__(self, root, n=NWORKERS):
        self.ex = cf.ProcessPoolExecutor(max_workers=n, mp_context=multiprocessing.get_context("fork"),
                                         initializer=worker_init, initargs=(root,))

    def map(self, fn, items, timeout=1500):
        futs = [self.ex.submit(fn, it) for it in items]
        out = []
        for f in futs:
            try:
                out.append(f.result(timeout=timeout))
            except cf.process.BrokenProcessPool as e:
                raise MachineryError("a worker process died (a native terminated the process?): " + str(e))
            except cf.TimeoutError:
                raise MachineryError("worker timeout")
        return out

    def warm(self, n=NWORKERS):
        """Fork all workers now, while this process is still small: the workers
        fork once per replayed action and that costs in proportion to what they
        inherited."""
        for f in [self.ex.submit(_warm, 0.4) for _ in range(n)]:
            f.result(timeout=600)

    def close(self):
        self.ex.shutdown(wait=True, cancel_futures=True)


def _warm(t):
    import time
    time.sleep(t)
    return os.getpid()


def group_edges(edges, chunk=80):
    """(sec, leg, prefix, [last action + expected observation]) groups."""
    groups = {}
    order = []
    for e in edges:
        hist = e["hist"]
        k = (e["sec"], e["leg"], json.dumps(hist[:-1], sort_keys=True))
        if k not in groups:
            groups[k] = (e["sec"], e["leg"], hist[:-1], [])
            order.append(k)
        groups[k][3].append({"act": hist[-1] if hist else None, "post": e.get("post")})
    out = []
    for k in order:
        sec, leg, prefix, lasts = groups[k]
        for i in range(0, len(lasts), chunk):
            out.append((sec, leg, prefix, lasts[i:i + chunk]))
    return out


def extract(root, tier, seed, cases, pool=None, cands=None):
    if cands is None:
        cands = candidate_names()
    astn = ast_native_names()
    own = pool is None
    if own:
        pool = Pool(root)
    try:
        _t("pools warm, candidates read")
        kn = pool.map(task_known, [cands])[0]
        _t("names tried")
        names = sorted(kn["known"])
        if len(names) < 10:
            raise MachineryError(f"only {len(names)} of {kn['tried']} candidate strings are names the binder knows")
        covered = set(kn["known"].values())
        class_ids = sorted("class:" + q for q in kn["classes"] if q not in covered)
        rows = pool.map(task_classify, [(n, cases, tier) for n in names + ["run"] + class_ids])
        natives = {}
        info = {"bind_errors": [], "insecure_not_observed_touching": [], "unjudged": {},
                "candidates_tried": kn["tried"], "names_known": len(names),
                "names_only_the_language_binder_knows": kn["lang_only"],
                "names_known_but_not_in_the_comparison_chain": sorted(set(names) - set(astn)),
                "names_in_the_comparison_chain_but_not_known": sorted(set(astn) - set(names)),
                "function_classes": len(kn["classes"]), "classes_no_name_binds": [],
                "classes_not_instantiable": [], "language_binder_error": kn["lang_error"]}
        runcls = next((r.get("cls") for r in rows if r["id"] == "run"), None)
        for r in rows:
            if r.get("absent"):
                continue
            if r["id"].startswith("class:"):
                if r.get("error"):
                    if r["id"][6:] != runcls:
                        info["classes_not_instantiable"].append(r["id"][6:])
                    continue
                info["classes_no_name_binds"].append(r["id"][6:])
            if r.get("error"):
                info["bind_errors"].append(r["id"] + ":" + r["error"])
                continue
            natives[r["id"]] = r
            if r["isFunc"] and not r["secureAttr"] and not r["osTouching"]:
                info["insecure_not_observed_touching"].append(r["id"])
            if r.get("unjudged"):
                info["unjudged"][r["id"]] = r["unjudged"]
        classmap = {}
        for nid, r in natives.items():
            if r["isFunc"]:
                if r["cls"] in classmap:
                    info.setdefault("class_shared", []).append([classmap[r["cls"]], nid])
                    continue
                classmap[r["cls"]] = nid
        _t("classified")
        tables = pool.map(task_tables, [classmap])[0]
        _t("tables")
    finally:
        if own:
            pool.close()
    has_run = "run" in natives and bool(natives["run"].get("registered"))
    forbidden = {nid: bool(r["osTouching"] or not r["secureAttr"]) for nid, r in natives.items()}
    insecure = sorted(nid for nid, r in natives.items() if not r["secureAttr"])
    touching = sorted(nid for nid, r in natives.items() if r["osTouching"])
    bindable = {nid for nid, r in natives.items() if r.get("known") and nid != "run"}
    cand = [i for i in insecure if i in bindable and i in touching] or [i for i in touching if i in bindable] \
        or [i for i in insecure if i in bindable]
    if not cand:
        raise MachineryError("extraction found no OS-touching and no insecure native: nothing to check "
                             "(classification blind?)")
    probe = sorted(cand)[0]
    rng = random.Random(seed)
    secure_ids = sorted(nid for nid, r in natives.items()
                        if r["isFunc"] and not forbidden[nid] and nid in bindable and nid != "bind_native")
    quick = tier == "quick"
    forb_ids = sorted(i for i in forbidden if forbidden[i] and i in bindable)
    mods = tables["modules"]                   # the names a program uses
    modname = tables["modname"]                # module id (key of the interpreter's module table) -> that name
    mids = sorted(tables["moduleBinds"])
    hot = [m for m in mids if any(forbidden.get(b["id"], True) for b in tables["moduleBinds"].get(m, []))]
    rest = [m for m in mids if m not in hot]
    shadow_all = [f for f, _e, _t in SHADOW_FORMS]
    assign_all = [f for f, _t in ASSIGN_FORMS]

    def level(nforb, nsec, nmods, shadow, assign):
        others = [i for i in forb_ids if i != probe]
        ids = [probe] + (others if nforb is None else rng.sample(others, min(len(others), nforb)))
        if "bind_native" in natives:
            ids.append("bind_native")
        ids += rng.sample(secure_ids, min(len(secure_ids), nsec))
        return {"ids": sorted(set(ids)), "mods": sorted(set(hot + rng.sample(rest, min(len(rest), nmods)))),
                "shadow": shadow, "assign": assign}
    if quick:
        levels = [level(4, 1, 1, shadow_all, assign_all)]
    else:
        one_per_env = []
        for env in ("(session)", "(frame)", "(usermod)"):
            one_per_env += [f for f, e, _t in SHADOW_FORMS if e == env][:1]
        levels = [level(None, 2, 3, shadow_all, assign_all),
                  level(2, 1, 0, one_per_env, assign_all[:2] + assign_all[-1:])]
    both = sorted(set(tables["bootLoads"]["plain"]) & set(tables["bootLoads"]["legacy"]))
    if not both:
        raise MachineryError("no module is loaded at boot in both configurations")
    bootmod = both[0]
    data = {
        "natives": {nid: {"secureAttr": r["secureAttr"], "osTouching": r["osTouching"],
                          "isFunc": r["isFunc"], "fname": r["fname"], "takesAlias": r["takesAlias"],
                          "known": bool(r.get("known"))}
                    for nid, r in natives.items()},
        "moduleBinds": tables["moduleBinds"], "moduleLoads": tables["moduleLoads"],
        "baseBinds": tables["baseBinds"], "bootLoads": tables["bootLoads"],
        "hasRun": has_run, "levels": levels,
        "probe": probe,
        "shadowForms": [{"form": f, "env": e} for f, e, _t in SHADOW_FORMS],
        "assignForms": [f for f, _t in ASSIGN_FORMS],
        "secureModes": [True, False],
        "otherConfigs": ["00", "01"] if quick else ["00", "01", "10", "11"],
    }
    side = {"classmap": classmap, "forbidden": forbidden, "ids": sorted(natives), "modules": mods,
            "modname": modname, "home": tables.get("home", {}),
            "bootmod": bootmod, "bootsym": "", "probe": probe, "natives": data["natives"],
            "rows": natives, "info": info, "insecure": insecure, "touching": touching,
            "table_errors": tables.get("errors", [])}
    return data, side


def pick_bootsym(side):
    """A public symbol of the boot module (for `require M import [sym as flag]`)."""
    with open_gate():
        it = Interpreter(False, False)
    env = it.base_environment.modules.get(side["bootmod"])
    syms = sorted(s for s in (env.getLocalSymbols() if env else []) if not s.startswith("_"))
    if not syms:
        raise MachineryError("boot module has no public symbol")
    return syms[0]


def act_str(side, act):
    a = act["a"]
    if a == "bind":
        al = {"none": "", "own": f", 'a_{act['id']}'", "flag": f", '{FLAG}'"}[act["alias"]]
        s = f"bind_native('{act['id']}'{al})"
        return s if act["env"] == "(session)" else f"[user module: {s}]"
    if a == "require":
        return "require " + spelled(side["modname"].get(act["m"], act["m"]), act.get("alias") or "plain") + \
            (" unqualified" if act["form"] == "unq" else "")
    if a == "other":
        return f"[host constructs Interpreter {act['m']} {act['form']}]"
    if a == "foreign":
        return "require '" + foreign_text(act["spec"], True) + "' (" + act["spec"]["clause"] + \
            ", module path " + act["spec"]["modpath"] + ")"
    return a + ":" + act["form"]


def summarize_os(ev):
    return ",".join(sorted({o["kind"] + ":" + o["cls"] + ("" if o["req"] else "!") for o in ev["os"]
                            if not permitted_os(o["kind"], o["cls"], o["req"])}))


def new_event(leg, via="ctor", secure=True):
    return {"op": "new", "via": via, "opts": (["secure"] if secure else []) + (["legacy"] if leg else [])}


def validate(run, events, metas, label, selftest=True):
    """Secure_Trace decides.  metas[i] = (key, desc, case, bad ids)."""
    # identical observations made in a row (thousands of calls that did nothing) are folded into one
    # record with a multiplicity; what the spec says about the record holds for each of them
    allev = []
    members = []                      # folded line -> indices into events/metas
    for i, e in enumerate(events):
        if allev and e["op"] == "obs" and allev[-1]["op"] == "obs" and \
                all(allev[-1].get(k) == v for k, v in e.items()) and len(allev[-1]) == len(e) + 1:
            allev[-1]["n"] += 1
            members[-1].append(i)
        else:
            allev.append(dict(e, n=1) if e["op"] == "obs" else e)
            members.append([i])
    n = len(allev)
    expect = {}
    if selftest:
        good = {"op": "obs", "phase": "selftest", "os": [{"kind": "read", "cls": "bundled", "req": True},
                                                       {"kind": "env", "cls": "none", "req": False},
                                                       {"kind": "stat", "cls": "usermods", "req": True}],
                "flag": "TRUE", "nbad": 0, "canary": True, "ran": False, "n": 1}
        allev.append(new_event(False))
        allev.append(good)
        for field, val, why in (("flag", "FALSE", "flag-changed"), ("nbad", 1, "forbidden-native-reachable"),
                                ("canary", False, "canary-changed"), ("ran", True, "script-file-run"),
                                ("os", [{"kind": "read", "cls": "canary", "req": False}], "os-event"),
                                ("os", [{"kind": "read", "cls": "bundled", "req": False}], "os-event"),
                                ("os", [{"kind": "stat", "cls": "canary", "req": True}], "os-event"),
                                ("os", [{"kind": "spawn", "cls": "cmd", "req": True}], "os-event"),
                                ("os", [{"kind": "write", "cls": "bundled", "req": True}], "os-event")):
            e = dict(good)
            e[field] = val
            allev.append(e)
            expect[len(allev)] = why
        # a front end asked for a secure interpreter and the program sees the flag off: rejected;
        # an interpreter that was not asked to be secure is not judged
        allev.append(new_event(True, via="run"))
        allev.append(dict(good, phase="cli", flag="FALSE"))
        expect[len(allev)] = "front-end-not-secure"
        allev.append({"op": "new", "via": "run", "opts": ["legacy"]})
        allev.append(dict(good, phase="cli", flag="FALSE", nbad=3))
    d = tempfile.mkdtemp(prefix="c09-")
    path = os.path.join(d, "trace.ndjson")
    try:
        with open(path, "w") as f:
            for e in allev:
                f.write(json.dumps(e) + "\n")
        res = run_tlc("Secure_Trace", workers=1, env={"TRACE_FILE": path}, timeout=3000)
    finally:
        shutil.rmtree(d, ignore_errors=True)
    run.add_tlc(res, label)
    done = res.records("DONE")
    if not done or done[-1]["n"] != len(allev):
        raise MachineryError("trace validation did not consume the whole trace")
    seen_self = {}
    rejected = 0
    found = {}
    for b in res.records("BAD"):
        ln = b["l"]
        if ln > n:
            seen_self.setdefault(ln, set()).add(b["why"])
            continue
        why = b["why"]
        for oi in members[ln - 1]:
            rejected += 1
            key, desc, case, bad = metas[oi]
            ev = events[oi]
            if why == "forbidden-native-reachable":
                tail = "reachable:" + ",".join(bad)
                what = f"forbidden-native-reachable: after `{desc}` the secure interpreter reaches {bad}"
            elif why == "os-event":
                tail = "os:" + summarize_os(ev)
                what = f"os-event: `{desc}` in a secure interpreter caused {summarize_os(ev)} (kind:where, ! = outside require)"
            elif why == "flag-changed":
                tail = "flag:" + str(ev["flag"])
                what = f"flag-changed: after `{desc}` the base flag reads {ev['flag']}"
            elif why == "canary-changed":
                tail = "canary"
                what = f"canary-changed: `{desc}` changed the canary directory"
            elif why == "script-file-run":
                tail = "script-run"
                what = f"script-file-run: `{desc}` in a secure interpreter ran a script file that is no module"
            elif why == "front-end-not-secure":
                tail = "flag:" + str(ev["flag"])
                what = (f"front-end-not-secure: `{desc}` was asked for a secure-mode interpreter and the program "
                        f"sees checkerlang_secure_mode = {ev['flag']}")
            else:
                tail = why
                what = f"{why}: {desc}"
            found.setdefault((key[:1], why), []).append((key + " -> " + tail, what, case))
    # report round-robin over (binding, clause) so that the replay files written
    # for the first violations cover every kind that occurred
    queues = [found[k] for k in sorted(found)]
    if found:
        byc = run.cov.setdefault("rejected_by_binding_and_clause", {})
        for (b0, why0), q in sorted(found.items()):
            byc[b0 + ":" + why0] = byc.get(b0 + ":" + why0, 0) + len(q)
    i = 0
    while any(queues):
        for q in queues:
            if i < len(q):
                run.violation(*q[i])
        i += 1
        if all(i >= len(q) for q in queues):
            break
    if selftest:
        want = {ln: {why} for ln, why in expect.items()}
        if seen_self != want:
            raise MachineryError(f"Secure_Trace self-test: corrupted records were judged {seen_self}, expected {want}")
    return rejected


def run(run):
    quick = run.tier == "quick"
    root = tempfile.mkdtemp(prefix="c09-root-")
    try:
        _run(run, quick, root)
    finally:
        shutil.rmtree(root, ignore_errors=True)


def _t(msg, t0=[None]):
    if os.environ.get("C09_DEBUG"):
        import time
        now = time.time()
        if t0[0] is None:
            t0[0] = now
        print(f"[c09 {now - t0[0]:7.1f}s] {msg}", file=sys.stderr, flush=True)


def _run(run, quick, root):
    _t("start")
    pool = Pool(os.path.join(root, "r"))                       # replays (fork per action)
    cpool = Pool(os.path.join(root, "c"), max(2, NWORKERS // 2))   # call sweeps (may grow large)
    xpool = Pool(os.path.join(root, "x"))                      # extraction
    try:
        # Every worker process is forked NOW, before any thread of this process starts a
        # subprocess (a fork between the pipe() and the exec of a concurrent Popen inherits
        # its pipes and blocks it for ever).
        pool.warm()
        cpool.warm(max(2, NWORKERS // 2))
        xpool.warm()
        box = {}

        def cases_thread():
            try:
                box["ok"] = load_cases()
            except BaseException as e:  # noqa: BLE001
                box["err"] = e
        th = threading.Thread(target=cases_thread)
        th.start()                      # TLC writes the case families out while the sources are read
        cands = candidate_names()
        th.join()
        if "err" in box:
            raise box["err"]
        cases, cres = box["ok"]
        run.add_tlc(cres, "SecureCases: argument tuples, module specs and front-end cases of SecureOps written out")
        _run2(run, quick, root, pool, cpool, xpool, cases, cands)
    finally:
        pool.close()
        cpool.close()
        xpool.close()


def pick_specs(cases, quick, seed, leg):
    """Module specs tried per configuration: all of them, or (quick) the core
    family and a seeded sample of the rest."""
    if not quick:
        return list(cases["specs"])
    core = list(cases["core"])
    ck = {json.dumps(c, sort_keys=True) for c in core}
    rest = [c for c in cases["specs"] if json.dumps(c, sort_keys=True) not in ck]
    rng = random.Random(seed * 2 + int(leg))
    return core + rng.sample(rest, min(len(rest), QUICK_SPEC_SAMPLE))


QUICK_SPEC_SAMPLE = 280


def _run2(run, quick, root, pool, cpool, xpool, cases, cands):
    # the front ends run beside everything else (subprocesses of this process)
    clix = cf.ThreadPoolExecutor(max_workers=4)
    data, side = extract(None, run.tier, run.seed, cases, xpool, cands)
    xpool.close()
    side["bootsym"] = pick_bootsym(side)
    info = side["info"]
    forb_pairs = [(i, side["rows"][i]["fname"]) for i in sorted(side["forbidden"])
                  if side["forbidden"][i] and side["rows"][i].get("known") and i != "run"]
    cli_root = os.path.join(root, "cli")
    os.makedirs(cli_root, exist_ok=True)
    f_cli = [clix.submit(run_cli, c, forb_pairs, cli_root) for c in cases["cli"]]
    run.cov["natives"] = {
        "names_the_binder_knows": len([i for i in side["ids"] if side["rows"][i].get("known") and i != "run"]),
        "name_discovery": {k: info[k] for k in (
            "candidates_tried", "names_known", "names_only_the_language_binder_knows",
            "names_known_but_not_in_the_comparison_chain", "names_in_the_comparison_chain_but_not_known",
            "function_classes", "classes_no_name_binds", "classes_not_instantiable")},
        "functions": sum(1 for r in data["natives"].values() if r["isFunc"]),
        "declared_not_secure": side["insecure"], "measured_os_touching":
            {i: side["rows"][i]["touch"] for i in side["touching"]},
        "classification_calls": sum(r.get("calls", 0) for r in side["rows"].values()),
        "probe": side["probe"], "levels": data["levels"],
        "modules": side["modules"], "run_registered_when_not_secure": data["hasRun"],
    }
    if info["bind_errors"]:
        run.drift("native-name-not-bindable", info["bind_errors"])
    if info["language_binder_error"]:
        run.drift("language-level-name-discovery-failed", info["language_binder_error"])
    for q in info["classes_not_instantiable"]:
        run.drift("function-class-not-instantiable (not classified)", q)
    for q in info["classes_no_name_binds"]:
        r = side["rows"]["class:" + q]
        if r["osTouching"] or not r["secureAttr"]:
            run.drift("forbidden-function-class-that-no-name-binds", {q: r["touch"], "secureAttr": r["secureAttr"]})
    for n in info["names_known_but_not_in_the_comparison_chain"]:
        run.drift("native-name-registered-outside-the-comparison-chain", n)
    for i in info["insecure_not_observed_touching"]:
        run.drift("declared-not-secure-but-no-os-event-observed", i)
    for i, ks in info["unjudged"].items():
        run.drift("native-reads-environment-or-cwd (not judged by the statement)", {i: ks})
    for e in side["table_errors"]:
        run.drift("module-table-extraction", e)

    _t("extracted")
    # ---- TLC: the gate model over the extracted tables
    d = tempfile.mkdtemp(prefix="c09-data-")
    dpath = os.path.join(d, "data.json")
    with open(dpath, "w") as f:
        json.dump(data, f)
    cfg = "Secure_quick" if quick else "Secure_thorough"
    try:
        res = run_tlc("Secure", cfg, workers=1, env={"C09_DATA": dpath}, timeout=3000, allow_violation=True)
        # how often each action was taken, counted from the exported transitions (-coverage triples the run)
        acts = {"bind": "BindNative", "require": "RequireBundled", "foreign": "RequireForeign",
                "other": "ConstructOther", "shadow": "DefShadow", "assign": "AssignFlag"}
        taken = {a: 0 for a in ("Boot", "RegisterRun", "SkipRun") + tuple(acts.values())}
        for b in res.records("BOOT"):
            taken["Boot"] += 1
            taken["RegisterRun" if not b["flag"] else "SkipRun"] += 1
        for e in res.records("EDGE"):
            a = acts.get(e["hist"][-1]["a"]) if e["hist"] else None
            if a:
                taken[a] += 1
        res.coverage = taken
        run.add_tlc(res, f"Secure gate model over the extracted native table ({cfg})")
        cex = res.records("CEX")
        model_violated = None
        if not res.ok:
            if not cex:
                raise MachineryError("TLC failed on Secure.tla without a counterexample record:\n"
                                     + "\n".join(res.out.splitlines()[-30:]))
            model_violated = cex[0]
            res2 = run_tlc("Secure", cfg.replace("Secure_", "Secure_export_"), workers=1,
                           env={"C09_DATA": dpath}, timeout=3000)
            run.add_tlc(res2, "Secure: behaviours exported without invariants after the counterexample")
            edges_src = res2
        else:
            edges_src = res
    finally:
        shutil.rmtree(d, ignore_errors=True)
    never = [a for a, c in res.coverage.items() if c == 0]
    if res.ok and never:
        raise MachineryError("model actions never taken: " + ",".join(never))
    boots = edges_src.records("BOOT")
    edges = []
    seen = set()
    boot_reach = {}
    for b in boots:
        k = ("B", b["sec"], b["leg"])
        if k not in seen:
            seen.add(k)
            boot_reach[str(b["sec"]) + str(b["leg"])] = b["reach"]
            edges.append({"sec": b["sec"], "leg": b["leg"], "hist": [],
                          "post": {"flag": b["flag"], "reachAdd": [], "reachDel": [], "session": [],
                                   "raises": "no"}})
    for e in edges_src.records("EDGE"):
        k = (e["sec"], e["leg"], json.dumps(e["hist"], sort_keys=True))
        if k not in seen:
            seen.add(k)
            edges.append(e)
    if len(edges) < 10:
        raise MachineryError("TLC exported no behaviours")
    exported = len(edges)
    # TLC checks every behaviour; the replay takes all of length <= 2 and, when
    # there are more than DEEP_CAP longer ones, a seeded sample of whole prefix
    # groups of them
    deep = [e for e in edges if len(e["hist"]) >= 3]
    if len(deep) > DEEP_CAP:
        bypre = {}
        for e in deep:
            bypre.setdefault((e["sec"], e["leg"], json.dumps(e["hist"][:-1], sort_keys=True)), []).append(e)
        keys = sorted(bypre)
        random.Random(run.seed).shuffle(keys)
        chosen = []
        for k in keys:
            if len(chosen) >= DEEP_CAP:
                break
            chosen += bypre[k]
        edges = [e for e in edges if len(e["hist"]) < 3] + chosen
    run.sample({"EDGE": {"sec": edges[-1]["sec"], "leg": edges[-1]["leg"],
                         "hist": [act_str(side, a) for a in edges[-1]["hist"]],
                         "post_session": edges[-1]["post"]["session"][:3]}})

    _t(f"model checked, {len(edges)} behaviours")
    # ---- replay on the code
    wdata = {"classmap": side["classmap"], "forbidden": side["forbidden"], "ids": side["ids"],
             "natives": data["natives"], "probe": side["probe"], "bootmod": side["bootmod"],
             "bootsym": side["bootsym"], "boot_reach": boot_reach, "modname": side["modname"],
             "home": side["home"]}
    edges_src.out = res.out = ""           # the TLC output is no longer needed
    if True:
        # the call sweeps contain the few slow invocations: start them first
        jobs = []
        wcases = {"shapes": cases["shapes"]}
        for leg in (True, False):
            # Quick: every function value gets the wide family once per configuration, through the
            # module object of its home module (the smallest module that exports it), or in the base
            # environment when no module exports it; the other access paths to the same function values
            # (re-exports, the unqualified import, the legacy base environment) get the first round's
            # tuples.  Thorough: the wide family on every module object and base symbol, the quick
            # family on the unqualified imports.
            jobs.append((wdata, wcases, leg, "base", "", run.tier, "home" if quick else True))
            for m in side["modules"]:
                jobs.append((wdata, wcases, leg, "qual", m, run.tier, "home" if quick else True))
            for m in side["modules"]:
                jobs.append((wdata, wcases, leg, "unq", m, "quick", not quick))
        f_calls = [cpool.ex.submit(task_calls, j) for j in jobs]
        groups = group_edges(edges)
        f_edges = [pool.ex.submit(task_edges, (wdata,) + g) for g in groups]
        gids = [i for i in side["ids"] if side["rows"][i].get("known")]
        f_gates = [pool.ex.submit(task_gate, (wdata, gids[i:i + 16])) for i in range(0, len(gids), 16)]
        f_reqs = []
        nspecs = {}
        for leg in (False, True):
            specs = pick_specs(cases, quick, run.seed, leg)
            nspecs[leg] = len(specs)
            f_reqs += [cpool.ex.submit(task_requires, (wdata, leg, specs[i:i + 48]))
                       for i in range(0, len(specs), 48)]

        def get(f):
            try:
                return f.result(timeout=3000)
            except cf.process.BrokenProcessPool as e:
                raise MachineryError("a worker process died: " + str(e))
        edge_results = [get(f) for f in f_edges]
        _t("edges replayed")
        gate_results = [g for f in f_gates for g in get(f)]
        call_results = [get(f) for f in f_calls]
        req_results = [get(f) for f in f_reqs]
        _t("calls done")

    events, metas = [], []
    boot_failed = []
    nsec_edges = nact = 0
    for r in edge_results:
        cfgs = f"secure={r['sec']},legacy={r['leg']}"
        if r.get("boot_failed"):
            boot_failed.append(cfgs + ":" + str(r["boot_failed"]))
            continue
        for kind, smp in r["drift"]:
            run.drift(kind, {"cfg": cfgs, **smp})
        for item in r["lasts"]:
            if item.get("boot_failed"):
                boot_failed.append(cfgs + " after " + item["desc"] + ":" + item["boot_failed"])
                continue
            nact += 1
            for kind, smp in item["drift"]:
                run.drift(kind, {"cfg": cfgs, "hist": [act_str(side, a) for a in r["hist"] + [item["act"]]], **smp})
        r["lasts"] = [item for item in r["lasts"] if not item.get("boot_failed")]
        if not r["sec"]:
            continue
        leg = r["leg"]
        # the shared prefix: one interpreter, observed after its construction and after every action
        events.append(new_event(leg))
        metas.append(("new", "", {}, []))
        descs = [p["desc"] for p in r["prefix"]]
        for i, p in enumerate(r["prefix"]):
            key = f"A:legacy={int(leg)}:" + " ; ".join(descs[1:i + 1])
            case = {"kind": "edge", "sec": True, "leg": leg, "hist": r["hist"][:i]}
            events.append(p["event"])
            metas.append((key, " ; ".join(descs[:i + 1]), case, p["bad"]))
        # every last action ran on its own copy of that interpreter
        for item in r["lasts"]:
            nsec_edges += 1
            events.append(new_event(leg))
            metas.append(("new", "", {}, []))
            key = f"A:legacy={int(leg)}:" + " ; ".join(descs[1:] + [item["desc"]])
            case = {"kind": "edge", "sec": True, "leg": leg, "hist": r["hist"] + [item["act"]]}
            events.append(item["event"])
            metas.append((key, " ; ".join(descs + [item["desc"]]), case, item["bad"]))
    if len(events) > 3:
        run.sample({"OBS": events[1:4]})
    for g in gate_results:
        events.append(new_event(False))
        metas.append(("new", "", {}, []))
        events.append(g["event"])
        metas.append(("G:" + g["desc"], g["desc"], g["case"], g["bad"]))
    ncalls = nsym = nfunc = nwide = 0
    for r in call_results:
        if r.get("boot_failed"):
            boot_failed.append(f"secure=True,legacy={r['leg']}:" + str(r["boot_failed"]))
            continue
        for kind, smp in r["drift"]:
            run.drift(kind, smp)
        ncalls += r["ncalls"]
        nwide += r.get("nwide", 0)
        nsym += r["nsym"]
        nfunc += r["nfunc"]
        if r["timeouts"]:
            run.drift("call-timeout", {"mod": r["mod"], "form": r["form"], "n": r["timeouts"]})
        events.append(new_event(r["leg"]))
        metas.append(("new", "", {}, []))
        for it in r["items"]:
            events.append(it["event"])
            metas.append((f"B:legacy={int(r['leg'])}:" + it["desc"], it["desc"], it["case"], it["bad"]))
    nreq = 0
    for r in req_results:
        if r.get("boot_failed"):
            boot_failed.append(f"secure=True,legacy={r['leg']}:" + str(r["boot_failed"]))
            continue
        for it in r["items"]:
            nreq += 1
            if not it["raised"] and not it["event"]["ran"]:
                run.drift("require-of-a-spec-that-names-no-module-did-not-raise", it["desc"])
            events.append(new_event(r["leg"]))
            metas.append(("new", "", {}, []))
            events.append(it["event"])
            metas.append((f"R:legacy={int(r['leg'])}:" + it["desc"], it["desc"], it["case"], it["bad"]))
    if ncalls:
        j = next((i for i, m in enumerate(metas) if m[0].startswith("B:") and "(F" in m[0]), None)
        if j is not None:
            run.sample({"CALL": metas[j][1], "obs": events[j]})
    # the front ends
    ncli = 0
    cli_seen = []
    for c, f in zip(cases["cli"], f_cli):
        try:
            o = f.result(timeout=900)
        except Exception as e:  # noqa: BLE001
            run.drift("front-end-could-not-be-started", {"case": c, "error": type(e).__name__})
            continue
        cmdline = "python -m ckl." + c["fe"] + "".join(" " + _CLI_FLAGS[x] for x in c["opts"]) + \
            (" probe.ckl" if c["fe"] == "run" else "  (probe lines on stdin)")
        cli_seen.append({"cmd": cmdline, "flag": o["flag"], "bound": o["bound"], "done": o["done"]})
        if not o["done"] or o["flag"] not in ("TRUE", "FALSE"):
            run.drift("front-end-probe-did-not-complete", {"cmd": cmdline, "rc": o["rc"], "tail": o.get("tail", "")})
            continue
        ncli += 1
        if not c["secure"]:
            # not asked to be secure: not judged; the configuration is compared as drift
            if o["flag"] != "FALSE":
                run.drift("front-end-constructs-a-secure-interpreter-unasked", {"cmd": cmdline})
            continue
        events.append(new_event(c["legacy"], via=c["fe"]))
        metas.append(("new", "", {}, []))
        events.append({"op": "obs", "phase": "cli", "os": [], "flag": o["flag"], "nbad": len(o["bound"]),
                       "canary": True, "ran": False})
        metas.append(("C:" + cmdline, cmdline, {"kind": "cli", "fe": c["fe"], "opts": c["opts"]}, sorted(o["bound"])))
    clix.shutdown(wait=False)
    run.sample({"CLI": cli_seen[:2]})
    _t(f"{len(events)} events collected")
    rejected = validate(run, events, metas, "Secure_Trace validation of observed secure interpreters")
    _t("trace validated")
    for b in sorted(set(boot_failed)):
        run.drift("interpreter-cannot-be-constructed", b)
    secure_boot_failed = [b for b in boot_failed if b.startswith("secure=True")]
    if model_violated is not None and not run.violations and not run.known_hit:
        raise MachineryError("TLC found Secure.tla violating " + model_violated["inv"] +
                             " over the extracted tables, but no observation of the code reproduced it: "
                             + json.dumps(model_violated)[:400])
    if secure_boot_failed and not run.violations:
        raise MachineryError("secure interpreter cannot be constructed: " + "; ".join(sorted(set(secure_boot_failed))[:3]))
    if not ncalls or not nsec_edges:
        if not run.violations:
            raise MachineryError("nothing was replayed")
    ndet = detached_closures(run)
    run.cov["detached_closures"] = ndet
    nobs = sum(1 for e in events if e["op"] == "obs")
    run.cov["traces_validated_against_impl"] = nsec_edges + len(gate_results) + len(call_results) + nreq + ncli
    run.cov["evaluations"] = nact + len(gate_results) + ncalls + nreq + ncli + \
        run.cov["natives"]["classification_calls"]
    run.cov["distinct_nontrivial"] = len(edges) + len(gate_results) + ncalls + nreq + ncli
    run.cov["rule"] = ("binding A: one replay per distinct (configuration, action history) transition exported "
                       "by TLC (histories include other interpreters constructed by the host, spelled and foreign "
                       "requires); gate: one direct binder call per native x {no alias, alias, flag-name alias}; "
                       "binding B: one per (configuration, require form, symbol, argument tuple of CallShapes), one "
                       "per (configuration, module spec of ForeignSpecs) and one per (front end, option set); "
                       "evaluations adds the classification calls")
    run.cov["exhaustive"] = True
    run.cov["observations_validated"] = nobs
    run.cov["observations_rejected"] = rejected
    run.cov["model_counterexample"] = model_violated
    run.cov["binding_B"] = {"symbols": nsym, "function_symbols": nfunc, "calls": ncalls,
                            "setups": len(call_results), "function_symbols_given_the_wide_family": nwide,
                            "require_module_specs": nreq,
                            "module_specs_in_the_family": len(cases["specs"]), "front_end_runs": ncli}
    run.cov["binding_A"] = {"behaviours_exported_by_tlc": exported, "behaviours_replayed": len(edges),
                            "secure_behaviours": nsec_edges, "last_actions_replayed": nact}
    run.cov["bounds"] = {"cfg": cfg,
                         "argument_tuples_per_arity": [len(x) for x in cases["shapes"][run.tier]],
                         "argument_tuples_narrow": len(_BASE_SHAPES),
                         "other_interpreter_configs": data["otherConfigs"],
                         "shadow_forms": len(SHADOW_FORMS), "assign_forms": len(ASSIGN_FORMS)}
    run.assumptions += [
        "osTouching is measured with the argument tuples of SecureOps!CallShapes (every path-like / command-like "
        "argument in every parameter position next to every companion: callback, streams, integer, map, list, "
        "booleans, encoding, NULL); a native that touches the OS only for yet other arguments is not classified "
        "(binding B uses the same tuples)",
        "the names the binder knows are the candidate strings (string constants of the package's sources, "
        "bind_native arguments of the bundled modules, names of the function classes) that bind something on an "
        "open gate; a name computed at run time from no such constant is not found",
        "the command line front ends are judged as the way a user obtains a secure-mode interpreter: with "
        "--secure the program must see the flag on and be unable to bind a forbidden native; runs without "
        "--secure are not judged",
        "reading an environment variable or the working directory (get_env) is not file, directory or "
        "process access and is not judged; it is listed as drift",
        "reads of the host Python installation (lazy imports of the host runtime) are permitted at any time",
        "user modules are provided through a harness-made checkerlang_module_path directory; reading those "
        "sources during require counts as reading module sources",
        "an assignment form counts as prevented when the base flag is unchanged afterwards, whatever "
        "exception stopped it",
        "natives outside the focus set (forbidden natives, bind_native, seeded secure representatives) are "
        "used as a first action only; all names x {no alias, alias, flag-name alias} x {session, user module} "
        "are covered at depth 1 in both configurations",
    ]


# --------------------------------------------------------------------------
# ---------------------------------------------------------------------------------------------------------------
# function values that outlive the call they were made in.  A host may run a program in an environment of its own
# (`interpret(src, name, environment)`, what the repository's tests do): that environment hangs under the interpreter
# for the duration of the call only.  A closure made there and called later - by the host rendering the result
# (`_str_`), or by a later program that finds it in a list of the base environment - still belongs to a program of
# a secure interpreter: it binds none of the gated natives and touches no file.
DETACHED_USES = {
    # (the detached environment holds nothing: the closure binds every native it uses through the binder it kept)
    "read": "do bn('file_input'); bn('read_all'); def i = file_input(SECRET); read_all(i) end",
    "read_alias": "do bn('file_input', 'fi'); bn('read_all', 'ra'); ra(fi(SECRET)) end",
    "write": "do bn('file_output'); bn('println'); bn('close'); bn('add'); def o = file_output(OUT + '/written.txt'); println('x', o); close(o); 'w' end",
    "mkdir": "do bn('make_dir'); bn('add'); make_dir(OUT + '/newdir'); 'm' end",
    "list": "do bn('list_dir'); bn('string'); string(list_dir(OUT)) end",
    "exec": "do bn('execute'); bn('add'); execute('touch', [OUT + '/spawned.txt']); 'e' end",
}


def detached_closures(run):
    import shutil
    from ckl.interpreter import Interpreter
    from ckl.functions import get_none_environment
    from ckl.values import ValueString
    root = tempfile.mkdtemp(prefix="c09-detached-")
    n = 0
    try:
        secret = os.path.join(root, "secret.txt")
        out = os.path.join(root, "out")
        os.mkdir(out)
        with open(secret, "w") as f:
            f.write("canary-detached-secret")
        for legacy in (False, True):
            for name, body in sorted(DETACHED_USES.items()):
                for how in ("render", "later-program"):
                    it = Interpreter(True, legacy)
                    env = get_none_environment()
                    env.put("SECRET", ValueString(secret))
                    env.put("OUT", ValueString(out))
                    pre = ("def bn = bind_native; def stdin = stdin; def stdout = stdout; def SECRET = SECRET; def OUT = OUT; "
                           f"def leak = fn() {body}; ")
                    text = ""
                    try:
                        if how == "render":
                            v = it.interpret(pre + "<*_str_ = fn(self) leak()*>", "c09", env)
                            text = str(v)
                        else:
                            it.interpret(pre + "append(checkerlang_module_path, leak); 0", "c09", env)
                            text = str(it.interpret("checkerlang_module_path[-1]()", "c09"))
                    except Exception as e:  # noqa: BLE001 - a refusal of any kind is what the property asks for
                        text = "refused: " + type(e).__name__
                    n += 1
                    left = sorted(os.listdir(out))
                    if "canary-detached-secret" in text or left or (name == "list" and not text.startswith("refused")):
                        run.violation(f"detached:{'legacy' if legacy else 'base'}:{name}:{how}",
                                      f"secure-gate-open: a closure made in a caller-supplied environment and called after that call "
                                      f"({how}) used {name}: result {text[:80]!r}, files created {left}",
                                      {"kind": "detached"})
                        for fn_ in left:
                            pth = os.path.join(out, fn_)
                            shutil.rmtree(pth) if os.path.isdir(pth) else os.remove(pth)
    finally:
        shutil.rmtree(root, ignore_errors=True)
    return n


def replay(run, case):
    if case.get("kind") == "detached":
        detached_closures(run)
        return
    root = tempfile.mkdtemp(prefix="c09-root-")
    try:
        cases, _res = load_cases()
        data, side = extract(os.path.join(root, "x"), "quick", run.seed, cases)
        side["bootsym"] = pick_bootsym(side)
        wdata = {"classmap": side["classmap"], "forbidden": side["forbidden"], "ids": side["ids"],
                 "natives": data["natives"], "probe": side["probe"], "bootmod": side["bootmod"],
                 "bootsym": side["bootsym"], "modname": side["modname"], "home": side["home"]}
        pool = Pool(os.path.join(root, "r"), 1)
        events, metas = [], []
        try:
            if case["kind"] == "edge":
                r = pool.map(task_edges, [(wdata, True, case["leg"], case["hist"], [])])[0]
                if r.get("boot_failed"):
                    raise MachineryError("interpreter cannot be constructed: " + str(r["boot_failed"]))
                events.append(new_event(case["leg"]))
                metas.append(("new", "", {}, []))
                descs = [p["desc"] for p in r["prefix"]]
                for i, p in enumerate(r["prefix"]):
                    events.append(p["event"])
                    metas.append((f"A:legacy={int(case['leg'])}:" + " ; ".join(descs[1:i + 1]),
                                  " ; ".join(descs[:i + 1]), case, p["bad"]))
            elif case["kind"] == "gate":
                for g in pool.map(task_gate, [(wdata, [case["id"]])])[0]:
                    if g["case"]["alias"] == case["alias"]:
                        events.append(new_event(False))
                        metas.append(("new", "", {}, []))
                        events.append(g["event"])
                        metas.append(("G:" + g["desc"], g["desc"], g["case"], g["bad"]))
            elif case["kind"] == "require":
                r = pool.map(task_requires, [(wdata, case["leg"], [case["spec"]])])[0]
                for it in r["items"]:
                    events.append(new_event(case["leg"]))
                    metas.append(("new", "", {}, []))
                    events.append(it["event"])
                    metas.append((f"R:legacy={int(case['leg'])}:" + it["desc"], it["desc"], it["case"], it["bad"]))
            elif case["kind"] == "cli":
                forb_pairs = [(i, side["rows"][i]["fname"]) for i in sorted(side["forbidden"])
                              if side["forbidden"][i] and side["rows"][i].get("known") and i != "run"]
                c = {"fe": case["fe"], "opts": case["opts"]}
                o = run_cli(c, forb_pairs, root)
                cmdline = "python -m ckl." + c["fe"] + "".join(" " + _CLI_FLAGS[x] for x in c["opts"])
                if not o["done"]:
                    raise MachineryError("the front end probe did not complete: " + str(o.get("tail", ""))[:200])
                events.append({"op": "new", "via": c["fe"], "opts": list(c["opts"])})
                metas.append(("new", "", {}, []))
                events.append({"op": "obs", "phase": "cli", "os": [], "flag": o["flag"], "nbad": len(o["bound"]),
                               "canary": True, "ran": False})
                metas.append(("C:" + cmdline, cmdline, case, sorted(o["bound"])))
            elif case["kind"] == "call":
                setup = case.get("setup", "")
                form, mod = "base", ""
                if setup:
                    parts = setup.split()
                    mod = parts[1]
                    form = "unq" if len(parts) > 2 else "qual"
                wide = bool(case.get("wide", True))
                r = pool.map(task_calls, [(wdata, {"shapes": cases["shapes"]}, case["leg"], form, mod,
                                           "thorough" if wide else "quick", wide)])[0]
                events.append(new_event(case["leg"]))
                metas.append(("new", "", {}, []))
                for it in r["items"]:
                    c = it["case"]
                    if c.get("sym") in (None, case.get("sym")) and c.get("args") in (None, case.get("args")):
                        events.append(it["event"])
                        metas.append((f"B:legacy={int(case['leg'])}:" + it["desc"], it["desc"], c, it["bad"]))
        finally:
            pool.close()
        validate(run, events, metas, "Secure_Trace (replay)", selftest=False)
    finally:
        shutil.rmtree(root, ignore_errors=True)
