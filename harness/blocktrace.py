"""C05, binding B: record what the real NodeBlock.evaluate does with every
do/catch/finally block and validate it with spec/Block_Trace.tla.

Nothing in /repo is changed: `ckl.parser.parse` is wrapped so that every tree
that leaves the parser (programs, the base library, bundled modules) gets its
NodeBlock nodes - and their statements, clause values, handlers and finally
statements - replaced by logging proxies.  The unmodified NodeBlock.evaluate
drives the proxies; one event per proxy call goes to the trace.
"""
import json
import os
import tempfile

from .common import import_ckl, MachineryError
from .tla import run_tlc

import_ckl()
import ckl.parser  # noqa: E402
import ckl.nodes as N  # noqa: E402
from ckl.errors import CklRuntimeError  # noqa: E402

EVENTS = []
_ACTIVE = {}        # id(block node) -> stack of running instance ids
_COUNTER = [0]
ENABLED = [False]


def _text(v):
    try:
        return (v.type() if hasattr(v, "type") else type(v).__name__) + ":" + str(v)[:60]
    except Exception:  # noqa: BLE001
        return "<unrenderable>"


def _outcome(r):
    if r.isReturn() or r.isBreak() or r.isContinue():
        return "sig"
    return "val"


class _Proxy:
    """stands for node n; looks like n to isinstance() and attribute access"""
    def __init__(self, n, block, kind, idx):
        object.__setattr__(self, "_n", n)
        object.__setattr__(self, "_b", block)
        object.__setattr__(self, "_k", kind)
        object.__setattr__(self, "_i", idx)

    @property
    def __class__(self):
        return type(self._n)

    def __getattr__(self, name):
        return getattr(self._n, name)

    def __setattr__(self, name, value):
        setattr(self._n, name, value)

    def __repr__(self):
        return repr(self._n)

    def evaluate(self, environment):
        if not ENABLED[0]:
            return self._n.evaluate(environment)
        b = _ACTIVE[id(self._b)][-1]
        k, i = self._k, self._i
        if k != "ctest":
            EVENTS.append({"e": k, "b": b, ("j" if k == "handler" else "i"): i})
        o, v = "val", ""
        try:
            r = self._n.evaluate(environment)
            if k == "ctest":
                v = _text(r)
            else:
                o = _outcome(r)
            return r
        except CklRuntimeError as e:
            o, v = "err", _text(e.value)
            raise
        except RecursionError:
            # NodeBlock.evaluate turns the exhausted host stack into the runtime error 'ERROR' ("Recursion too
            # deep") before it looks for a handler: from the block's point of view the statement raised that error
            o, v = "err", "string:ERROR"
            raise
        except BaseException:
            o = "sig"                      # a host exception passes the block like a signal (C13's subject)
            raise
        finally:
            if k == "ctest":
                EVENTS.append({"e": "ctest", "b": b, "j": i, "o": o, "v": v})
            elif k == "stmt":
                EVENTS.append({"e": "stmtend", "b": b, "i": i, "o": o, "v": v})
            elif k == "handler":
                EVENTS.append({"e": "handlerend", "b": b, "j": i, "o": o})
            else:
                EVENTS.append({"e": "finend", "b": b, "i": i, "o": o})


class _BlockProxy:
    def __init__(self, n):
        object.__setattr__(self, "_n", n)

    @property
    def __class__(self):
        return type(self._n)

    def __getattr__(self, name):
        return getattr(self._n, name)

    def __setattr__(self, name, value):
        setattr(self._n, name, value)

    def __repr__(self):
        return repr(self._n)

    def evaluate(self, environment):
        n = self._n
        if not ENABLED[0]:
            return n.evaluate(environment)
        _COUNTER[0] += 1
        b = _COUNTER[0]
        _ACTIVE.setdefault(id(n), []).append(b)
        EVENTS.append({"e": "enter", "b": b, "n": len(n.expressions), "c": len(n.catchexprs),
                       "f": len(n.finallyexprs),
                       "all": [j + 1 for j, (err, _) in enumerate(n.catchexprs) if err is None]})
        o = "val"
        try:
            r = n.evaluate(environment)
            o = _outcome(r)
            return r
        except CklRuntimeError:
            o = "err"
            raise
        except BaseException:
            o = "sig"
            raise
        finally:
            _ACTIVE[id(n)].pop()
            EVENTS.append({"e": "leave", "b": b, "o": o})


def _is_node(x):
    return hasattr(x, "evaluate") and type(x).__module__ == "ckl.nodes"


def instrument(node, seen=None):
    """replace every NodeBlock below node (and node itself) by a proxy"""
    seen = seen if seen is not None else set()
    if isinstance(node, (_Proxy, _BlockProxy)) or id(node) in seen:
        return node
    seen.add(id(node))
    if type(node) is N.NodeBlock:
        node.expressions = [_Proxy(instrument(x, seen), node, "stmt", i + 1) for i, x in enumerate(node.expressions)]
        node.catchexprs = [[None if err is None else _Proxy(instrument(err, seen), node, "ctest", j + 1),
                            _Proxy(instrument(h, seen), node, "handler", j + 1)]
                           for j, (err, h) in enumerate(node.catchexprs)]
        node.finallyexprs = [_Proxy(instrument(x, seen), node, "fin", i + 1) for i, x in enumerate(node.finallyexprs)]
        return _BlockProxy(node)
    for attr, val in list(vars(node).items()):
        if _is_node(val):
            setattr(node, attr, instrument(val, seen))
        elif isinstance(val, list):
            setattr(node, attr, _instr_list(val, seen))
        elif isinstance(val, dict):
            for k2, v2 in list(val.items()):
                if _is_node(v2):
                    val[k2] = instrument(v2, seen)
    return node


def _instr_list(lst, seen):
    out = []
    for x in lst:
        if _is_node(x):
            out.append(instrument(x, seen))
        elif isinstance(x, list):
            out.append(_instr_list(x, seen))
        else:
            out.append(x)
    return out


_ORIG = [None]


def install():
    if _ORIG[0] is None:
        _ORIG[0] = ckl.parser.parse

        def parse(lexer):
            return instrument(_ORIG[0](lexer))
        ckl.parser.parse = parse


def uninstall():
    if _ORIG[0] is not None:
        ckl.parser.parse = _ORIG[0]
        _ORIG[0] = None


def validate(run, events, metas, label):
    """events: the concatenated trace; metas[k] = source of the program event k belongs to"""
    d = tempfile.mkdtemp(prefix="blk-")
    path = os.path.join(d, "trace.ndjson")
    try:
        with open(path, "w") as f:
            for e in events:
                f.write(json.dumps(e) + "\n")
        res = run_tlc("Block_Trace", workers=1, env={"TRACE_FILE": path}, timeout=3000)
    finally:
        try:
            os.remove(path)
            os.rmdir(d)
        except OSError:
            pass
    run.add_tlc(res, label)
    done = res.records("DONE")
    if not done or done[-1]["n"] != len(events):
        raise MachineryError("Block_Trace did not consume the whole trace")
    for b in res.records("BAD"):
        k = b["l"] - 1
        src = metas[k]
        run.violation(f"block-rule:{b['rule']}:{src}",
                      f"block-life-cycle: rule `{b['rule']}` broken at event {json.dumps(events[k])} while running {src!r}",
                      {"kind": "blocktrace", "src": src})
    return res
