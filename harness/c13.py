"""C13 - only language-level errors escape evaluation.

Specs: spec/Forms.tla (the syntactic forms applied to every tuple of the value
pool: state machine PickForm / PickArg / Apply, invariant NotStuck; exports
the case list), spec/Natives_Trace.tla (trace validation of recorded outcomes:
a `host:*`, `timeout`, `badvalue:*` or `error:<not a catchable Value>` event is
accepted by no action).

Binding A: every (form, argument tuple) TLC generated is executed as a program
on Interpreter(True, False) with the pool values bound to p0, p1, p2 through
the API (no rendering of values into source text).
Binding B: every function found in the live environments (base environment,
legacy base environment, every symbol of every bundled module, and the natives
only present in non-secure mode, run inside a sandbox directory) is called
through the interpreter with positional argument tuples from the pool; the
recorded outcomes of A and B are validated by TLC against Natives_Trace.

Round 2: spec/FormsGraph.tla (+ FormsGraphOps.tla) models the programs that
build data which is finite but not a tree - collections holding themselves, a
`_proto_` chain that leads back into itself, a key changed after it was put
in - and hand it to an observer (render, hash, member lookup, iteration, ...);
TLC exports every program of the family, they are executed like the form cases
and their outcomes validated by Natives_Trace, which re-derives the heap from
the recorded steps.  The wide pool of the function sweep holds such values too.

Round 3: spec/FormsCall.tla (+ FormsCallOps.tla) models how the arguments of a
call reach the parameters (positionally, by name, rest parameter); its decided
calls are run on a probe function (recorded bindings validated by
Natives_Trace) and every function of the sweep is also called in the shapes
that bind parameters no positional call reaches.  FormsOps has both booleans
and the forms in which a guard meets the pool value on a later pass.  A case
holding a huge int that does not end is excused only on evidence that its
result grows with the number (Natives_Trace!ScaledOK).  Time bounds are
processor time of the worker; every probe that did not end is re-run alone.

The decision is the exception class leaving Interpreter.interpret and the
processor-time bound per call.  Where Forms.tla predicts value-vs-error and the code
differs, that is drift, never a violation.
"""
import concurrent.futures
import datetime
import io
import itertools
import json
import multiprocessing
import os
import random
import shutil
import signal
import sys
import tempfile
import time

from .common import import_ckl, MachineryError, REPO
from .tla import run_tlc

import_ckl()

# the pool, in the order of Forms.tla (`Pool`): tag -> constructor
POOL_TAGS = ["null", "true", "i0", "ineg", "i2", "big", "d0", "dneg", "sempty", "sa", "s12",
             "date", "pat", "lempty", "l2", "setempty", "set1", "mapempty", "map1", "obj",
             "lambda", "native", "input", "output", "false"]
# additional values of the sandboxed non-secure sweep (file-like / command-like arguments)
SANDBOX_TAGS = ["s_true", "s_file", "s_dir", "l_echo"]

# a second, wider pool (thorough tier, function sweep only): values the fixed
# pool has no representative of - nested collections, a non-trivial regular
# expression text, functions of other arities, an object with methods
EXTRA_SRC = {
    "x_false": "FALSE", "x_i3": "3", "x_ineg5": "-5", "x_i100": "100", "x_d15": "1.5",
    "x_sabc": "'abc'", "x_sparen": "'('", "x_sblank": "' '", "x_sdate": "'20200101'",
    "x_sfmt": "'yyyyMMdd'", "x_sbrace": "'{x#q}'", "x_sexpr": "'{1 +}'",
    "x_lnested": "[[1, 2], [3, 4]]", "x_l123": "[1, 2, 3]", "x_lstr": "['a', 'b']",
    "x_lshort": "[[1]]", "x_setstr": "<<'a', 'b'>>", "x_mapint": "<<<1 => 2>>>",
    "x_objfn": "<*f = fn(self) 1, _str_ = fn(self) 'o'*>", "x_fn0": "fn() 1",
    "x_fn2": "fn(a, b) a", "x_fnerr": "fn(x) error 'boom'",
    "x_s9": "'123456789'", "x_sinf": "'inf'", "x_dhuge": "1000000000000000000000.0 * 1000000000000000000000.0",
    "x_objproto": "<*_proto_ = 1*>", "x_objnullproto": "<*_proto_ = NULL, a = 1*>", "x_mapmixed": "<<<1 => 2, 'a' => 3>>>",
    "x_sbig": "'1' * 5000",
    "x_ldup": "[1, 1, 2]", "x_sdup": "'aab'", "x_setnested": "<<[1], [2]>>",      # duplicates; collections as members
    # the host's streams as values; a decimal at the edge of the range with a digit count left of the point
    "x_stdout": "stdout", "x_stdin": "stdin", "x_console": "console",
    "x_hostout": "host_stdout", "x_hostin": "host_stdin",
    "x_dmax": "decimal('17' + '0' * 307)", "x_ineg308": "-308",
    "x_ihuge": "1" + "0" * 400,          # an int beyond the range of a decimal
}
# round 3: functions that answer properly when first called and improperly afterwards (each case builds
# its values afresh, so "first" is the first call within the case).  A native that calls a function once
# per element (a predicate, a comparison, a key) must test every answer, not the first one: the same class
# as the loop guards of FormsOps!LaterForms, for the guards inside the built-in functions.
LATE_SRC = {
    "x_fnlate_bool": "do def n = 0; fn(a...) do n += 1; if n == 1 then TRUE else 'a' end end",
    "x_fnlate_int": "do def n = 0; fn(a...) do n += 1; if n == 1 then 1 else 'a' end end",
    "x_fnlate_err": "do def n = 0; fn(a...) do n += 1; if n == 1 then TRUE else error 'late' end end",
}
EXTRA_SRC.update(LATE_SRC)
# round 2: values that are finite data but whose naive traversal is not - an int
# with more digits than the host renders in one piece, collections that hold
# themselves (directly, through a second collection, as a member of an object),
# an object whose `_proto_` chain is a cycle, a list nested deeper than the
# host's stack, collections keyed by a list that was changed afterwards
GRAPH_SRC = {
    "x_i5000": "1" + "0" * 4000 + " * 1" + "0" * 1000,
    "x_lhugedec": "[1" + "0" * 400 + ", 0.5]",
    "x_lself": "do def l = [1]; append(l, l); l end",
    "x_lmutual": "do def a = [1]; def b = [a]; append(a, b); a end",
    "x_mself": "do def m = <<<'a' => 1>>>; m['k'] = m; m end",
    "x_oself": "do def o = <*a = 1*>; o->self = o; o end",
    "x_setself": "do def s = <<1>>; append(s, s); s end",
    "x_ocyc": "do def o = <*b = 1*>; o['_proto_'] = o; o end",
    "x_ocyc2": "do def o = <*b = 1*>; def q = <*_proto_ = o*>; o['_proto_'] = q; q end",
    "x_ldeep": "do def x = 1; for i in range(1500) do x = [x] end; x end",
    "x_mlistkey": "do def l = [1]; def m = <<<>>>; m[l] = 1; append(l, 2); m end",
    "x_setlistmem": "do def l = [1]; def s = <<l>>; append(l, 2); s end",
}
EXTRA_SRC.update(GRAPH_SRC)
# round 5: texts the host's libraries answer in a way the value classes do not expect - a pattern with a group
# that takes no part in a match (re.split yields None for it), a name the file system cannot express (a null
# character, a lone surrogate), and strings that NAME something defined (a constant, a function, a module): a
# built-in that takes "the name of ..." looks the name up and must not trust what it finds
NAME_SRC = {
    "x_soptgroup": "'(x)?b'", "x_sabcb": "'abcb'",
    "x_snul": "'a\\x00b'", "x_ssurrogate": "parse_json('\"\\\\ud800\"')",
    "x_sname_int": "'MAXINT'", "x_sname_fn": "'length'", "x_sname_list": "'checkerlang_modules'",
}
EXTRA_SRC.update(NAME_SRC)
EXTRA_TAGS = sorted(EXTRA_SRC)
# The ints whose magnitude no loop can count up to.  A case holding one that does not end is re-run with
# stand-ins of increasing magnitude (LEVELS; the three keep their order: rank * level).  The case is excused
# only when the stand-in runs all end AND show that the RESULT grows with the number (no implementation can
# be faster than its output: range(2^70), pow(2, 2^70)), or when another case of the same site with the huge
# ints at the same argument positions has shown that (choices([], 2^70) fails only after range(2^70)).
HUGE_TAGS = ("big", "x_ihuge", "x_i5000")
HUGE_RANK = {"big": 1, "x_ihuge": 2, "x_i5000": 3}
LEVELS = (1000, 10000)
GROWTH = 5          # result size at the larger level >= GROWTH * size at the smaller one (Natives_Trace!Growth)

ALARM_S = 2            # processor seconds of the worker (ITIMER_PROF): the load of the machine does not count
ISOLATED_S = 10
WALL_FACTOR = 20       # wall-clock backstop (a case that waits instead of computing): limit * WALL_FACTOR seconds
MODULES = None


def bundled_modules():
    d = os.path.join(REPO, "src", "ckl", "modules")
    return sorted(f[:-4] for f in os.listdir(d) if f.endswith(".ckl"))


class Timeout(BaseException):
    pass


def tlc(*a, **kw):
    """run_tlc; a run that fails is repeated once (on a crowded machine the JVM sometimes cannot
    start its threads): a real error of a spec fails twice"""
    try:
        return run_tlc(*a, **kw)
    except MachineryError:
        return run_tlc(*a, **kw)


def _on_alarm(signum, frame):
    raise Timeout()


def _arm(limit):
    """the bound of one evaluation: `limit` seconds of processor time of this process (user + system), so
    that a crowded machine does not turn a short case into a "timeout"; a wall-clock alarm far beyond it
    ends a case that waits (for input, for a child process) instead of computing"""
    signal.signal(signal.SIGALRM, _on_alarm)
    signal.signal(signal.SIGPROF, _on_alarm)
    signal.setitimer(signal.ITIMER_PROF, limit)
    signal.alarm(int(limit * WALL_FACTOR) + 1)


def _disarm():
    signal.setitimer(signal.ITIMER_PROF, 0)
    signal.alarm(0)


# ------------------------------------------------------------------ worker side
class World:
    """The interpreters of one worker process and the tables derived from them."""

    def __init__(self, sandbox=None):
        from ckl.interpreter import Interpreter
        from ckl import values as V
        from ckl import functions as F
        self.V = V
        self.F = F
        self.sandbox = sandbox
        self.interps = {}
        self.sites = {}        # site name -> (interp key, function value)
        sink = V.ValueOutput(V.StringOutput())
        for key, (secure, legacy) in (("base", (True, False)), ("legacy", (True, True)),
                                      ("nonsecure", (False, False))):
            if key == "nonsecure" and sandbox is None:
                continue
            it = Interpreter(secure, legacy)
            it.setStandardOutput(V.StringOutput())
            it.setStandardInput(V.StringInput(""))
            it.base_environment.put("console", sink)
            # what `stdout` / `stdin` are in an interpreter nobody redirected (Interpreter.__init__): the
            # host's own text streams (here the worker's: the null device), not the string streams above
            # (round 5: text streams of their own on the null device, the same kind of object as sys.stdout /
            # sys.stdin: a case that closes them must not close the worker's streams under the later cases)
            it.base_environment.put("host_stdout", V.ValueOutput(open(os.devnull, "w")))
            it.base_environment.put("host_stdin", V.ValueInput(open(os.devnull)))
            self.interps[key] = it
        self._collect()

    def _funcs_of(self, env):
        out = {}
        for name in list(env.map.keys()):
            v = env.map[name]
            if isinstance(v, self.V.Value) and v.isFunc():
                out[name] = v
        return out

    def _collect(self):
        it = self.interps["base"]
        for name, fn in self._funcs_of(it.base_environment).items():
            self.sites["base:" + name] = ("base", fn)
        for name, fn in self._funcs_of(self.interps["legacy"].base_environment).items():
            self.sites["legacy:" + name] = ("legacy", fn)
        for m in self.module_names():
            it.interpret("require " + m, "c13")
        mods = it.environment.getModules()
        for mid, menv in mods.items():
            for name, fn in self._funcs_of(menv).items():
                self.sites[f"{mid}:{name}"] = ("base", fn)
        if "nonsecure" in self.interps:
            ns = self.interps["nonsecure"]
            for m in self.module_names():
                ns.interpret("require " + m, "c13")
            seen_secure = set(self.sites)
            for name, fn in self._funcs_of(ns.base_environment).items():
                if "base:" + name not in seen_secure:
                    self.sites["nonsecure:" + name] = ("nonsecure", fn)
            for mid, menv in ns.environment.getModules().items():
                for name, fn in self._funcs_of(menv).items():
                    # natives that exist in non-secure mode only, and the
                    # functions of OS and IO written in the language, which
                    # reach those natives
                    if f"{mid}:{name}" not in seen_secure or (
                            mid in ("OS", "IO") and isinstance(fn, self.F.FuncLambda)):
                        self.sites[f"nonsecure:{mid}:{name}"] = ("nonsecure", fn)

    def module_names(self):
        """the bundled module files (base.ckl and legacy.ckl are the two base
        environments themselves), spelled as the Sys module spells them"""
        files = [m for m in bundled_modules() if m not in ("base", "legacy")]
        listed = self.interps["base"].interpret("checkerlang_modules", "c13")
        spelled = {x.value.lower(): x.value for x in listed.value}
        return [spelled.get(m, m[0].upper() + m[1:]) for m in files]

    def identity_of(self, site):
        """Two sites with the same identity are the same function (the same
        native class, or a lambda defined at the same source position)."""
        fn = self.sites[site][1]
        secure = site.startswith("nonsecure:")
        if isinstance(fn, self.F.FuncLambda):
            pos = getattr(fn.body, "pos", None)
            return ("lambda", secure, fn.name, str(pos), tuple(fn.argNames))
        return ("native", secure, type(fn).__name__)

    # -- the pool ---------------------------------------------------------
    def make(self, tag):
        V = self.V
        it = self.interps["base"]
        if tag == "null":
            return V.NULL
        if tag == "true":
            return V.TRUE
        if tag == "i0":
            return V.ValueInt(0)
        if tag == "ineg":
            return V.ValueInt(-1)
        if tag == "i2":
            return V.ValueInt(2)
        if tag == "big":
            return V.ValueInt(2 ** 70)
        if tag == "false":
            return V.FALSE
        if tag.startswith("scaled:"):    # stands in for a huge int in the scaled re-runs
            return V.ValueInt(int(tag[7:]))
        if tag == "d0":
            return V.ValueDecimal(0.0)
        if tag == "dneg":
            return V.ValueDecimal(-1.5)
        if tag == "sempty":
            return V.ValueString("")
        if tag == "sa":
            return V.ValueString("a")
        if tag == "s12":
            return V.ValueString("12")
        if tag == "date":
            return V.ValueDate(datetime.datetime(2020, 1, 1))
        if tag == "pat":
            return V.ValuePattern("a")
        if tag == "lempty":
            return V.ValueList()
        if tag == "l2":
            return V.ValueList().addItem(V.ValueInt(1)).addItem(V.ValueString("a"))
        if tag == "setempty":
            return V.ValueSet()
        if tag == "set1":
            return V.ValueSet().addItem(V.ValueInt(1))
        if tag == "mapempty":
            return V.ValueMap()
        if tag == "map1":
            return V.ValueMap().addItem(V.ValueString("a"), V.ValueInt(1))
        if tag == "obj":
            return V.ValueObject().addItem("a", V.ValueInt(1))
        if tag == "lambda":
            return it.interpret("fn(x) x", "c13")
        if tag == "native":
            return it.base_environment.get("length")
        if tag == "input":
            return V.ValueInput(V.StringInput("x\ny"))
        if tag == "output":
            return V.ValueOutput(V.StringOutput())
        if tag == "x_ldeep":            # what GRAPH_SRC["x_ldeep"] builds, without 1500 interpreted loop passes
            x = V.ValueInt(1)
            for _ in range(1500):
                x = V.ValueList().addItem(x)
            return x
        if tag in EXTRA_SRC:
            return it.interpret(EXTRA_SRC[tag], "c13")
        # sandbox values
        if tag == "s_true":
            return V.ValueString("true")
        if tag == "s_file":
            return V.ValueString("f.txt")
        if tag == "s_dir":
            return V.ValueString("d")
        if tag == "l_echo":
            return V.ValueList().addItem(V.ValueString("x"))
        raise KeyError(tag)

    def reset_sandbox(self):
        sb = self.sandbox
        for name in os.listdir(sb):
            p = os.path.join(sb, name)
            if os.path.isdir(p) and not os.path.islink(p):
                shutil.rmtree(p, ignore_errors=True)
            else:
                os.remove(p)
        with open(os.path.join(sb, "f.txt"), "w") as f:
            f.write("1;\n2;\n")
        os.mkdir(os.path.join(sb, "d"))

    # -- one evaluation -----------------------------------------------------
    def evaluate(self, ikey, src, bindings, limit, measure=False):
        """-> (outcome, detail, size).  outcome: value | error:ok | error:<defect> | host:<Class>
        | syntax | badvalue:<pytype> | timeout; size: how large the resulting value is (only when
        `measure`, only for a value; -1 otherwise)"""
        V = self.V
        from ckl.errors import CklRuntimeError, CklSyntaxError
        it = self.interps[ikey]
        env = self.F.Environment()
        for k, v in bindings.items():
            env.put(k, v)
        detail = ""
        size = -1
        try:
            _arm(limit)
            try:
                r = it.interpret(src, "c13", env)
                out = "value" if isinstance(r, V.Value) else "badvalue:" + type(r).__name__
                if out == "value" and not wellformed(r, V):
                    # round 5: the result holds something that is no value of the language (a string
                    # wrapping None, an int as list element).  What the property forbids is observed on
                    # the program `string(<case>)`: the interpreter renders the result
                    env.put("r__", r)
                    try:
                        it.interpret("string(r__)", "c13", env)
                    except CklRuntimeError:
                        pass
                    except (RecursionError, MemoryError):
                        raise
                    except Exception as e:  # noqa: BLE001
                        out, detail = "host:" + type(e).__name__, ("string(<this case>): " + str(e))[:100]
                if measure == "ints" and out == "value":
                    size = ints_of(r)
                elif measure and out == "value":
                    size = size_of(r)
            finally:
                _disarm()
        except Timeout:
            _disarm()
            return "timeout", "", -1
        except CklRuntimeError as e:
            if isinstance(e.value, V.Value):
                out = "error:ok"
                if isinstance(e.msg, str) and e.msg == "Too many arguments":
                    detail = "too-many"
                elif isinstance(e.msg, str) and e.msg.startswith("Missing argument"):
                    detail = "missing"
            else:
                out = "error:value-is-" + type(e.value).__name__
                detail = str(e.msg)[:100]
        except CklSyntaxError as e:
            out, detail = "syntax", str(e.msg)[:100]
        except RecursionError:
            out = "host:RecursionError"
        except MemoryError:
            out = "host:MemoryError"
        except Exception as e:  # noqa: BLE001 - observing what escapes is the point
            out, detail = "host:" + type(e).__name__, str(e)[:100]
        return out, detail, size


def wellformed(v, V, budget=400):
    """does the value consist of values of the language only?  (a walk over at most `budget` nodes; used only
    to decide whether the rendering of a result is probed as well, never as a verdict)"""
    seen, todo = set(), [v]
    try:
        while todo and budget > 0:
            x = todo.pop()
            budget -= 1
            if not isinstance(x, V.Value):
                return False
            if id(x) in seen:
                continue
            seen.add(id(x))
            if x.isString():
                if not isinstance(x.value, str):
                    return False
            elif x.isList() or x.isSet():
                todo.extend(list(x.value)[:50])
            elif x.isMap():
                for k, w in list(x.value.items())[:50]:
                    todo += [k, w]
            elif x.isObject():
                todo.extend(list(x.value.values())[:50])
    except Exception:  # noqa: BLE001 - a refactored value class must not break the check
        return True
    return True


def ints_of(v):
    """a list of ints as Python ints (the result of the probe function of the call shapes); None when the
    value does not show its content the expected way (then nothing is compared)"""
    try:
        got = [x.value for x in v.value]
        return got if all(type(x) is int for x in got) else None
    except Exception:  # noqa: BLE001
        return None


def size_of(v):
    """how large a value is: elements of a collection, characters of a string, bits of an int; what has no
    such measure (or does not show it the expected way) is measured by the length of its rendering.
    Used only on the stand-in runs of a case that did not end (see Sweep.execute)."""
    try:
        if v.isList() or v.isSet() or v.isMap() or v.isObject() or v.isString():
            return min(len(v.value), 10 ** 9)
        if v.isInt():
            return min(abs(v.value).bit_length(), 10 ** 9)
    except Exception:  # noqa: BLE001 - a refactored value class must not break the check
        pass
    return min(len(str(v)), 10 ** 9)


_W = None
_DEVNULL = None
_LINES = set()         # lines of nodes.py executed by this worker and not yet handed to the parent


def _watch_lines():
    """Round 3 cross-check of binding A: which lines of nodes.py do the cases execute?  (sys.monitoring:
    every location reports once and is switched off.)  The parent compares them with the guard sites of
    the evaluation nodes (`raise CklRuntimeError`): a guard no case reaches is a guard the check cannot
    miss - it is listed in the evidence.  Purely diagnostic; any failure here leaves the check as it was."""
    try:
        mon = sys.monitoring
        target = os.path.join(REPO, "src", "ckl", "nodes.py")
        mon.use_tool_id(mon.COVERAGE_ID, "c13")

        def on_line(code, line):
            if code.co_filename == target:
                _LINES.add(line)
            return mon.DISABLE

        mon.register_callback(mon.COVERAGE_ID, mon.events.LINE, on_line)
        mon.set_events(mon.COVERAGE_ID, mon.events.LINE)
    except Exception:  # noqa: BLE001
        pass


def _take_lines():
    got = sorted(_LINES)
    _LINES.clear()
    return got


def _init_worker(sandbox):
    global _W, _DEVNULL
    import resource
    try:
        resource.setrlimit(resource.RLIMIT_AS, (6 << 30, 6 << 30))
    except (ValueError, OSError):
        pass
    import warnings
    warnings.simplefilter("ignore")      # FutureWarning of re.compile on odd pattern texts
    _DEVNULL = open(os.devnull, "w")
    sys.stdout = _DEVNULL
    sys.stdin = open(os.devnull)         # the interpreters' `stdin` value: an empty stream, never the terminal
    if sandbox:
        # one private directory per worker process; the programs on PATH are shared
        os.environ["PATH"] = os.path.join(sandbox, "bin")
        os.environ["HOME"] = sandbox
        sandbox = tempfile.mkdtemp(prefix="w-", dir=sandbox)
        os.chdir(sandbox)
    _watch_lines()
    _W = World(sandbox)
    try:                    # what building the interpreters executed does not count as a case
        sys.monitoring.restart_events()
    except Exception:  # noqa: BLE001
        pass
    _LINES.clear()


def _fresh_streams():
    """an earlier case of this worker may have closed the worker's own standard streams (close(host_stdout)):
    the next case starts with open ones, whatever the order in which the cases are dealt out"""
    global _DEVNULL
    try:
        stale = False
        if sys.stdout.closed or sys.stdin.closed:
            _DEVNULL = open(os.devnull, "w")
            sys.stdout = _DEVNULL
            sys.stdin = open(os.devnull)
            stale = True
        # the streams bound in the interpreters of the World (stdout, stdin, console, host_stdout, host_stdin):
        # closed by an earlier case = re-created with the World (a case that closes a stream and uses it
        # within the same case is judged as it is)
        for it in _W.interps.values():
            for name in ("stdout", "stdin", "console", "host_stdout", "host_stdin"):
                v = it.base_environment.map.get(name)
                inner = getattr(v, "output", getattr(v, "input", None))
                if getattr(v, "closed", False) is True or getattr(inner, "closed", False) is True:
                    stale = True
        if stale:
            _rebuild()
    except Exception:  # noqa: BLE001
        pass


def _rebuild():
    global _W
    _W = World(_W.sandbox)


def call_src(names):
    """the call of f__ with one argument per entry of names: positional where the entry is '', bound by
    name otherwise (FormsCall.tla decides which shapes are run)"""
    return "f__(" + ", ".join((f"{nm} = p{i}" if nm else f"p{i}") for i, nm in enumerate(names)) + ")"


def split_site(what):
    """'base:find_last(_,_,start=_)' -> ('base:find_last', ['', '', 'start']); a plain site -> (site, None)"""
    if "(" not in what:
        return what, None
    site, shape = what[:-1].split("(", 1)
    return site, [("" if a == "_" else a[:-2]) for a in shape.split(",")] if shape else []


def shaped_site(site, names):
    return site + "(" + ",".join((nm + "=_") if nm else "_" for nm in names) + ")"


# ---- round 5 -----------------------------------------------------------------------------------------
# (a) a function handed to a built-in (key, cmp, predicate, callback) that changes the collection the built-in
#     is walking: the collection c__ is one argument, the function m__ another (every ordered pair of
#     parameters of every function, bound by name; the other parameters absent or filled with 2).  m__ notes
#     that it was called (log__): only the pairs whose probe shows a call are multiplied out.
MUT_COLL = {"list": "[1, 2, 3, 4, 5]", "set": "<<1, 2, 3, 4, 5>>", "map": "<<<1 => 1, 2 => 2, 3 => 3, 4 => 4, 5 => 5>>>",
            "object": "<*a = 1, b = 2, c = 3, d = 4, e = 5*>", "string": "'abcde'"}
MUT_STEP = {      # one step of the change, per kind of collection
    "shrink": {"list": "delete_at(c__, 0)", "set": "for v in list(c__) do remove(c__, v); break end",
               "map": "for k in keys c__ do remove(c__, k); break end",
               "object": "for k in keys c__ do remove(c__, k); break end"},
    "grow": {"list": "if length(c__) < 12 then append(c__, 0)",
             "set": "if length(c__) < 12 then append(c__, length(c__) + 10)",
             "map": "if length(c__) < 12 then c__[length(c__) + 10] = 0",
             "object": "if length(c__) < 12 then c__['k' + length(c__)] = 0"},
}
MUT_MODES = ["shrink", "shrink2", "clear", "grow", "none"]
MUT_ANSWERS = {"arg": "x", "true": "TRUE", "false": "FALSE", "zero": "0", "neg": "-1"}


def mut_source(kind, mode):
    if mode == "none" or kind == "string":
        return "NULL"
    if mode == "clear":
        return "while length(c__) > 0 do " + MUT_STEP["shrink"][kind] + " end"
    if mode == "shrink2":
        return MUT_STEP["shrink"][kind] + "; " + MUT_STEP["shrink"][kind]
    return MUT_STEP[mode][kind]


def mut_program(names, kind, mode, answer):
    """names = [parameter of the collection, parameter of the function, filled parameters ...]"""
    args = [f"{names[0]} = c__", f"{names[1]} = m__"] + [f"{nm} = p{i}" for i, nm in enumerate(names[2:])]
    return ("def m__ = fn(x = NULL, y = NULL) do append(log__, 1); " + mut_source(kind, mode) + "; "
            + MUT_ANSWERS[answer] + " end; f__(" + ", ".join(args) + ")")


# (b) an object whose `_str_` member is this function (built-in or not), rendered on its own, inside a list and
#     as the message of an error that is caught
STR_WRAPS = {"string": "string(o__)", "list": "string([o__, 1])", "map": "string(<<<1 => o__>>>)",
             "caught": "do error o__ catch all string(o__) end", "compare": "o__ < <*b = 1*>"}

# (c) a name that built-ins look up in the environment (a default: `compare`, `identity`; a stream: `stdout`,
#     `stdin`; a system variable), shadowed by a value of the pool; the names are those the sources mention
#     (`environment.get("...")` / `isDefined("...")`), and always the ones of KNOWN_NAMES
KNOWN_NAMES = ["compare", "identity", "stdout", "stdin", "DIV_0_VALUE", "checkerlang_module_path"]
SHADOW_VALUES = ["i2", "sa", "l2", "null", "map1", "obj", "lambda", "native", "true", "lempty", "x_lshort", "x_sname_int"]
SHADOW_ARGS = [(), ("x_l123",), ("sa",), ("i2",), ("i2", "i0"), ("x_l123", "i2"), ("sa", "sa"), ("x_sabc", "x_soptgroup")]


def looked_up_names():
    """-> {name: [class names of functions.py whose code mentions the lookup]}; names mentioned elsewhere
    (nodes.py: evaluation nodes) map to []"""
    import re as _re
    found = {n: [] for n in KNOWN_NAMES}
    pat = _re.compile(r"""(?:environment|env)\.(?:get|isDefined)\(\s*["']([A-Za-z_][A-Za-z_0-9]*)["']""")
    for fname in ("functions.py", "nodes.py", "values.py", "interpreter.py"):
        cls = ""
        try:
            with open(os.path.join(REPO, "src", "ckl", fname)) as f:
                text = f.read()
        except OSError:
            continue
        # a call may be broken over two lines: environment.get(\n "name"
        flat = _re.sub(r"\(\s*\n\s*", "(", text)
        for line in flat.split("\n"):
            if line.startswith("class "):
                cls = line.split()[1].split("(")[0].rstrip(":")
            for m in pat.finditer(line):
                lst = found.setdefault(m.group(1), [])
                if fname == "functions.py" and cls.startswith("Func") and cls not in lst:
                    lst.append(cls)
    return found


def _prepare(job):
    """job = ("form", text, tags) | ("fn", site or site(shape), tags) | ("prog", text, description)
    | ("mut", site(shape), (collection, mode, answer, filler tags...)) | ("strfn", site, (wrap,))
    | ("shadow", site, (name, value tag, argument tags...))
    -> (interpreter key, bindings, source)"""
    kind, what, tags = job
    w = _W
    if kind == "mut":
        site, names = split_site(what)
        ikey, fn = w.sites[site]
        if ikey == "nonsecure":
            w.reset_sandbox()
        b = {f"p{i}": w.make(t) for i, t in enumerate(tags[3:])}
        b["f__"] = fn
        b["c__"] = w.interps["base"].interpret(MUT_COLL[tags[0]], "c13")
        b["log__"] = w.V.ValueList()
        return ikey, b, mut_program(names, tags[0], tags[1], tags[2])
    if kind == "strfn":
        ikey, fn = w.sites[what]
        if ikey == "nonsecure":
            w.reset_sandbox()
        return ikey, {"f__": fn}, "def o__ = <*a = 1, _str_ = f__*>; " + STR_WRAPS[tags[0]]
    if kind == "shadow":
        ikey, fn = w.sites[what]
        if ikey == "nonsecure":
            w.reset_sandbox()
        b = {f"p{i}": w.make(t) for i, t in enumerate(tags[2:])}
        b["f__"] = fn
        b[tags[0]] = w.make(tags[1])
        return ikey, b, call_src([""] * (len(tags) - 2))
    if kind == "fn":
        site, names = split_site(what)
        ikey, fn = w.sites[site]
        if ikey == "nonsecure":
            w.reset_sandbox()
        b = {f"p{i}": w.make(t) for i, t in enumerate(tags)}
        b["f__"] = fn
        return ikey, b, call_src(names if names is not None else [""] * len(tags))
    if kind == "prog":               # a whole program of FormsGraph.tla / FormsCall.tla; tags only describe it
        return "base", {}, what
    return "base", {f"p{i}": w.make(t) for i, t in enumerate(tags)}, what


def run_one(job, limit=ALARM_S, measure=False):
    """-> (outcome, detail, size)"""
    _fresh_streams()
    if job[0] == "host":
        return run_host(job, limit)
    ikey, b, src = _prepare(job)
    out, detail, size = _W.evaluate(ikey, src, b, limit, measure)
    if out == "timeout":
        _rebuild()
    if job[0] == "mut" and proper(out) and not detail and len(b["log__"].value) > 0:
        detail = "called"          # the function handed in was called: this pair of parameters is multiplied out
    return out, detail, size


def run_caught(job, limit=ALARM_S):
    """the same evaluation inside `do ... catch all 'c13-caught' end`"""
    if job[0] == "host":
        return ""
    _fresh_streams()
    ikey, b, src = _prepare(job)
    w = _W
    src = "do " + src + " catch all 'c13-caught' end"
    V = w.V
    it = w.interps[ikey]
    env = w.F.Environment()
    for k, v in b.items():
        env.put(k, v)
    try:
        _arm(limit)
        try:
            r = it.interpret(src, "c13", env)
        finally:
            _disarm()
    except Timeout:
        _disarm()
        _rebuild()
        return "timeout"
    except BaseException as e:  # noqa: BLE001
        return "escaped:" + type(e).__name__
    if isinstance(r, V.ValueString) and r.value == "c13-caught":
        return "caught"
    return "not-raised"


# (d) the hosts: ckl.run.main() with a script file, ckl.repl.main() with scripted input, in the worker process
#     (argv, stdin, stdout replaced; stdout is a real file so that a program may close it).  What is observed is
#     the exception that leaves main().
HOST_CASES = {
    "plain": ["1 + 1"],
    # a stream the program has closed, handed to every native that reads from it
    "closed_stdin_process": ["require IO; IO->close(stdin); IO->process_lines(stdin, fn(l) l)"],
    "closed_stdin_reads": ["require IO; IO->close(stdin); [do IO->readln(stdin) catch all 1 end, do IO->read_all(stdin) catch all 2 end, "
                           "do IO->read(stdin) catch all 3 end, do for l in stdin do l end catch all 4 end]"],
    "closed_in_callback": ["require IO; def i = IO->str_input('a\\nb\\nc'); IO->process_lines(i, fn(l) IO->close(i))"],
    "error": ["error 'boom'"],
    "self_list": ["def a = []; append(a, a); a"],
    "self_list_error": ["def a = []; append(a, a); error a"],
    "self_map": ["def m = <<<>>>; m['k'] = m; m"],
    "self_object_error": ["def o = <*a = 1*>; o->self = o; error o"],
    "deep_list": ["def x = 1; for i in range(1500) do x = [x] end; x"],
    "deep_list_error": ["def x = 1; for i in range(1500) do x = [x] end; error x"],
    "str_fails": ["<*_str_ = fn(self) error 'x'*>"],
    "str_fails_error": ["error <*_str_ = fn(self) error 'x'*>"],
    "str_fails_self_error": ["error <*_str_ = fn(self) error self*>"],
    "str_div0_error": ["error <*_str_ = fn(self) 1 / 0*>"],
    "str_fails_in_list_error": ["error [<*_str_ = fn(self) error 'x'*>]"],
    "str_builtin": ["<*_str_ = sorted*>"],
    "str_builtin_error": ["error <*_str_ = sorted*>"],
    "str_not_string_error": ["error <*_str_ = fn(self) 12*>"],
    "surrogate": ["parse_json('\"\\\\ud800\"')"],
    "surrogate_error": ["error parse_json('\"\\\\ud800\"')"],
    "optional_group": ["split('abc', '(x)?b')"],
    "close_stdout": ["require IO; IO->close(stdout); 1"],
    "close_stdout_error": ["require IO; IO->close(stdout); error 'x'"],
    "close_stdout_syntax": ["require IO; IO->close(stdout); eval('1 +')"],
    "close_stdin": ["require IO; IO->close(stdin); 1"],
    "println_closed": ["require IO; IO->close(stdout); println(1)"],
    "execute_echo_closed": ["require IO; require OS; IO->close(stdout); OS->execute('true', [], echo = TRUE)"],
    # one-statement lines whose evaluation exhausts the host's stack with no block on the way (definitions
    # on one line, the failing statement alone on the next: the REPL keeps the session)
    "recursion_single": ["def f(n) f(n + 1)", "f(1)"],
    "recursion_compare": ["def a = []; append(a, a); def b = []; append(b, b); 1", "a == b"],
    "recursion_string": ["def a = []; append(a, a); 1", "string(a)"],
    "break_top": ["break"],
    "return_value": ["return <*_str_ = fn(self) error 'x'*>"],
}


def run_host(job, limit):
    """("host", "run" | "repl", (secure, case name)) -> (outcome, detail, -1)"""
    import importlib
    _kind, host, (secure, name) = job
    lines = HOST_CASES[name]
    d = tempfile.mkdtemp(prefix="c13-host-")
    saved = (sys.argv, sys.stdout, sys.stdin)
    out, detail = "value", ""
    fout = None
    try:
        mod = importlib.import_module("ckl." + host)
        flags = ["-s"] if secure == "secure" else []
        if host == "run":
            script = os.path.join(d, "script.ckl")
            with open(script, "w", encoding="utf-8") as f:
                f.write("; ".join(lines))
            sys.argv = ["run"] + flags + [script]
            sys.stdin = io.StringIO("")
        else:
            sys.argv = ["repl"] + flags
            sys.stdin = io.StringIO("".join(ln + "\n" for ln in lines + ["1 + 1", "exit"]))
        fout = open(os.path.join(d, "out.txt"), "w", encoding="utf-8")
        sys.stdout = fout
        if secure != "secure":
            _W.reset_sandbox()
        try:
            _arm(limit)
            try:
                mod.main()
            finally:
                _disarm()
        except Timeout:
            _disarm()
            out = "timeout"
        except SystemExit:
            pass
        except (RecursionError, MemoryError) as e:
            out = "host:" + type(e).__name__
        except BaseException as e:  # noqa: BLE001 - observing what escapes main() is the point
            out = "host:" + type(e).__name__
            try:
                detail = (host + ".main(): " + str(e))[:100]
            except BaseException:  # noqa: BLE001 - an error whose value cannot be rendered
                detail = host + ".main()"
    finally:
        sys.argv, sys.stdout, sys.stdin = saved
        try:
            if fout is not None and not fout.closed:
                fout.close()
        except Exception:  # noqa: BLE001
            pass
        shutil.rmtree(d, ignore_errors=True)
    return out, detail, -1


def _chunk(jobs):
    res = []
    for j in jobs:
        if j[0] == "prog" and j[2][-1] == "callshape":
            out, detail, got = run_one(j, measure="ints")
            if out == "value" and got is not None:
                detail = json.dumps(got)
        else:
            out, detail, _ = run_one(j)
        caught = ""
        if out == "error:ok" and j[0] in ("form", "prog"):
            caught = run_caught(j)
        res.append((out, detail, caught))
    return res, _take_lines()


def _isolated(job):
    out, detail, _ = run_one(job, ISOLATED_S)
    return out, detail


def _isolated_sized(job):
    return run_one(job, ISOLATED_S, measure=True)


def _isolated_caught(job):
    return run_caught(job, ISOLATED_S)


def _list_sites(_):
    w = _W
    return {s: (w.sites[s][0], list(w.sites[s][1].getArgNames()), w.identity_of(s)) for s in w.sites}


# ------------------------------------------------------------------ parent side
def make_sandbox():
    sb = tempfile.mkdtemp(prefix="c13-sandbox-")
    os.mkdir(os.path.join(sb, "bin"))
    for prog in ("true", "echo"):
        for d in ("/bin", "/usr/bin"):
            if os.path.exists(os.path.join(d, prog)):
                os.symlink(os.path.join(d, prog), os.path.join(sb, "bin", prog))
                break
    return sb


def scaled_job(job, level):
    kind, what, tags = job
    return (kind, what, tuple(f"scaled:{HUGE_RANK[t] * level}" if t in HUGE_TAGS else t for t in tags))


def huge_at(tags):
    return tuple(i for i, t in enumerate(tags) if t in HUGE_TAGS)


def proper(out):
    return out in ("value", "error:ok")


def all_proper(runs):
    return len(runs) >= 2 and all(proper(r["out"]) for r in runs)


def grows(runs):
    """Natives_Trace!Grows"""
    return (len(runs) >= 2 and all(r["out"] == "value" and r["size"] > 0 for r in runs)
            and all(a["m"] < b["m"] and b["size"] >= GROWTH * a["size"] for a, b in zip(runs, runs[1:])))


def scaled_ok(r, tags):
    """Natives_Trace!ScaledOK for a result record"""
    w = r.get("witness") or {"tags": [], "runs": []}
    return (r["out"] in SLOW and bool(huge_at(tags)) and all_proper(r["scaled"])
            and (grows(r["scaled"]) or (grows(w["runs"]) and huge_at(w["tags"]) == huge_at(tags))))


SLOW = ("timeout", "host:MemoryError")


class Sweep:
    def __init__(self, run, workers=16):
        self.run = run
        self.sandbox = make_sandbox()
        self.ctx = multiprocessing.get_context("fork")
        self.pool = self.ctx.Pool(workers, initializer=_init_worker, initargs=(self.sandbox,))
        self.iso = None
        self.evaluations = 0
        self.t0 = time.time()
        self.budget = BUDGET_S[run.tier if run.tier in BUDGET_S else "thorough"]
        self.definite = 0         # outcomes seen so far that the property forbids whatever a re-run says
        self.hanging = []         # cases that did not end in time (no huge int among the arguments), not yet re-run
        self.hanging_huge = []    # the same with a huge int among the arguments (most of them will be excused)
        self.cut = False          # the time budget ran out on a tree that shows violations
        self.skipped = 0
        self.lines = set()        # lines of nodes.py the cases executed (see _watch_lines)
        self.proven = {}          # (site, positions of the huge ints) -> a case whose result grows with the stand-ins

    def close(self):
        self.pool.terminate()
        self.pool.join()
        if self.iso is not None:
            self.iso.terminate()
            self.iso.join()
        shutil.rmtree(self.sandbox, ignore_errors=True)

    def sites(self):
        return self.pool.apply(_list_sites, (0,))

    def _alone(self, jobs, fn=None):
        if not jobs:
            return []
        if self.iso is None:
            self.iso = self.ctx.Pool(16, initializer=_init_worker, initargs=(self.sandbox,))
        self.evaluations += len(jobs)
        fn = fn or _isolated
        # the worker bounds the evaluation by processor time; the parent bounds the whole job by wall-clock time as
        # well (building the arguments and measuring the result are outside the worker's alarm): a job that does
        # not come back is a timeout, its worker is given up with the pool
        out = []
        bound = ISOLATED_S * WALL_FACTOR + 120
        late = "the job did not come back within the parent's wall-clock bound"
        for k in range(0, len(jobs), 16):            # one job per worker: every job of a batch starts at once
            if self.iso is None:
                self.iso = self.ctx.Pool(16, initializer=_init_worker, initargs=(self.sandbox,))
            batch = [self.iso.apply_async(fn, (j,)) for j in jobs[k:k + 16]]
            deadline = time.time() + bound
            lost = False
            for a in batch:
                try:
                    out.append(a.get(timeout=max(1, deadline - time.time())))
                except multiprocessing.TimeoutError:
                    lost = True
                    out.append("timeout" if fn is _isolated_caught else (("timeout", late, -1) if fn is _isolated_sized else ("timeout", late)))
            if lost:
                self.iso.terminate()
                self.iso.join()
                self.iso = None
        return out

    def execute(self, jobs, chunk=250):
        """jobs -> list of dicts {out, detail, caught, scaled, witness}, same order.
        A timeout is never believed at once.  A case holding a huge int is re-run with stand-ins of two
        smaller magnitudes (`scaled` = their outcomes and result sizes; whether that excuses the case is
        Natives_Trace!ScaledOK); any other - and a case the stand-ins do not excuse - is re-run alone with
        the longer bound.  The same holds for the catch probe of a case (round 3: a probe that did not end
        in time was reported as 'error-not-caught:timeout' without a second look)."""
        # neighbouring jobs (one site, one slow argument) go to different chunks: a run of
        # calls that each wait for the alarm would otherwise be served by a single worker
        # A tree on which many cases hang would keep the check busy for half an hour (2 s per case,
        # 10 s per re-run).  Once the time budget is spent AND the tree is known to violate the
        # property (a host exception was seen, or one of the cases that did not end does not end
        # when re-run alone either), the remaining cases are not executed ("skipped", no event):
        # the check reports what it has and never exits 0 (see run()).  Every other tree is run in full.
        if self.cut:
            self.skipped += len(jobs)
            return [dict(SKIPPED) for _ in jobs]
        k = max(1, -(-len(jobs) // chunk))
        res = [dict(SKIPPED) for _ in jobs]
        parts = [jobs[c::k] for c in range(k)]
        for c, (r, lines) in enumerate(self.pool.imap(_chunk, parts)):
            self.lines.update(lines)
            for j, (o, d, ca) in enumerate(r):
                res[c + j * k] = {"out": o, "detail": d, "caught": ca, "scaled": [], "witness": None}
                sus = suspicious(parts[c][j], o)
                if sus == 2:
                    self.definite += 1
                elif sus == 1:
                    (self.hanging_huge if huge_at(parts[c][j][2]) else self.hanging).append(parts[c][j])
            if time.time() - self.t0 > self.budget and c + 1 < k and (self.definite or self.hangs_alone()):
                self.cut = True
                self.pool.terminate()
                break
        self.skipped += sum(1 for r in res if r["out"] == "skipped")
        self.evaluations += sum(1 + bool(r["caught"]) for r in res if r["out"] != "skipped")
        slow = [i for i, r in enumerate(res) if r["out"] in SLOW]
        big = [i for i in slow if huge_at(jobs[i][2])]
        runs = self._alone([scaled_job(jobs[i], lv) for i in big for lv in LEVELS], _isolated_sized)
        for n, i in enumerate(big):
            mine = runs[n * len(LEVELS):(n + 1) * len(LEVELS)]
            res[i]["scaled"] = [{"m": lv, "out": o, "size": sz} for lv, (o, _d, sz) in zip(LEVELS, mine)]
            if grows(res[i]["scaled"]):
                self.proven.setdefault((group_key(jobs[i]), huge_at(jobs[i][2])),
                                       {"tags": list(jobs[i][2]), "runs": res[i]["scaled"]})
        for i in big:
            self.attach_witness(jobs[i], res[i])
        again = [i for i in slow if not scaled_ok(res[i], jobs[i][2])]
        # Re-running hundreds of cases that really hang (10 s each) would take the check far beyond
        # its time limit on a defective tree.  Beyond MAX_ALONE cases the first REPS of every site
        # are re-run alone; where none of them ends either, the site's other cases are believed.
        groups = {}
        for i in again:
            groups.setdefault(group_key(jobs[i]), []).append(i)
        reps = [i for g in groups.values() for i in g[:REPS]]
        redo = dict(zip(reps, self._alone([jobs[i] for i in reps])))
        rest = []
        for g in groups.values():
            ended = any(redo[i][0] not in SLOW for i in g[:REPS])
            if ended or len(again) <= MAX_ALONE:
                rest.extend(g[REPS:])
            else:
                for i in g[REPS:]:
                    res[i]["detail"] = "not re-run alone: the first cases of this site did not end alone either"
        redo.update(zip(rest, self._alone([jobs[i] for i in rest])))
        for i, (out, detail) in redo.items():
            res[i]["out"], res[i]["detail"] = out, detail
            if out not in SLOW:
                res[i]["scaled"], res[i]["witness"] = [], None       # it ended after all: nothing to excuse
                if out == "error:ok" and jobs[i][0] in ("form", "prog"):
                    res[i]["caught"] = "timeout"                      # probed below, alone
        # catch probes that did not end in time: once more, alone, with the longer bound
        late = [i for i, r in enumerate(res) if r["caught"] == "timeout"]
        for i, c in zip(late, self._alone([jobs[i] for i in late], _isolated_caught)):
            res[i]["caught"] = c
        return res

    def attach_witness(self, job, r):
        """a case whose stand-in runs end properly but show no growth of their own (they fail, or yield
        something small) may point to a case of the same site, with the huge ints at the same positions,
        whose result does grow"""
        if r["out"] in SLOW and all_proper(r["scaled"]) and not grows(r["scaled"]):
            r["witness"] = self.proven.get((group_key(job), huge_at(job[2])))

    def hangs_alone(self):
        """over budget: do the cases that did not end really hang?  (a handful would not have cost
        the time; three of them are re-run alone, the others forgotten if these end).  Cases holding a huge
        int count only when their stand-in runs do not excuse them: at least three such cases of different
        sites that do not end alone either (a correct tree has the odd case that is excused by a witness)."""
        if len(self.hanging) >= 8:
            probe, self.hanging = self.hanging[:3], []
            if any(out in SLOW for out, _ in self._alone(probe)):
                return True
        if len(self.hanging_huge) >= 24:
            by_site = {}
            for j in self.hanging_huge:
                by_site.setdefault(group_key(j), j)
            probe, self.hanging_huge = list(by_site.values())[:6], []
            runs = self._alone([scaled_job(j, lv) for j in probe for lv in LEVELS], _isolated_sized)
            left = []
            for n, j in enumerate(probe):
                mine = [{"m": lv, "out": o, "size": sz}
                        for lv, (o, _d, sz) in zip(LEVELS, runs[n * len(LEVELS):(n + 1) * len(LEVELS)])]
                if not grows(mine):
                    left.append(j)
            if len(left) >= 3 and sum(out in SLOW for out, _ in self._alone(left)) >= 3:
                return True
        return False

    def caught(self, jobs):
        if self.cut:
            return [""] * len(jobs)
        self.evaluations += len(jobs)
        res = self.pool.map(_caught_one, jobs, chunksize=20)
        late = [i for i, c in enumerate(res) if c == "timeout"]       # never believed at once either
        for i, c in zip(late, self._alone([jobs[i] for i in late], _isolated_caught)):
            res[i] = c
        return res


MAX_ALONE = 64
REPS = 2
BUDGET_S = {"quick": 150, "thorough": 1500}
SKIPPED = {"out": "skipped", "detail": "", "caught": "", "scaled": [], "witness": None}


def suspicious(job, out):
    """2 = an outcome the property forbids, 1 = no outcome in time (to be looked at again), 0 = allowed"""
    if out in ("value", "error:ok", "host:MemoryError"):
        return 0
    if out == "timeout":
        return 1
    return 2


def group_key(job):
    """the site of a job: the function (with the shape of the call), the form, the observer of a graph program"""
    return job[2][-1] if job[0] == "prog" else job[1]


def _caught_one(job):
    return run_caught(job)


def param_count(argnames):
    return 9 if any(a.endswith("...") for a in argnames) else len(argnames)


def shapes_for(shapes, argnames):
    """the calls FormsCall.tla marks `skips` for a function with these parameters: the canonical call for
    every set of at most three parameters that no positional call binds -> lists of binders ('' / name)"""
    named = [a for a in argnames if not a.endswith("...")]
    rest = len(named) != len(argnames)
    out = []
    for sh in shapes:
        if sh["skips"] and sh["n"] == len(named) and sh["rest"] == rest:
            out.append(["" if b == 0 else named[b - 1] for b in sh["call"]])
    return sorted(out, key=lambda c: (len(c), c))


def function_jobs(run, sites, rng, quick, shapes):
    """-> jobs of the function sweep.  Arity 0 and 1: every site.  Arity 2 and
    3: one site per distinct function (the same native class / the same lambda
    is bound under several names and in several environments).
    Round 3: every distinct function is also called in the shapes of FormsCall.tla that bind a set of
    parameters no positional call reaches (`find_last(p0, p1, start = p2)`, `sorted(p0, key = p1)`): one
    argument always, two and three after a probe (-> pending, see named_jobs)."""
    reps = {}
    for s in sorted(sites):
        reps.setdefault(tuple(map(str, sites[s][2])), s)
    reps = sorted(reps.values())

    def tagset(site):
        return POOL_TAGS + (SANDBOX_TAGS if site.startswith("nonsecure:") else [])

    jobs = []
    for s in sorted(sites):
        jobs.append(("fn", s, ()))
        jobs.extend(("fn", s, (t,)) for t in tagset(s))
    for s in reps:
        jobs.extend(("fn", s, t) for t in itertools.product(tagset(s), repeat=2))
    # the wider pool: single arguments always, pairs with at least one wide value in the thorough tier
    for s in reps:
        jobs.extend(("fn", s, (t,)) for t in EXTRA_TAGS)
        if quick:
            # a wide value next to a few everyday partners (a count, an index, a separator, NULL)
            partners = ["i0", "i2", "ineg", "null", "sa", "x_i3"]
            # the round-2 values also meet a date and a decimal (numbers) or a list, a set and a map
            def more(a):
                if a in HUGE_TAGS or a == "x_lhugedec":
                    return ["date", "dneg"]
                if a in LATE_SRC:          # something to call them on more than once
                    return ["l2", "x_l123", "set1", "map1"]
                if a == "x_dmax":          # a digit count left of the point
                    return ["x_ineg308", "x_ineg5"]
                if a == "x_soptgroup":     # texts the pattern matches with and without its group
                    return ["x_sabc", "x_sabcb"]
                if a in ("x_stdin", "x_hostin", "x_stdout", "x_hostout"):       # something to hand the lines to
                    return ["lambda", "x_fn0"]
                return ["l2", "set1", "map1"] if a in GRAPH_SRC else []
            for a in EXTRA_TAGS:
                # (the 5000-digit int differs from 10^400 in its rendering only: three partners)
                for b in (["i2", "sa", "null"] if a == "x_i5000" else partners + more(a)):
                    if a != b:
                        jobs.append(("fn", s, (a, b)))
                        jobs.append(("fn", s, (b, a)))
        if not quick:
            both = tagset(s) + EXTRA_TAGS
            jobs.extend(("fn", s, (a, b)) for a in both for b in both
                        if (a in EXTRA_SRC or b in EXTRA_SRC) and not (a == "x_sbig" and b == "x_sbig"))
            # (two 5000-character strings make join / replace / split build 25 MB results: work, not a hang)
    three = []
    for s in reps:
        if quick and param_count(sites[s][1]) < 3:
            continue      # every such call is rejected when the arguments are bound
        three.extend(("fn", s, t) for t in itertools.product(tagset(s), repeat=3))
    population = len(three)
    if quick and len(three) > QUICK_ARITY3:
        three = rng.sample(three, QUICK_ARITY3)
    jobs.extend(three)
    # ---- round 3: arguments bound by name
    pending, wide_named, nshapes = [], [], 0
    for s in reps:
        if len([a for a in sites[s][1] if not a.endswith("...")]) > max(sh["n"] for sh in shapes):
            BEYOND_MODEL.append(s)          # more parameters than FormsCall.cfg models: reported, not guessed at
        for names in shapes_for(shapes, sites[s][1]):
            what = shaped_site(s, names)
            nshapes += 1
            if len(names) == 1:
                jobs.extend(("fn", what, (t,)) for t in tagset(s))
            else:
                # two and three arguments: first the same value in all places; a shape that leaves a required
                # parameter out answers every one of them with 'Missing argument' and is not multiplied out
                jobs.extend(("fn", what, (t,) * len(names)) for t in tagset(s))
                pending.append((what, tagset(s), len(names)))
            if len(names) >= 2:
                # the wide pool at each place, the other places filled from three plain values
                for pos_ in range(len(names)):
                    for x in EXTRA_TAGS:
                        for b_ in ["l2", "sa", "i2"]:
                            wide_named.append(("fn", what, tuple(x if q == pos_ else b_ for q in range(len(names)))))
    if quick and len(wide_named) > QUICK_NAMED_WIDE:
        wide_named = rng.sample(wide_named, QUICK_NAMED_WIDE)
    jobs.extend(wide_named)
    return jobs, reps, population, pending, nshapes


def named_jobs(pending, fjobs, fres, rng, quick):
    """the two- and three-argument calls by name, for the shapes whose probe shows that they reach the
    function's body (some call with the same value in all places was not answered with 'Missing argument');
    two arguments exhaustively, three exhaustively in the thorough tier"""
    missing = {}
    for job, r in zip(fjobs, fres):
        if "(" in job[1] and len(job[2]) >= 2 and len(set(job[2])) == 1:
            missing.setdefault(job[1], []).append(r["out"] == "error:ok" and r["detail"] == "missing")
    two, three, live = [], [], {2: 0, 3: 0}
    for what, tags, k in pending:
        if missing.get(what) and all(missing[what]):
            continue
        live[k] += 1
        (two if k == 2 else three).extend(("fn", what, t) for t in itertools.product(tags, repeat=k)
                                          if len(set(t)) > 1)
    population = len(three)
    if quick and len(three) > QUICK_NAMED3:
        three = rng.sample(three, QUICK_NAMED3)
    return two + three, live, population


def mut_probes(sites, reps):
    """-> the probe jobs of (a): every ordered pair of parameters of every distinct function, the others absent,
    one of them filled, all of them filled; every kind of collection; a function that changes nothing"""
    jobs = []
    for s in reps:
        named = [a for a in sites[s][1] if not a.endswith("...")]
        for pc in named:
            for pf in named:
                if pc == pf:
                    continue
                others = [a for a in named if a not in (pc, pf)]
                fills = [[]] + [[o] for o in others] + ([others] if len(others) > 1 else [])
                for fill in fills:
                    what = shaped_site(s, [pc, pf] + fill)
                    for kind in MUT_COLL:
                        jobs.append(("mut", what, (kind, "none", "arg") + ("i2",) * len(fill)))
    return jobs


def mut_expand(probes, results):
    """the probes during which the function was called, with every way of changing the collection and every answer"""
    jobs, called = [], 0
    for job, r in zip(probes, results):
        if r["detail"] != "called":
            continue
        called += 1
        kind = job[2][0]
        if kind == "string":
            continue
        for mode in MUT_MODES:
            for answer in MUT_ANSWERS:
                if (mode, answer) != ("none", "arg"):
                    jobs.append(("mut", job[1], (kind, mode, answer) + job[2][3:]))
    return jobs, called


def strfn_jobs(sites, reps):
    """every distinct function as the `_str_` member of an object - built-ins and functions written in the language
    (one that renders its argument - esc, max, printf - recurses through `_str_` until the stack is used up; the
    unwinding once rendered the arguments of every frame again, time exponential in the depth: repaired, and a
    case that does not end is reported like every other one)"""
    return [("strfn", s, (wrap,)) for s in reps for wrap in STR_WRAPS]


def shadow_jobs(sites, reps, names, quick):
    """-> (function jobs, form jobs [(site, job)])"""
    fjobs, pjobs = [], []
    for name in sorted(names):
        classes = names[name]
        targets = [s for s in reps if sites[s][2][0] == "native" and sites[s][2][2] in classes]
        if not quick or (classes and not targets):
            targets = list(reps)
        for s in targets:
            for v in SHADOW_VALUES:
                for args in (SHADOW_ARGS if len(targets) < 40 else SHADOW_ARGS[:4]):
                    fjobs.append(("shadow", s, (name, v) + args))
        for tag, text in (("require", f"def {name} = p0; require Nosuchmodule5"),
                          ("require_list", f"def {name} = [p0]; require Nosuchmodule5"),
                          ("everyday", f"def {name} = p0; [sorted([2, 1]), 1 / 0, ls(), string([1])]; println('')")):
            for v in POOL_TAGS + ["x_lshort", "x_snul", "x_sname_int"]:
                pjobs.append((f"shadow:{name}:{tag}", ("form", text, (v,))))
    return fjobs, pjobs


def host_jobs():
    return [("host", host, (sec, name)) for host in ("run", "repl") for sec in ("secure", "nonsecure")
            for name in sorted(HOST_CASES)]


BEYOND_MODEL = []
QUICK_NAMED3 = 12000
QUICK_NAMED_WIDE = 6000
QUICK_ARITY3 = 40000


def guard_sites():
    """line -> class of every `raise CklRuntimeError` statement of nodes.py (the guards of the evaluation nodes)"""
    sites, cls = {}, ""
    try:
        with open(os.path.join(REPO, "src", "ckl", "nodes.py")) as f:
            for n, line in enumerate(f, 1):
                if line.startswith(("class ", "def ")):
                    cls = line.split()[1].split("(")[0].rstrip(":")
                if line.strip().startswith("raise CklRuntimeError"):
                    sites[n] = cls
    except OSError:
        pass
    return sites


def graph_cases(run, res):
    """the programs TLC generated from FormsGraph.tla, one per text"""
    run.add_tlc(res, "FormsGraph (programs building self-containing data, proto loops, changed keys; "
                     "Total, WalkIsCycle, LookupEnds, OldLookupLoops)")
    cases = {}
    for c in res.records("GCASE"):
        cases.setdefault(c["text"], c)
    if not cases:
        raise MachineryError("TLC exported no graph programs")
    if any(c["pred"] not in ("value", "error", "any") for c in cases.values()):
        raise MachineryError("FormsGraph.tla exported a stuck case although Total held")
    return [cases[t] for t in sorted(cases)]


def call_shapes(run, res):
    """the decided calls of FormsCall.tla, one per (signature, call)"""
    run.add_tlc(res, "FormsCall (argument binding: positional, by name, rest; Agrees, Total, Placed, CanonBinds)")
    seen = {}
    for c in res.records("SHAPE"):
        seen.setdefault((c["n"], c["rest"], tuple(c["call"])), c)
    if not seen:
        raise MachineryError("TLC exported no call shapes")
    return [seen[k] for k in sorted(seen)]


def call_text(sh):
    """the probe: a function whose parameters all have the default -1 returns what they hold; the j-th
    argument of the call is the int 10 * j (FormsCallOps!CallObserved)"""
    n = sh["n"]
    params = [f"a{p} = -1" for p in range(1, n + 1)] + (["r..."] if sh["rest"] else [])
    body = [f"a{p}" for p in range(1, n + 1)] + (["...r..."] if sh["rest"] else [])
    args = []
    for j, b in enumerate(sh["call"], 1):
        args.append(f"{10 * j}" if b == 0 else (f"a{b} = {10 * j}" if b <= n else f"zz = {10 * j}"))
    return f"(fn({', '.join(params)}) [{', '.join(body)}])({', '.join(args)})"


def call_tags(sh):
    return (f"n{sh['n']}{'r' if sh['rest'] else ''}", ",".join(map(str, sh["call"])), "callshape")


def graph_tags(c):
    """a description of the program for keys and reports; the observer comes last"""
    return tuple(list(c["kinds"]) + [f"{s['op']}:{s['x']}:{s['y']}" for s in c["steps"]]
                 + [f"{c['obs']['x']}:{c['obs']['y']}", c["obs"]["name"]])


class Verdicts:
    """the records of the parts of one trace, line numbers counted over the whole trace"""

    def __init__(self):
        self.recs = {}

    def add(self, res, offset):
        for tag in ("BAD", "DRIFT"):
            for r in res.records(tag):
                self.recs.setdefault(tag, []).append(dict(r, l=r["l"] + offset))

    def records(self, tag):
        return sorted(self.recs.get(tag, []), key=lambda r: r["l"])


def validate(run, events, label, parts=3):
    """Natives_Trace over the recorded events; a long trace is cut into parts validated side by
    side (trace validation runs on one TLC worker; an event is judged on its own)"""
    d = tempfile.mkdtemp(prefix="c13-")
    parts = max(1, min(parts, len(events) // 5000 + 1))
    size = -(-len(events) // parts)
    cuts = [(i, events[i:i + size]) for i in range(0, len(events), size)]

    def one(cut):
        offset, evs = cut
        path = os.path.join(d, f"trace-{offset}.ndjson")
        with open(path, "w") as f:
            for e in evs:
                f.write(json.dumps(e) + "\n")
        return tlc("Natives_Trace", workers=1, env={"TRACE_FILE": path}, timeout=3000, coverage=True)

    try:
        with concurrent.futures.ThreadPoolExecutor(len(cuts)) as ex:
            results = list(ex.map(one, cuts))
    finally:
        shutil.rmtree(d, ignore_errors=True)
    verdicts = Verdicts()
    for (offset, evs), res in zip(cuts, results):
        run.add_tlc(res, label + (f" [events {offset + 1}..{offset + len(evs)}]" if len(cuts) > 1 else ""))
        done = res.records("DONE")
        if not done or done[-1]["n"] != len(evs):
            raise MachineryError("Natives_Trace did not consume the whole trace")
        verdicts.add(res, offset)
    return verdicts


NO_WITNESS = {"tags": [], "runs": []}


def event(site, form, tags, r, n=1):
    return {"site": site, "form": form, "tags": list(tags), "n": n, "out": r["out"],
            "caught": r["caught"], "scaled": r["scaled"], "witness": r.get("witness") or NO_WITNESS}


def scaled_class(r, tags):
    """how the stand-in runs of a case ended (function events are aggregated by it)"""
    if not r["scaled"]:
        return ""
    if scaled_ok(r, tags):
        return "grows" if grows(r["scaled"]) else "witnessed"
    return "unexcused"


def report(run, res, events, cases):
    """TLC's verdicts -> violations (first tuple per (site, outcome), all counted)."""
    bad = {}
    for b in res.records("BAD"):
        e = events[b["l"] - 1]
        what = e["out"] if e["out"] != "error:ok" else "error-not-caught:" + e["caught"]
        k = (e["site"], what)
        if k not in bad:
            bad[k] = [0, b["l"] - 1]
        bad[k][0] += e["n"]
    for (site, what), (n, i) in sorted(bad.items()):
        e = events[i]
        cat = what.split(":")[0]
        run.violation(f"{site}|{','.join(e['tags'])}|{what}",
                      f"{cat}: {site}({', '.join(e['tags'])}) -> {what}"
                      f"{' (' + cases[i]['detail'] + ')' if cases[i].get('detail') else ''}; "
                      f"{n} argument tuple(s) of this site end this way",
                      cases[i]["case"])
    for dr in res.records("DRIFT"):
        e = events[dr["l"] - 1]
        run.drift("prediction:" + (e["site"] if e["form"] in ("graph", "call") else e["form"]),
                  {"form": e["form"], "tags": e["tags"], "predicted": dr["pred"], "observed": e["out"]})
    return bad


def run(run):
    quick = run.tier == "quick"
    rng = random.Random(run.seed)
    t0 = time.time()
    # ---- binding A: the cases TLC generates from Forms.tla
    with concurrent.futures.ThreadPoolExecutor(2) as ex:      # the models side by side
        graph_run = ex.submit(tlc, "FormsGraph", "FormsGraph_quick" if quick else "FormsGraph_thorough",
                              coverage=False, timeout=3000)
        call_run = ex.submit(tlc, "FormsCall", "FormsCall", coverage=True, timeout=3000)
        forms_run = tlc("Forms", "Forms_quick" if quick else "Forms_thorough", coverage=True, timeout=3000)
        graph_run = graph_run.result()
        call_run = call_run.result()
    run.add_tlc(forms_run, "Forms (every form applied to every pool tuple; NotStuck)")
    forms = forms_run.records("FORMS")[0]
    pool = forms_run.records("POOL")[0]
    if pool != POOL_TAGS:
        raise MachineryError("the pool of FormsOps.tla and of the harness differ")
    cases = sorted(set(tuple(c) for c in forms_run.records("CASE")))
    if not cases:
        raise MachineryError("TLC exported no cases")
    if any(c[4] == 2 for c in cases):
        raise MachineryError("Forms.tla exported a stuck case although NotStuck held")
    form_jobs = []
    for f, i, j, k, _c in cases:
        fm = forms[f - 1]
        form_jobs.append(("form", fm["text"], tuple(pool[x - 1] for x in (i, j, k)[:fm["ar"]])))
    sw = Sweep(run)
    try:
        sites = sw.sites()
        fres = sw.execute(form_jobs)
        events, meta = [], []
        for (f, i, j, k, c), job, r in zip(cases, form_jobs, fres):
            if r["out"] == "skipped":
                continue
            fm = forms[f - 1]
            events.append(event("form:" + fm["name"], fm["name"], job[2], r))
            meta.append({"detail": r["detail"],
                         "case": {"kind": "form", "what": job[1], "tags": list(job[2]), "form": fm["name"]}})
        # the same forms on the wide pool (values the TLC pool has no representative of: a map
        # with a non-string key, nested lists, FALSE, ...): one position at a time, the others
        # filled from three plain values; judged on the outcome class only (no model prediction)
        base = ["i2", "sa", "l2"]
        wide_jobs = []
        for fm in forms:
            ar = fm["ar"]
            for pos_ in range(ar):
                for x in EXTRA_TAGS:
                    if x == "x_sbig" and fm["name"].startswith(("for", "compr", "lcompr", "scompr", "mcompr", "spread", "in_", "destr")):
                        continue     # iterating 5000 characters in nested loops is work, not a hang
                    for b in (base if ar > 1 else base[:1]):
                        tags = tuple(x if q == pos_ else b for q in range(ar))
                        wide_jobs.append((fm, ("form", fm["text"], tags)))
        if quick:
            # the round-2 values always; a seeded sample of the others
            kept = set(GRAPH_SRC) | set(LATE_SRC) | set(NAME_SRC)
            keep = [wj for wj in wide_jobs if any(t in kept for t in wj[1][2])]
            others = [wj for wj in wide_jobs if not any(t in kept for t in wj[1][2])]
            if len(others) > 12000:
                others = rng.sample(others, 12000)
            wide_jobs = others + keep
        wres = sw.execute([j for _, j in wide_jobs])
        for (fm, job), r in zip(wide_jobs, wres):
            if r["out"] == "skipped":
                continue
            events.append(event("form:" + fm["name"] + ":wide", "", job[2], r))
            meta.append({"detail": r["detail"],
                         "case": {"kind": "form", "what": job[1], "tags": list(job[2]), "form": fm["name"]}})
        # ---- round 2: the programs of FormsGraph.tla (data that is finite but not a tree)
        gcases = graph_cases(run, graph_run)
        gjobs = [("prog", c["text"], graph_tags(c)) for c in gcases]
        gres = sw.execute(gjobs)
        gstats = {"programs": len(gcases), "cyclic": 0, "proto_loop": 0, "stale_key": 0, "observers": {}}
        for c, job, r in zip(gcases, gjobs, gres):
            if r["out"] == "skipped":
                continue
            g = {"kinds": c["kinds"], "steps": c["steps"], "obs": c["obs"]}
            ev = event("graph:" + c["obs"]["name"], "graph", job[2], r)
            ev["g"] = g
            events.append(ev)
            meta.append({"detail": r["detail"],
                         "case": {"kind": "prog", "what": job[1], "tags": list(job[2]), "form": "graph", "g": g}})
            gstats["cyclic"] += bool(c["cyc"])
            gstats["proto_loop"] += bool(c["ploop"])
            gstats["stale_key"] += bool(c["stale"])
            o = gstats["observers"].setdefault(c["obs"]["name"], {})
            o[r["out"]] = o.get(r["out"], 0) + 1
        # ---- round 3: the calls of FormsCall.tla on a probe function (what did each parameter receive?)
        shapes = call_shapes(run, call_run)
        cjobs = [("prog", call_text(sh), call_tags(sh)) for sh in shapes]
        for sh, job, r in zip(shapes, cjobs, sw.execute(cjobs)):
            if r["out"] == "skipped":
                continue
            obs = None
            if r["out"] == "value" and r["detail"].startswith("["):
                try:
                    obs = json.loads(r["detail"])
                except ValueError:
                    obs = None
                r = dict(r, detail="")
            c = {"n": sh["n"], "rest": sh["rest"], "call": sh["call"], "seen": obs is not None, "obs": obs or []}
            ev = event("call:" + job[2][0], "call", job[2], r)
            ev["c"] = c
            events.append(ev)
            meta.append({"detail": r["detail"],
                         "case": {"kind": "prog", "what": job[1], "tags": list(job[2]), "form": "call", "c": c}})
        nform = len(events)
        lines_a = set(sw.lines)          # what the forms, the forms on the wide pool and the graph programs executed
        t1 = time.time()
        # ---- binding B: the function sweep over the live environments
        fjobs, reps, population3, pending, nshapes = function_jobs(run, sites, rng, quick, shapes)
        gres = sw.execute(fjobs)
        njobs, live, named3_population = named_jobs(pending, fjobs, gres, rng, quick)
        gres = gres + sw.execute(njobs)
        fjobs = fjobs + njobs
        groups = {}
        trivial = 0
        for job, r in zip(fjobs, gres):
            if r["out"] == "skipped":
                continue
            if r["detail"] == "too-many":
                trivial += 1
            sw.attach_witness(job, r)        # (a case of the same site proven later in the same sweep)
            key = (job[1], len(job[2]), r["out"], scaled_class(r, job[2]))
            g = groups.get(key)
            if g is None:
                groups[key] = [job, r, 1]
            else:
                g[2] += 1
        # catch must intercept the error: probed on the first erroring tuple of every site and arity
        probe = [g for key, g in sorted(groups.items()) if key[2] == "error:ok"]
        for g, c in zip(probe, sw.caught([g[0] for g in probe])):
            g[1] = dict(g[1], caught=c)
        for key, (job, r, n) in sorted(groups.items()):
            events.append(event(job[1], "", job[2], r, n))
            meta.append({"detail": r["detail"],
                         "case": {"kind": "fn", "what": job[1], "tags": list(job[2])}})
        # ---- round 5: functions that change the collection a built-in walks, `_str_` members, shadowed names,
        # the hosts
        t_r5 = time.time()
        names = looked_up_names()
        probes = mut_probes(sites, reps)
        pres = sw.execute(probes)
        mjobs, called = mut_expand(probes, pres)
        sfjobs, spjobs = shadow_jobs(sites, reps, names, quick)
        r5jobs = probes + mjobs + strfn_jobs(sites, reps) + sfjobs + [j for _s, j in spjobs] + host_jobs()
        r5res = pres + sw.execute(r5jobs[len(probes):])
        r5sites = {}
        for (site5, j5) in spjobs:
            r5sites[id(j5)] = site5
        r5count = {}
        for job, r in zip(r5jobs, r5res):
            if r["out"] == "skipped":
                continue
            site5 = r5sites.get(id(job)) or f"{job[0]}:{job[1]}"
            r5count[job[0] if job[0] != "form" else "shadow-form"] = r5count.get(job[0] if job[0] != "form" else "shadow-form", 0) + 1
            events.append(event(site5, "", job[2], dict(r, detail="" if r["detail"] == "called" else r["detail"])))
            meta.append({"detail": "" if r["detail"] == "called" else r["detail"],
                         "case": {"kind": job[0], "what": job[1], "tags": list(job[2]), "site": site5,
                                  **({"form": site5} if job[0] == "form" else {})}})
        run.cov["round5"] = {"cases": r5count, "mutation_probes": len(probes), "probes_in_which_the_function_was_called": called,
                             "names_looked_up": {n: names[n] for n in sorted(names)},
                             "host_cases": sorted(HOST_CASES), "seconds": round(time.time() - t_r5, 1)}
        evaluations = sw.evaluations
        cut, skipped = sw.cut, sw.skipped
    finally:
        sw.close()
    t2 = time.time()
    # a case whose stand-in runs show no growth of their own may be excused by a case of its site that was
    # proven in a later sweep (the same form on the wide pool)
    for e, m in zip(events, meta):
        if e["out"] in SLOW and all_proper(e["scaled"]) and not grows(e["scaled"]) and not e["witness"]["runs"]:
            e["witness"] = sw.proven.get((m["case"]["what"], huge_at(e["tags"]))) or NO_WITNESS
    res = validate(run, events, "Natives_Trace (recorded outcomes of forms and functions)")
    bad = report(run, res, events, meta)
    if cut:
        run.cov["incomplete"] = {"cases_not_executed": skipped, "budget_s": BUDGET_S[run.tier if run.tier in BUDGET_S else "thorough"],
                                 "why": "outcomes the property forbids had been seen when the time budget ran out"}
        if not bad:
            raise MachineryError("the time budget ran out after suspected violations, none of which was confirmed: "
                                 "no verdict (run again on a quieter machine)")
    # cross-check of the machinery: TLC must reject exactly what the grammar of outcomes forbids
    expect_bad = sum(1 for e in events if not (
        e["out"] == "value" or (e["out"] == "error:ok" and e["caught"] in ("", "caught", "not-raised"))
        or scaled_ok(e, e["tags"])))
    if expect_bad != len(res.records("BAD")):
        raise MachineryError(f"Natives_Trace rejected {len(res.records('BAD'))} events, expected {expect_bad}")
    for e in events:
        if e["scaled"]:
            run.drift(("magnitude:" if scaled_ok(e, e["tags"]) else "magnitude-unexcused:") + e["site"],
                      {"site": e["site"], "tags": e["tags"], "outcome": e["out"], "stand_ins": e["scaled"],
                       "witness": e["witness"]["tags"]})
    outcomes = {}
    for e in events:
        outcomes[e["out"]] = outcomes.get(e["out"], 0) + e["n"]
    run.sample({"form_case": meta[nform // 3]["case"], "outcome": events[nform // 3]["out"]})
    run.sample({"form_case": meta[nform // 2]["case"], "outcome": events[nform // 2]["out"]})
    if len(events) > nform:          # (no function event when the time budget ended the run early)
        run.sample({"function_event": events[nform + (len(events) - nform) // 2]})
        run.sample({"function_event": events[-1]})
    ncalls = sum(e["n"] for e in events)        # executed cases (forms, forms on the wide pool, graph programs, calls)
    run.cov["traces_validated_against_impl"] = ncalls
    if run.tier != "quick":
        evaluations += slow_cases(run)
    run.cov["evaluations"] = evaluations
    run.cov["distinct_nontrivial"] = ncalls - trivial
    run.cov["rule"] = ("distinct (form, argument tuple) cases and graph programs generated by TLC, the forms applied "
                       "to the wide pool, plus distinct (function site, argument tuple) calls, minus the calls rejected with 'Too many arguments' when the "
                       "arguments are bound; evaluations also counts the catch probes and the re-runs")
    run.cov["exhaustive"] = not quick
    run.cov["forms"] = len(forms)
    gs = guard_sites()
    if lines_a and gs:
        run.cov["guard_sites"] = {
            "what": "`raise CklRuntimeError` statements of nodes.py executed by the cases of binding A "
                    "(forms, forms on the wide pool, graph programs, call shapes); an unreached guard is one "
                    "the check cannot miss",
            "raise_sites": len(gs), "reached": sum(1 for n in gs if n in lines_a),
            "unreached": [f"{gs[n]}:{n}" for n in sorted(gs) if n not in lines_a]}
    run.cov["graph_programs"] = gstats
    run.cov["form_cases"] = len(form_jobs)
    run.cov["function_sites"] = len(sites)
    run.cov["distinct_functions"] = len(reps)
    run.cov["function_calls"] = len(fjobs)
    run.cov["arity3_population"] = population3
    run.cov["call_shapes"] = {"decided_calls": len(shapes), "binding": sum(1 for sh in shapes if sh["err"] == ""),
                              "skipping": sum(1 for sh in shapes if sh["skips"]),
                              "function_shapes": nshapes,
                              "functions_with_more_parameters_than_modelled": sorted(set(BEYOND_MODEL)),
                              "two_argument_shapes": sum(1 for p in pending if p[2] == 2),
                              "two_argument_shapes_reaching_the_body": live[2],
                              "three_argument_shapes": sum(1 for p in pending if p[2] == 3),
                              "three_argument_shapes_reaching_the_body": live[3],
                              "named3_population": named3_population,
                              "calls_by_name": sum(1 for j in fjobs if "(" in j[1])}
    run.cov["outcomes"] = outcomes
    run.cov["trace_events"] = len(events)
    run.cov["rejected_events"] = len(res.records("BAD"))
    run.cov["violating_calls"] = sum(n for n, _i in bad.values())
    run.cov["phase_seconds"] = {"forms": round(t1 - t0, 1), "functions": round(t2 - t1, 1),
                                "trace_validation": round(time.time() - t2, 1)}
    run.cov["bounds"] = {
        "pool": POOL_TAGS, "sandbox_pool": SANDBOX_TAGS, "wide_pool": EXTRA_SRC, "alarm_cpu_s": ALARM_S, "isolated_cpu_s": ISOLATED_S,
        "wall_factor": WALL_FACTOR, "stand_in_levels": LEVELS, "growth": GROWTH,
        "forms_cfg": "Forms_quick" if quick else "Forms_thorough",
        "graph_cfg": "FormsGraph_quick" if quick else "FormsGraph_thorough",
        "round2_pool": sorted(GRAPH_SRC), "round3_pool": sorted(LATE_SRC), "budget_s": BUDGET_S, "max_alone": MAX_ALONE,
        "function_arity": ("0-1 every site; 2 every distinct function; 3 " +
                           (f"seeded sample of {QUICK_ARITY3} over the functions with three or more parameters"
                            if quick else "every distinct function, exhaustive")),
    }
    run.assumptions += [
        "the spec models the syntactic forms (Forms.tla); for the functions it contributes the enumeration "
        "discipline and the grammar of allowed outcomes only: the decision there is the recorded exception class",
        "a case holding a huge int (2^70, 10^400, 10^5000) that does not finish (or exhausts memory) is re-run with "
        f"stand-ins of two magnitudes ({LEVELS[0]} and {LEVELS[1]}, times 1 / 2 / 3 for the three ints); it is excused "
        f"only if both end properly and the size of the result grows with the stand-in (at least {GROWTH}-fold: "
        "range(2^70), pow(2, 2^70) - a result no implementation writes down faster), or if another case of the same "
        "site with the huge ints at the same argument positions shows that growth; reported under drift "
        "'magnitude:*'.  Every other case that does not end is a violation (rendering 10^5000, counting years up to 2^70)",
        "the time bound of a case is processor time of the worker (2 s; 10 s when re-run alone), with a wall-clock "
        "backstop 20 times as long; a catch probe that does not end in time is re-run alone like a case",
        "round 3: FormsCall.tla models argument binding (positional, by name, rest parameter; Args.setArgs); its "
        "decided calls (MaxParams 5, MaxArgs 3) are run on a probe function and the recorded bindings compared by "
        "Natives_Trace; every distinct function is called in each canonical shape that binds a set of parameters "
        "no positional call reaches: one argument always; two and three arguments when a probe (the same value in all places) shows that "
        "the shape reaches the function's body - two exhaustively over the pool, three exhaustively in the thorough "
        f"tier and as a seeded sample of {QUICK_NAMED3} in the quick tier; the wide pool at "
        f"each place of a shape (quick: seeded sample of {QUICK_NAMED_WIDE})",
        "arity 2 and 3 are run on one site per distinct function (same native class / same lambda source position)",
        "non-secure natives run in a private sandbox directory with PATH holding only `true` and `echo`; "
        "their extra pool values are 'true', 'f.txt' (a file), 'd' (a directory), ['x']",
        "catch is probed (`do <case> catch all ... end`) for every erroring form case and for the first erroring "
        "tuple of every (function site, arity)",
        "forms of arity 3 use the 11-value sub-pool of Forms_quick.cfg in the quick tier",
        "round 2: the wide pool also holds data that is finite but no tree (collections holding themselves, a "
        "`_proto_` chain leading back into itself, a list nested 1500 deep, a map / set keyed by a list changed "
        "afterwards, an int of 5001 digits, a list mixing 10^400 with a decimal); these values are never sampled "
        "away and meet additional partners (a date and a decimal, or a list, a set and a map)",
        "FormsGraph.tla: NCells collections, at most MaxSteps mutating statements, one observer "
        "(quick 2 / 2, thorough 2 / 3); for ==, < and `in` the model allows both outcome classes",
        "a case that does not end within 2 s of processor time is re-run alone with 10 s; beyond 64 such cases only the first two "
        "of every site are re-run and, where neither ends, the site's others are believed; once the time budget "
        "(quick 150 s, thorough 1500 s) is spent on a tree already known to violate the property the remaining "
        "cases are not executed (coverage.incomplete) - such a run never exits 0",
        "beyond the fixed pool, every distinct function is also called with each value of a wider pool "
        "(nested lists, '(' as pattern text, an object with methods, functions of other arities, ...) as its "
        "single argument, and in the thorough tier with every pair holding at least one such value",
        "round 3: FormsOps has both booleans in its pool and a family of forms (LaterForms) in which the pool value "
        "reaches a guard on the second or third evaluation (loop and comprehension conditions, later operands of "
        "and / or, elif, later elements to destructure, later spread arguments); the wide pool holds three functions "
        "that answer properly on their first call only, for the guards inside natives that call a function per "
        "element; coverage.guard_sites lists the `raise CklRuntimeError` statements of nodes.py no case of binding A "
        "executed (two remain: reading a closed file input and an unreadable module file need the file system)",
        "the read-eval-print loop (ckl.repl.main, driven in-process by harness/repl.py) is given lines whose "
        "evaluation fails or yields values of every kind: no host exception may end the session",
    ]
    # ---- evaluation inside the read-eval-print loop: printing a result or an error must not raise either
    from . import repl

    def repl_report(key, what, case):
        # the session has a wall-clock alarm of its own; on a crowded machine it can end a session whose
        # lines are fine: a line reported that way is given once more, alone, with a long bound
        if "_Alarm" in what:
            try:
                _p, _o, exc = repl.session(case["lines"] + ["exit"], secure=case.get("secure", True), limit=120)
            except Exception:  # noqa: BLE001
                exc = True
            if exc is None:
                return
        run.violation(key, what, case)
    nrepl = repl.eval_sessions(repl_report)
    run.cov["repl_lines_evaluated"] = nrepl
    run.cov["evaluations"] += nrepl


# ---------------------------------------------------------------------------------------------------------------
# cases whose honest work takes seconds (thorough tier only): finite data at a size where a loop that depends on
# the seeded generator's 233 280 states either makes progress with every draw or cannot end.  Each runs in a process
# of its own with a processor-time limit an order of magnitude above the time the unchanged tree needs.
SLOW_CASES = {
    "sample_beyond_generator_states": ("require Random; Random->set_seed(1); length(Random->sample(range(240000), 239990))", "239990", 150),
    "choices_beyond_generator_states": ("require Random; Random->set_seed(1); length(Random->choices(range(240000), 1000))", "1000", 60),
}
_SLOW = r"""
import resource, sys
sys.path.insert(0, %r)
resource.setrlimit(resource.RLIMIT_CPU, (%d, %d))
from ckl.interpreter import Interpreter
from ckl.errors import CklRuntimeError
try:
    print("val", Interpreter(True, False).interpret(%r, "c13"))
except CklRuntimeError as e:
    print("err", str(e.msg)[:80])
"""


def slow_cases(run):
    import subprocess
    n = 0
    for name, (src, want, limit) in sorted(SLOW_CASES.items()):
        code = _SLOW % (os.path.join(REPO, "src"), limit, limit + 5, src)
        try:
            r = subprocess.run([sys.executable, "-c", code], capture_output=True, text=True, timeout=limit * 6)
            out = r.stdout.strip() or f"ended with status {r.returncode}: {r.stderr.strip()[-120:]}"
        except subprocess.TimeoutExpired:
            out = "no end within the wall-clock backstop"
        n += 1
        if out != "val " + want and not out.startswith("err "):
            run.violation("slow:" + name, f"timeout: `{src}` (limit {limit} processor seconds, the unchanged tree needs about a "
                          f"tenth of it): {out[:160]}", {"kind": "slow", "name": name})
    return n


def replay(run, case):
    if case.get("kind") == "slow":
        slow_cases(run)
        return
    if case.get("kind") == "repl-eval":
        from . import repl
        prompts, outputs, exc = repl.session(case["lines"] + ["exit"], secure=case.get("secure", True))
        if exc is not None:
            run.violation(f"repl-eval-host:secure={case.get('secure', True)}:{case['lines'][0]}",
                          f"repl-host-exception: {type(exc).__name__}: {str(exc)[:80]}", case)
        run.sample({"replayed": case})
        return
    sw = Sweep(run, workers=1)
    try:
        job = (case["kind"], case["what"], tuple(case["tags"]))
        r = sw.execute([job])[0]
        if r["out"] == "error:ok":
            r["caught"] = sw.caught([job])[0]
    finally:
        sw.close()
    site = ("form:" + case["form"]) if case["kind"] == "form" else case["what"]
    if case.get("site"):                 # round 5 cases carry the name of their site
        site = case["site"]
        events_form = ""
    if case["kind"] == "prog" and "g" in case:
        site = "graph:" + case["g"]["obs"]["name"]
    elif case["kind"] == "prog":
        site = "call:" + case["tags"][0]
        r = dict(r, detail="")
    events = [event(site, "" if case.get("site") else case.get("form", ""), job[2], r)]
    if case["kind"] == "prog" and "g" in case:
        events[0]["g"] = case["g"]
    elif case["kind"] == "prog":
        events[0]["c"] = dict(case["c"], seen=False, obs=[])     # the verdict is the outcome; no binding is compared
    res = validate(run, events, "replay")
    report(run, res, events, [{"detail": r["detail"], "case": case}])
    run.sample({"replayed": events[0]})
