"""Run TLC on a spec of /verif/spec and parse what it reports."""
import json
import os
import re
import shutil
import subprocess
import tempfile
import time

from .common import SPEC, MachineryError

JAR = "/opt/veriftools/tla/tla2tools.jar:/opt/veriftools/tla/CommunityModules-deps.jar"
MARK = "@@"


class TLCResult:
    def __init__(self):
        self.ok = False
        self.distinct = 0
        self.generated = 0
        self.depth = 0
        self.wall = 0.0
        self.out = ""
        self.error = None
        self.coverage = {}
        self.printed = {}
        self.spec = self.cfg = self.mode = self.label = ""

    def records(self, tag):
        return self.printed.get(tag, [])


_STATS = re.compile(r"(\d+) states generated, (\d+) distinct states found")
_DEPTH = re.compile(r"The depth of the complete state graph search is (\d+)")
_COV = re.compile(r"^<(\w+) line \d+, col \d+ to line \d+, col \d+ of module (\w+)(?: \([\d ]+\))?>: (\d+):(\d+)")


def parse_printed(out):
    """PrintT("@@TAG@@" \\o ToJson(v)) lines -> {TAG: [v, ...]}.
    TLC prints a string value as a quoted, escaped literal on one line."""
    printed = {}
    for line in out.splitlines():
        i = line.find('"' + MARK)
        if i < 0:
            continue
        try:
            s = json.loads(line[i:])
        except ValueError:
            # two workers interleaved on one line: find every quoted literal
            dec = json.JSONDecoder()
            pos = i
            while pos >= 0:
                try:
                    s, end = dec.raw_decode(line, pos)
                except ValueError:
                    raise MachineryError("unparseable TLC output line: " + line[:200])
                _take(printed, s)
                pos = line.find('"' + MARK, end)
            continue
        _take(printed, s)
    return printed


def _take(printed, s):
    if not s.startswith(MARK):
        return
    j = s.index(MARK, len(MARK))
    tag = s[len(MARK):j]
    printed.setdefault(tag, []).append(json.loads(s[j + len(MARK):]))


def run_tlc(module, cfg=None, *, workers=16, env=None, timeout=3600,
            simulate=None, depth=None, seed=None, coverage=False,
            dfid=None, extra=(), allow_violation=False, label=None,
            heap="8g", deadlock_off=False):
    """module: name of a .tla file under /verif/spec (without extension) or an
    absolute path; cfg likewise (default: module + '.cfg')."""
    mpath = module if os.path.isabs(module) else os.path.join(SPEC, module + ".tla")
    if cfg is None:
        cpath = mpath[:-4] + ".cfg"
    else:
        cpath = cfg if os.path.isabs(cfg) else os.path.join(SPEC, cfg + ("" if cfg.endswith(".cfg") else ".cfg"))
    meta = tempfile.mkdtemp(prefix="tlcmeta-")
    # (java.io.tmpdir: TLC leaves a tlc-<number> directory per run in the temporary directory; inside the metadir it
    # is removed with it)
    cmd = ["java", "-XX:+UseParallelGC", "-Xmx" + heap, "-Xss64m", "-Djava.io.tmpdir=" + meta, "-cp", JAR, "tlc2.TLC",
           "-metadir", meta, "-noGenerateSpecTE", "-config", cpath,
           "-workers", str(workers)]
    mode = "bfs"
    if simulate:
        cmd += ["-simulate", simulate]
        mode = "simulate:" + simulate
    if depth:
        cmd += ["-depth", str(depth)]
    if seed is not None:
        cmd += ["-seed", str(seed)]
    if coverage:
        cmd += ["-coverage", "1"]
    if dfid:
        cmd += ["-dfid", str(dfid)]
    if deadlock_off:
        cmd += ["-deadlock"]
    cmd += list(extra)
    cmd.append(mpath)
    e = dict(os.environ)
    e.pop("JAVA_TOOL_OPTIONS", None)
    if env:
        e.update({k: str(v) for k, v in env.items()})
    t0 = time.time()
    try:
        p = subprocess.run(cmd, cwd=os.path.dirname(mpath), env=e, text=True,
                           stdout=subprocess.PIPE, stderr=subprocess.STDOUT,
                           timeout=timeout)
        out = p.stdout
        rc = p.returncode
    except subprocess.TimeoutExpired as ex:
        out = (ex.stdout or b"").decode("utf-8", "replace") if isinstance(ex.stdout, bytes) else (ex.stdout or "")
        rc = -9
    finally:
        shutil.rmtree(meta, ignore_errors=True)
    r = TLCResult()
    r.wall = time.time() - t0
    r.out = out
    r.spec = os.path.basename(mpath)
    r.cfg = os.path.basename(cpath)
    r.mode = mode
    r.label = label or (r.spec + "/" + r.cfg)
    m = None
    for m in _STATS.finditer(out):
        pass
    if m:
        r.generated, r.distinct = int(m.group(1)), int(m.group(2))
    m = _DEPTH.search(out)
    if m:
        r.depth = int(m.group(1))
    if coverage:
        for line in out.splitlines():
            m = _COV.match(line.strip())
            if m:
                r.coverage[m.group(1)] = r.coverage.get(m.group(1), 0) + int(m.group(4))
    r.printed = parse_printed(out)
    errs = [l for l in out.splitlines() if l.startswith("Error:")]
    finished = ("Model checking completed. No error has been found." in out
                or (simulate and rc in (0,) and not errs))
    r.ok = bool(finished) and not errs and rc == 0
    if not r.ok:
        r.error = "\n".join(errs) or f"tlc exit {rc}"
        if not allow_violation:
            tail = "\n".join(out.splitlines()[-40:])
            raise MachineryError(f"TLC failed on {r.spec} with {r.cfg}: {r.error}\n{tail}")
    return r


def run_tlc_many(jobs, parallel=4):
    """jobs: list of (args, kwargs) for run_tlc; runs them concurrently (each
    TLC is its own JVM) and returns the results in order."""
    from concurrent.futures import ThreadPoolExecutor
    with ThreadPoolExecutor(max_workers=parallel) as ex:
        futs = [ex.submit(run_tlc, *a, **k) for a, k in jobs]
        return [f.result() for f in futs]
