"""Seeded random programs for the Machine model (C03 / C04 / C05, thorough and
quick tiers): syntax trees in exactly the JSON shape Machine.tla works on
(nodes [n, s, v, a], values [k, n, s], parameters [name, code, def, rest]).
The same trees go to TLC (spec/MachineRand.tla evaluates them with Machine!Run)
and, rendered by harness/machine.py, to the real interpreter.

The generator keeps programs inside the part of the language Machine.tla
defines: int variables x y z n k, function variables f g h, arithmetic and
comparisons only on ints (every function body ends in an int expression, early
returns return ints), lists only as loop sources and log entries.  Undefined
names, division by zero, wrong arities, stray break/continue/return and user
errors are generated on purpose - their outcome is defined (a runtime error
value) and is part of what is compared.
"""

INTS = ["x", "y", "z", "n", "k"]
FUNS = ["f", "g", "h"]
CODE = {"x": [120], "y": [121], "z": [122], "n": [110], "k": [107], "a": [97], "b": [98],
        "f": [102], "g": [103], "h": [104], "rest...": [114, 101, 115, 116, 46, 46, 46]}


def V(k, n=0, s=None):
    return {"k": k, "n": n, "s": s or []}


NULL = V("null")


def N(n, s="", v=None, a=None):
    return {"n": n, "s": s, "v": v or NULL, "a": a or []}


def I(i):
    return N("lit", v=V("int", i))


def S(txt):
    return N("lit", v=V("str", 0, [ord(c) for c in txt]))


def B(b):
    return N("lit", v=V("bool", 1 if b else 0))


NONE = N("none")


def Var(x):
    return N("var", x)


def Def(x, e):
    return N("def", x, a=[e])


def Asg(x, e):
    return N("assign", x, a=[e])


def Blk(stmts, catches=None, fins=None):
    return N("block", a=[stmts, catches or [], fins or []])


def If(c, t, e=None):
    return N("if", a=[[c], [t], [e] if e else []])


def For(ids, what, coll, body):
    return N("for", a=[ids, what, coll, body])


def While(c, body):
    return N("while", a=[c, body])


def Log(e):
    return N("log", a=[e])


def Bin(op, a, b):
    return N("bin", op, a=[a, b])


def ListN(es):
    return N("list", a=[N("item", a=[e]) for e in es])


def SetN(es):
    return N("set", a=[N("item", a=[e]) for e in es])


def MapN(pairs):
    return N("map", a=[[k, v] for k, v in pairs])


WIDE = [-12, -10, -2, -1, 0, 1, 2, 3, 9, 10, 11, 100]


def Param(x, d=None, rest=False):
    return {"name": x, "code": CODE[x], "def": d or NONE, "rest": rest}


def Fn(params, body):
    return N("fn", a=[params, body])


def Arg(e):
    return N("arg", v=V("str"), a=[e])


def NArg(x, e):
    return N("arg", x, v=V("str", 0, CODE[x]), a=[e])


def Call(f, args):
    return N("call", a=[f, args])


class Gen:
    def __init__(self, rng, flavour):
        self.r = rng
        self.flavour = flavour            # "scope" | "loop" | "err"
        self.budget = 0

    # -- expressions (always int-valued when they yield a value)
    def int_expr(self, d, ctx):
        r = self.r
        c = r.random()
        if d <= 0 or c < 0.3:
            return I(r.randint(0, 4))
        if c < 0.6:
            known = sorted(ctx["ints"])
            if known and r.random() < 0.92:
                return Var(r.choice(known))
            return Var(r.choice(INTS + ["a", "b"]))
        if c < 0.8:
            op = r.choice(["+", "+", "-", "*", "/"])
            return Bin(op, self.int_expr(d - 1, ctx), self.int_expr(d - 1, ctx))
        return self.call(d - 1, ctx)

    def call(self, d, ctx):
        r = self.r
        known = sorted(ctx["funs"])
        f = r.choice(known) if known and r.random() < 0.92 else r.choice(FUNS)
        want = ctx["funs"].get(f)
        nargs = want if want is not None and r.random() < 0.8 else r.choice([0, 1, 1, 2, 2, 3])
        args = []
        for _ in range(nargs):
            if r.random() < 0.2:
                args.append(NArg(r.choice(["a", "b"]), self.int_expr(d, ctx)))
            else:
                args.append(Arg(self.int_expr(d, ctx)))
        return Call(Var(f), args)

    def cond(self, d, ctx):
        r = self.r
        c = r.random()
        if c < 0.15:
            return B(r.random() < 0.5)
        op = r.choice(["==", "<", ">", "!=", "<=", ">="])
        return Bin(op, self.int_expr(d, ctx), I(r.randint(0, 3)))

    # -- statements
    def stmt(self, d, ctx):
        r = self.r
        self.budget -= 1
        kinds = ["def", "asg", "log", "log", "if"]
        if d > 0 and self.budget > 0:
            kinds += ["fn", "for", "block"]
            if self.flavour == "loop":
                kinds += ["for", "for", "while", "if"]
            if self.flavour == "err":
                kinds += ["block", "block", "error"]
            if self.flavour == "scope":
                kinds += ["fn", "fn", "def", "asg"]
        if ctx["loop"]:
            kinds += ["break", "continue"]
        if ctx["fn"]:
            kinds += ["return"]
        if self.flavour == "err":
            kinds += ["error"]
        k = r.choice(kinds)
        if k == "def":
            e = self.int_expr(2, ctx)
            v = r.choice(INTS)
            ctx["ints"].add(v)
            return Def(v, e)
        if k == "asg":
            known = sorted(ctx["ints"])
            return Asg(r.choice(known) if known and r.random() < 0.9 else r.choice(INTS), self.int_expr(2, ctx))
        if k == "while":
            pass
        if k == "log":
            return Log(self.int_expr(2, ctx))
        if k == "if":
            return If(self.cond(1, ctx), self.simple(d, ctx), self.simple(d, ctx) if r.random() < 0.4 else None)
        if k == "fn":
            return self.fndef(d - 1, ctx)
        if k == "for":
            var = r.choice(INTS)
            n = r.randint(0, 3)
            c = r.random()
            what = "values"
            if c < 0.6:
                coll = ListN([I(r.randint(0, 4)) for _ in range(n)])
            elif c < 0.8:       # sets and maps: ints whose numeric order differs from the order of their texts
                coll = SetN([I(x) for x in r.sample(WIDE, r.randint(1, 4))])
            else:
                ks = r.sample(WIDE, r.randint(1, 4))
                coll = MapN([(I(x), I(r.randint(0, 4))) for x in ks])
                what = r.choice(["keys", "values"])
            body = Blk(self.stmts(d - 1, dict(ctx, loop=True, ints=set(ctx["ints"]) | {var}), r.randint(1, 3)))
            return For([var], what, coll, body)
        if k == "while":
            var = r.choice(["n", "k"])
            lim = r.randint(0, 3)
            body = [Asg(var, Bin("+", Var(var), I(1)))] + self.stmts(d - 1, dict(ctx, loop=True, ints=set(ctx["ints"]) | {var}), r.randint(0, 2))
            if r.random() < 0.5:            # the increment is not always first: `continue` before it is bounded by fuel
                body = body[1:] + body[:1]
            return Blk([Def(var, I(0)), While(Bin("<", Var(var), I(lim)), Blk(body))])
        if k == "block":
            body = self.stmts(d - 1, dict(ctx, ints=set(ctx["ints"]), funs=dict(ctx["funs"])), r.randint(1, 3))
            catches = []
            for _ in range(r.choice([0, 1, 1, 2])):
                c = r.random()
                known = sorted(ctx["ints"])
                if c < 0.35:
                    key = N("all")
                elif c < 0.6:
                    key = S(r.choice("ab"))
                elif c < 0.72:
                    key = I(r.randint(0, 2))
                elif c < 0.85 and known:     # a clause value that changes between two runs of the same block
                    key = Var(r.choice(known))
                else:
                    key = S("ERROR")
                catches.append([key, self.simple(d - 1, ctx)])
            fins = self.stmts(d - 1, ctx, r.randint(1, 2)) if r.random() < 0.5 else []
            return Blk(body, catches, fins)
        if k == "error":
            c = r.random()
            return N("error", a=[S(r.choice("ab")) if c < 0.6 else (I(r.randint(0, 2)) if c < 0.9 else ListN([I(1)]))])
        if k == "break":
            return N("break")
        if k == "continue":
            return N("continue")
        return N("return", a=[self.int_expr(1, ctx)])

    def simple(self, d, ctx):
        """a statement usable as an if branch / handler (no def of functions)"""
        r = self.r
        ks = ["log", "asg", "log"]
        if ctx["loop"]:
            ks += ["break", "continue"]
        if ctx["fn"]:
            ks += ["return"]
        if self.flavour == "err":
            ks += ["error"]
        k = r.choice(ks)
        if k == "log":
            return Log(self.int_expr(1, ctx))
        if k == "asg":
            known = sorted(ctx["ints"])
            return Asg(r.choice(known) if known and r.random() < 0.9 else r.choice(INTS), self.int_expr(1, ctx))
        if k == "error":
            return N("error", a=[S(r.choice("ab"))])
        if k == "return":
            return N("return", a=[self.int_expr(1, ctx)])
        return N(k)

    def stmts(self, d, ctx, n):
        return [self.stmt(d, ctx) for _ in range(n)]

    def fndef(self, d, ctx):
        r = self.r
        name = r.choice(FUNS)
        sig = r.choice([[], ["a"], ["a", "b"], ["a", "b="], ["a=", "b="], ["a", "rest..."]])
        params = []
        for p in sig:
            if p.endswith("="):
                params.append(Param(p[:-1], self.int_expr(1, ctx)))
            elif p == "rest...":
                params.append(Param(p, rest=True))
            else:
                params.append(Param(p))
        names = {p.rstrip("=") for p in sig if p != "rest..."}
        inner = dict(ctx, fn=True, loop=False, ints=set(ctx["ints"]) | names, funs=dict(ctx["funs"]))
        inner["funs"][name] = len([p for p in sig if p != "rest..."])      # recursion is possible
        body = self.stmts(d, inner, r.randint(0, 3))
        if r.random() < 0.3:                  # a closure returned and called later
            body.append(Def(r.choice(FUNS), Fn([Param("b")] if r.random() < 0.5 else [], Bin("+", Var(r.choice(INTS + ["a"])), I(1)))))
        if r.random() < 0.12:
            # the function ENDS in a loop whose body ends in `return` (the parser's rewriting of a final
            # `return e` into `e` must stop at the function body)
            var = r.choice(INTS)
            coll = ListN([I(r.randint(0, 4)) for _ in range(r.randint(0, 3))])
            lctx = dict(inner, loop=True, ints=set(inner["ints"]) | {var})
            body.append(For([var], "values", coll, Blk(self.stmts(d - 1, lctx, r.randint(0, 2)) + [N("return", a=[self.int_expr(1, lctx)])])))
        else:
            body.append(self.int_expr(1, inner))  # the result is an int expression
        ctx["funs"][name] = len([p for p in sig if p != "rest..."])
        return Def(name, Fn(params, Blk(body)))

    def program(self, size):
        self.budget = size
        ctx = {"loop": False, "fn": False, "ints": {"x"}, "funs": {}}
        stmts = [Def("x", I(1))]
        if self.r.random() < 0.8:
            stmts.append(self.fndef(2, ctx))
        stmts += self.stmts(2, ctx, self.r.randint(2, 5))
        stmts.append(Log(self.int_expr(1, ctx)))
        return Blk(stmts)


def programs(rng, flavour, n):
    g = Gen(rng, flavour)
    out = []
    for _ in range(n):
        out.append(g.program(rng.randint(6, 14)))
    return out
