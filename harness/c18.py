"""C18 - the string library satisfies the algebra of strings.

Spec: spec/StrOps.tla (reference operators over code point sequences),
spec/Str.tla (driver state machine: the replace / join / reverse loops of
modules/string.ckl and the laws of the property as invariants on every pair
(s, t)), spec/Str_Trace.tla (validation of recorded calls).

Binding A: TLC explores Str.tla over all pairs of a small alphabet and prints,
per (s, t, r), the expected result of every operator; each is replayed on the
interpreter.
Binding B: the interpreted functions are called on random strings of length
0..12 over the adversarial alphabet; every call is logged as (op, arguments as
code point lists, observed result) and the log is validated by TLC against
Str_Trace.tla.

Round 3: spec/StrNum.tla (rounding and base 16 as machines on digit sequences:
negative numbers, integers of any size; its exhaustive cases are observed on
the interpreter and judged by Str_Trace.tla); templates are text that the model
scans itself (StrOps.tla: S), so digits, '#', argument numbers of two digits
and braces that are never closed occur in the literal text; the laws that need
no table of characters are checked on the characters host string methods treat
specially (Unicode spaces, invisible marks, special-casing letters, characters
beyond U+FFFF).

Round 5: placeholders that name variables of the CALLER of sprintf (global ones and locals of an enclosing
function; among them the names sprintf's own body used to have: cut, rest, fmt, i), expression placeholders
that begin like an argument number ({1+1}, {7} beyond the arguments), the second parameter of s (a start on
both sides of the string, StrOps.tla: SAt), negative numbers under every padding format (PadNum: the zeroes
stand between sign and digits), and replace / split / join on strings with hundreds of occurrences.

Strings reach the interpreter as values bound in the session environment (not
as source literals), so the check does not depend on how the lexer reads
escapes.  The regular-expression engine is not modelled: split is called only
with separators made by escape_pattern.
"""
import json
import os
import random
import tempfile
from concurrent.futures import ThreadPoolExecutor

from .common import import_ckl, MachineryError
from .tla import run_tlc
from . import absval

import_ckl()
from ckl.interpreter import Interpreter  # noqa: E402
from ckl import values as V  # noqa: E402

# the adversarial alphabet of the property (separators, regex metacharacters,
# both quotes, backslash, tab, newline, braces, non-ASCII) plus the characters
# the functions themselves treat specially (space, CR, #, < > &)
ALPHA = list(",|.+('\"\\\t\n{}aAé") + list(" \rÉ*[])^$?<>&#b-") + list("017")
# characters that host string methods treat specially (round 3): white space and separators beyond
# ASCII, invisible marks, letters whose case mapping changes the length or depends on the context,
# characters outside the basic plane.  Only laws that need no table are checked on them.
WIDE_WS = [0x0B, 0x0C, 0x1C, 0x1D, 0x1E, 0x1F, 0x85, 0xA0, 0x1680, 0x2000, 0x2003, 0x200A, 0x2028, 0x2029,
           0x202F, 0x205F, 0x3000]
WIDE_MARK = [0x200B, 0xFEFF, 0x200E, 0xAD, 0x180E, 0x2060, 0x200D, 0x00, 0x7F, 0x301, 0x307,
             0x01, 0x07, 0x08, 0x1B]          # round 5: more control characters
WIDE_CASE = [0xDF, 0x149, 0x1C5, 0x130, 0x131, 0x3A3, 0x3C3, 0x3C2, 0x17F, 0x212A, 0x390, 0xFB01, 0x1F0,
             0x587, 0x1E9E, 0x10400, 0x10428, 0x1F600, 0x4E2D, 0x69, 0x49, 0x53, 0x73]
WIDE = [chr(c) for c in WIDE_WS + WIDE_MARK + WIDE_CASE]
DRIFT_OPS = ("lines", "words", "unlines", "unwords", "q", "esc")


def cps(s):
    return [ord(c) for c in s]


def txt(cp):
    return "".join(chr(c) for c in cp)


def show(x):
    if isinstance(x, str):
        return repr(x)
    if isinstance(x, list):
        return "[" + ", ".join(show(i) for i in x) + "]"
    return repr(x)


# ------------------------------------------------------------ interpreter
def to_value(spec):
    """JSON-able description -> ckl value."""
    (k, v), = spec.items()
    if k == "s":
        return V.ValueString(txt(v))
    if k == "i":                       # an int of any size (JSON int or decimal text)
        return V.ValueInt(int(v))
    if k == "d":                       # [mantissa, scale]: exact decimal text
        return V.ValueDecimal(float(f"{v[0]}e-{v[1]}"))
    if k == "f":                       # the decimal numeral as text
        return V.ValueDecimal(float(v))
    if k == "l":
        lst = V.ValueList()
        for p in v:
            lst.addItem(V.ValueString(txt(p)))
        return lst
    raise ValueError(k)


class Session:
    """One interpreter with the String module's names in scope."""

    def __init__(self):
        self.it = Interpreter(True, False)
        self.it.interpret("require String unqualified", "c18")
        self.n = 0

    def eval(self, src, vars_):
        """-> ('val', abstraction) | ('err', msg) | ('host', ExcName)"""
        self.n += 1
        for name, spec in vars_.items():
            self.it.environment.put(name, to_value(spec))
        o = absval.outcome(lambda: self.it.interpret(src, "c18"))
        if o[0] == "val":
            return ("val", absval.to_py(o[1]))
        if o[0] in ("err", "syntax"):
            return ("err", str(o[2])[:100])
        return ("host", o[1])


def as_kind(p, kind):
    """abstraction -> JSON field value of the wanted kind, or None."""
    if kind == "int":
        return p if isinstance(p, int) and not isinstance(p, bool) else None
    if kind == "bool":
        return int(p) if isinstance(p, bool) else None
    if kind == "str":
        return cps(p[1]) if isinstance(p, tuple) and p[0] == "str" else None
    if kind == "list":
        if isinstance(p, tuple) and p[0] == "list" and all(
                isinstance(x, tuple) and x[0] == "str" for x in p[1]):
            return [cps(x[1]) for x in p[1]]
        return None
    raise ValueError(kind)


FIELD = {"int": "ri", "bool": "rb", "str": "rs", "list": "rl"}
ZERO = {"int": -99, "bool": -1, "str": [], "list": []}


# -------------------------------------------------------------- binding A
class Checker:
    def __init__(self, run):
        self.run = run
        self.ses = Session()
        self.seen = set()

    def expect(self, what, src, vars_, want):
        """want: ('val', kind, value) | ('nohost',)"""
        key = what + ":" + src + " | " + ", ".join(
            f"{k}={show(_plain(v))}" for k, v in sorted(vars_.items()))
        if key in self.seen:
            return
        self.seen.add(key)
        got = self.ses.eval(src, vars_)
        ok, gtxt = _judge(got, want)
        if not ok:
            self.run.violation(key, f"{what}: expected {_wtxt(want)} got {gtxt}",
                               {"kind": "expr", "what": what, "src": src, "vars": vars_,
                                "want": list(want)})


def _plain(spec):
    (k, v), = spec.items()
    if k == "s":
        return txt(v)
    if k == "l":
        return [txt(p) for p in v]
    return v


def _judge(got, want):
    if want[0] == "nohost":
        return got[0] != "host", repr(got)
    kind, val = want[1], want[2]
    if got[0] != "val":
        return False, repr(got)
    g = as_kind(got[1], kind)
    if g is None:
        return False, "a value of the wrong kind: " + repr(got[1])
    return g == val, _vtxt(kind, g)


def _vtxt(kind, v):
    if kind == "str":
        return repr(txt(v))
    if kind == "list":
        return repr([txt(p) for p in v])
    return repr(v)


def _wtxt(want):
    if want[0] == "nohost":
        return "a value or a language-level error"
    return _vtxt(want[1], want[2])


MODES = ("r", "l", "z")


def fmt_text(w, mode, hex_=False, digits=None):
    f = ""
    if mode == "l":
        f += "-"
    elif mode == "z":
        f += "0"
    if w or mode == "z":
        f += str(w)
    if digits is not None:
        f += "." + str(digits)
    if hex_:
        f += "x"
    return "#" + f if f else ""


def check_case(ck, rec, maxs):
    s, t, r = rec["s"], rec["t"], rec["r"]
    S, T, R = {"s": s}, {"s": t}, {"s": r}
    st = {"S": S, "T": T}
    ck.expect("find", "find(S, T)", st, ("val", "int", rec["fi"]))
    ck.expect("contains", "contains(S, T)", st, ("val", "bool", rec["co"]))
    ck.expect("in", "T in S", st, ("val", "bool", rec["co"]))
    ck.expect("starts_with", "starts_with(S, T)", st, ("val", "bool", rec["sw"]))
    ck.expect("ends_with", "ends_with(S, T)", st, ("val", "bool", rec["ew"]))
    ck.expect("concat", "S + T", st, ("val", "str", rec["cc"]))
    ck.expect("concat-length", "length(S + T) == length(S) + length(T)", st, ("val", "bool", 1))
    ck.expect("concat-starts", "starts_with(S + T, S) and ends_with(S + T, T)", st, ("val", "bool", 1))
    # interpolation is re-entrant: a placeholder whose expression interpolates again (through a function of the
    # program) leaves the placeholders to its right what they were
    ck.expect("sprintf-nested", "do def tag_(v) sprintf('<{0}>', v); sprintf('{0}{tag_(1)}{0}{1}', S, T) == S + '<1>' + S + T end",
              st, ("val", "bool", 1))
    ck.expect("sprintf-nested-args", "do def tag_(v) sprintf('{1}{0}', v, T); sprintf('{1}{tag_(S)}{0}{1}', S, T) == T + T + S + S + T end",
              st, ("val", "bool", 1))
    ck.expect("s-nested", "do def tg_(v) s('[{v}]'); def w = S; s('{w}{tg_(T)}{w}') == S + '[' + T + ']' + S end", st, ("val", "bool", 1))
    if t:
        ck.expect("split", "split(S, escape_pattern(T))", st, ("val", "list", rec["sp"]))
        ck.expect("split-join", "join(split(S, escape_pattern(T)), T)", st, ("val", "str", s))
        # ... also when an earlier result of the same split was changed in place meanwhile (every split is a new list)
        ck.expect("split-join-again", "do def a = split(S, escape_pattern(T)); append(a, T); a[0] = T + T; "
                                      "join(split(S, escape_pattern(T)), T) end", st, ("val", "str", s))
        ck.expect("lines-words-again", "do def n = length(lines(S)); def m = length(words(S)); def a = lines(S); append(a, T); "
                                       "def b = words(S); append(b, T); length(lines(S)) == n and length(words(S)) == m end",
                  st, ("val", "bool", 1))
        ck.expect("replace", "replace(S, T, R)", {"S": S, "T": T, "R": R}, ("val", "str", rec["rp"]))
        ck.expect("join", "join(P, T)", {"P": {"l": rec["sp"]}, "T": T}, ("val", "str", rec["jo"]))
    else:
        ck.expect("replace-empty-search", "replace(S, T, R)", {"S": S, "T": T, "R": R}, ("nohost",))
    ck.expect("reverse", "reverse(S)", {"S": S}, ("val", "str", rec["rv"]))
    ck.expect("reverse-involution", "reverse(reverse(S))", {"S": S}, ("val", "str", s))
    ck.expect("trim", "trim(S)", {"S": S}, ("val", "str", rec["tr"]))
    ck.expect("trim-idempotent", "trim(trim(S))", {"S": S}, ("val", "str", rec["tr"]))
    ck.expect("upper", "upper(S)", {"S": S}, ("val", "str", rec["up"]))
    ck.expect("upper-idempotent", "upper(upper(S))", {"S": S}, ("val", "str", rec["up"]))
    ck.expect("lower", "lower(S)", {"S": S}, ("val", "str", rec["lo"]))
    ck.expect("lower-idempotent", "lower(lower(S))", {"S": S}, ("val", "str", rec["lo"]))
    ck.expect("length", "length(S)", {"S": S}, ("val", "int", rec["ln"]))
    ck.expect("chr-ord", "def r = ''; for c in S do r = r + chr(ord(c)) end; r", {"S": S},
              ("val", "str", s))
    if rec["ip"] and 123 not in t and 125 not in t:
        # one template (IpSegs of Str.tla): t {v#w} for every width and mode, t {u}, reverse(t) and an
        # opening brace that is never closed; sprintf: s is the eleventh argument, t the second
        lit = txt(t)
        tpl_s = tpl_f = ""
        for w in range(0, maxs + 3):
            for mode in MODES:
                tpl_s += lit + "{v" + fmt_text(w, mode) + "}"
                tpl_f += lit + "{10" + fmt_text(w, mode) + "}"
        tpl_s += lit + "{u}" + lit[::-1] + "{1"
        tpl_f += lit + "{1}" + lit[::-1] + "{1"
        ck.expect("interpolation", "s(F)", {"F": {"s": cps(tpl_s)}, "v": S, "u": T}, ("val", "str", rec["ip"]))
        ck.expect("sprintf", "sprintf(F, J, T, J, J, J, J, J, J, J, J, S)",
                  {"F": {"s": cps(tpl_f)}, "S": S, "T": T, "J": {"s": cps("{0}#1x")}},
                  ("val", "str", rec["ip"]))


# -------------------------------------------------------------- binding B
def rstr(rng, lo=0, hi=12, alpha=None):
    n = rng.randint(lo, hi)
    if alpha is None:
        # a few symbols per string, so that repeats and matches are frequent
        alpha = rng.sample(ALPHA, rng.randint(1, 5)) if rng.random() < 0.6 else ALPHA
    return [ord(rng.choice(alpha)) for _ in range(n)]


def walpha(rng):
    """an alphabet for the operations that need no table of characters: in a third of the cases a few
    special characters (WIDE) mixed with a few of the adversarial alphabet"""
    if rng.random() < 0.35:
        return rng.sample(WIDE, rng.randint(1, 4)) + rng.sample(ALPHA, rng.randint(0, 3))
    return None


def wstr(rng, lo=0, hi=12):
    return rstr(rng, lo, hi, walpha(rng))


def rpart(rng, s):
    """a search text for s: often one of its substrings"""
    x = rng.random()
    if x < 0.45 and s:
        i = rng.randrange(len(s))
        j = rng.randint(i + 1, min(len(s), i + 3))
        return s[i:j]
    if x < 0.55:
        return []
    if x < 0.75 and s:
        return [rng.choice(s) for _ in range(rng.randint(1, 2))]
    return rstr(rng, 1, 3)


WSCH = [32, 9, 10, 13]


def gen_event(rng):
    """-> (event without observation, src, vars, kind of the result)"""
    op = rng.choice([
        "find", "contains", "in", "decompose", "starts_with", "ends_with", "length", "concat",
        "split", "split", "split_join", "split_join", "join", "join_split", "replace", "replace",
        "replace_empty", "apply1", "apply1", "apply2", "chr", "ord", "ord_chr", "chr_ord", "ord_empty",
        "interp", "interp", "interp", "interp", "round", "round", "idem", "idem", "idem",
        "lines", "words", "unlines", "unwords", "q", "esc"])
    # the characters matter to none of the definitions except those of trim / upper / lower (and of the
    # functions that are not named by the property): everything else also sees the special characters
    tabled = op in ("apply1", "apply2", "lines", "words", "unlines", "unwords", "q", "esc")
    s = rstr(rng) if tabled else wstr(rng)
    if op in ("find", "contains", "in", "starts_with", "ends_with"):
        t = rpart(rng, s)
        if op == "starts_with" and rng.random() < 0.4:
            t = s[:rng.randint(0, len(s))]
        if op == "ends_with" and rng.random() < 0.4:
            t = s[rng.randint(0, len(s)):]
        src = {"find": "find(S, T)", "contains": "contains(S, T)", "in": "T in S",
               "starts_with": "starts_with(S, T)", "ends_with": "ends_with(S, T)"}[op]
        return ({"op": op, "s": s, "t": t}, src, {"S": {"s": s}, "T": {"s": t}},
                "int" if op == "find" else "bool")
    if op == "decompose":
        al = walpha(rng)
        a, t, b = rstr(rng, 0, 5, al), rstr(rng, 0, 3, al), rstr(rng, 0, 5, al)
        return ({"op": op, "a": a, "t": t, "b": b},
                "def x = A + T + B; [x, contains(x, T), T in x, find(x, T)]",
                {"A": {"s": a}, "T": {"s": t}, "B": {"s": b}}, "decompose")
    if op == "length":
        return ({"op": op, "s": s}, "length(S)", {"S": {"s": s}}, "int")
    if op == "concat":
        t = wstr(rng)
        return ({"op": op, "s": s, "t": t}, "[S + T, length(S + T)]",
                {"S": {"s": s}, "T": {"s": t}}, "concat")
    if op in ("split", "split_join"):
        t = rpart(rng, s) or [rng.choice(s or [44])]
        src = "split(S, escape_pattern(T))" if op == "split" else "join(split(S, escape_pattern(T)), T)"
        return ({"op": op, "s": s, "t": t}, src, {"S": {"s": s}, "T": {"s": t}},
                "list" if op == "split" else "str")
    if op in ("join", "join_split", "unlines", "unwords", "q"):
        alpha = rng.sample(ALPHA, rng.randint(1, 6))
        if op in ("join", "join_split") and rng.random() < 0.35:
            alpha = rng.sample(WIDE, rng.randint(1, 4)) + rng.sample(ALPHA, rng.randint(0, 2))
        parts = [rstr(rng, 0, 4, alpha) for _ in range(rng.randint(0, 4))]
        t = rstr(rng, 0 if op == "join" else 1, 2, alpha)
        vars_ = {"P": {"l": parts}, "T": {"s": t}}
        if op == "join":
            return ({"op": op, "parts": parts, "t": t}, "join(P, T)", vars_, "str")
        if op == "join_split":
            return ({"op": op, "parts": parts, "t": t}, "split(join(P, T), escape_pattern(T))", vars_, "list")
        return ({"op": op, "parts": parts}, op + "(P)", {"P": {"l": parts}}, "str")
    if op == "replace":
        t = rpart(rng, s) or [rng.choice(s or [44])]
        x = rng.random()
        r = [] if x < 0.2 else t + t if x < 0.35 else t[::-1] if x < 0.45 else wstr(rng, 0, 3)
        return ({"op": op, "s": s, "t": t, "r": r}, "replace(S, T, R)",
                {"S": {"s": s}, "T": {"s": t}, "R": {"s": r}}, "str")
    if op == "replace_empty":
        r = rstr(rng, 0, 2)
        return ({"op": op, "s": s, "t": [], "r": r}, "replace(S, T, R)",
                {"S": {"s": s}, "T": {"s": []}, "R": {"s": r}}, "any")
    if op == "idem":
        # trim / upper / lower once and twice on any characters: special ones at both ends, mixed
        # with the ASCII white space
        f = rng.choice(["trim", "trim", "upper", "lower"])
        ends = WSCH + WIDE_WS + WIDE_MARK if f == "trim" else WIDE_CASE + WIDE_MARK
        ends = rng.sample(ends, rng.randint(1, 4)) + [rng.choice(WSCH)]
        s = ([rng.choice(ends) for _ in range(rng.randint(0, 3))] + wstr(rng, 0, 6)
             + [rng.choice(ends) for _ in range(rng.randint(0, 3))])
        return ({"op": op, "f": f, "s": s}, f"[{f}(S), {f}({f}(S))]", {"S": {"s": s}}, "pair")
    if op in ("apply1", "apply2"):
        f = rng.choice(["reverse", "upper", "lower", "trim"])
        if f == "reverse":
            s = wstr(rng)
        if f == "trim":
            s = ([rng.choice(WSCH) for _ in range(rng.randint(0, 3))] + rstr(rng, 0, 8)
                 + [rng.choice(WSCH) for _ in range(rng.randint(0, 3))])
        src = f"{f}(S)" if op == "apply1" else f"{f}({f}(S))"
        return ({"op": op, "f": f, "s": s}, src, {"S": {"s": s}}, "str")
    if op in ("chr", "ord_chr"):
        n = ord(rng.choice(ALPHA)) if rng.random() < 0.5 else rng.randint(1, 0x2FFF)
        return ({"op": op, "n": n}, "chr(N)" if op == "chr" else "ord(chr(N))", {"N": {"i": n}},
                "str" if op == "chr" else "int")
    if op == "ord":
        c = [ord(rng.choice(ALPHA))]
        return ({"op": op, "s": c}, "ord(S)", {"S": {"s": c}}, "int")
    if op == "chr_ord":
        return ({"op": op, "s": s}, "def r = ''; for c in S do r = r + chr(ord(c)) end; r",
                {"S": {"s": s}}, "str")
    if op == "ord_empty":
        return ({"op": op, "s": []}, "ord(S)", {"S": {"s": []}}, "any")
    if op == "interp":
        return gen_interp(rng)
    if op == "round":
        return gen_round(rng)
    if op in ("lines", "words"):
        alpha = [10, 13, 32, 9] + [ord(rng.choice(ALPHA)) for _ in range(3)]
        s = rstr(rng, 0, 12, [chr(c) for c in alpha])
        return ({"op": op, "s": s}, op + "(S)", {"S": {"s": s}}, "list")
    if op == "esc":
        s = rstr(rng, 0, 12, list("<>&a;") + [rng.choice(ALPHA)])
        return ({"op": op, "s": s}, "esc(S)", {"S": {"s": s}}, "str")
    raise AssertionError(op)


NOBRACE = [c for c in ALPHA if c != "{"]
NOCLOSE = [c for c in ALPHA if c not in "{}"]


def literal(rng, names, last=False):
    """Text outside the placeholders.  Before a placeholder it has no opening brace (a closing one on its
    own is ordinary text).  Behind the last placeholder opening braces that are never closed are ordinary
    text as well, whatever follows them: the text of an argument number or of a name, '#', a format."""
    t = rstr(rng, 0, 4, NOBRACE)
    if last and rng.random() < 0.4:
        for _ in range(rng.randint(1, 2)):
            x = rng.random()
            tail = rng.choice(names) if x < 0.6 else ""
            if x < 0.35:
                tail += rng.choice(["#", "#5", "#-3", "#04x", "#x", "#.2", "0", "1"])
            t = t + [123] + cps(tail) + rstr(rng, 0, 2, NOCLOSE)
    return t


def num_value(rng):
    """an integer -> (value for the interpreter, value for the model)"""
    x = rng.random()
    if x < 0.45:
        n = rng.randint(0, 99999)
    elif x < 0.6:
        n = rng.randint(0, 20)
    else:
        # beyond 2^31, 2^53, 2^64: text of 10..40 digits, or next to a power of two
        n = int(str(rng.randint(1, 9)) + "".join(rng.choice("0123456789") for _ in range(rng.randint(9, 39))))
        if rng.random() < 0.4:
            n = 2 ** rng.choice([31, 32, 53, 63, 64, 100, 128]) + rng.randint(-1, 1)
    if n and rng.random() < 0.4:
        n = -n
    if abs(n) <= 99999:
        return {"i": n}, {"k": "i", "txt": [], "n": n, "ds": []}
    return {"i": n}, {"k": "b", "txt": [], "n": -1 if n < 0 else 1, "ds": [int(c) for c in str(abs(n))]}


# names a caller of sprintf may have given to its variables; the first ones are the names of the locals that
# the body of sprintf had when it was written in the language (none is a function the check calls)
CALLER = ["cut", "rest", "fmt", "i", "args", "cut", "rest", "fmt", "i", "x", "name", "v1", "v10", "F0"]


def expr_placeholder(rng, nargs):
    """an expression that begins like an argument number: n beyond the arguments, or n op m"""
    a = rng.choice([0, 1, 2, 10, 11, nargs, rng.randint(0, 9999)])
    if rng.random() < 0.3:
        return str(max(a, nargs))
    b = rng.choice([0, 1, 2, 10, rng.randint(0, 9999)])
    return str(a) + rng.choice("+-*") + str(b)


def gen_interp(rng):
    """s(F) with the variables v<i>, or sprintf(F, a0, a1, ...) with 1..3 or 11..13 arguments and, in
    half of the cases, variables of the caller; the placeholders are a selection of the values, with
    repeats, and some expressions; the model scans the template itself.  The variables are global ones or
    (local) parameters of a function around the call."""
    via = rng.choice(["s", "sprintf"])
    nargs = rng.randint(1, 3) if rng.random() < 0.6 else rng.randint(11, 13)
    if via == "s":
        nums = sorted(rng.sample(range(13), min(nargs, 4)))   # v1 and v10: one name is a prefix of another
        names = [f"v{i}" for i in nums]
        nargs = 0
    else:
        names = [str(i) for i in range(nargs)]
        if rng.random() < 0.5:
            names += sorted(set(rng.sample(CALLER, rng.randint(1, 3))))
    local = rng.random() < 0.4
    env, vars_ = [], {}
    outer = {}                 # variable of the caller -> the global that holds its value (local = TRUE)
    for i, name in enumerate(names):
        if rng.random() < 0.55:
            v = wstr(rng, 0, 6)
            val, mv = {"s": v}, {"k": "s", "txt": v, "n": 0, "ds": []}
        else:
            val, mv = num_value(rng)
        mv["name"] = cps(name)
        env.append(mv)
        if via == "sprintf" and i < nargs:
            vars_[f"a{i}"] = val
        elif local:
            outer[name] = f"g{i}"
            vars_[f"g{i}"] = val
        else:
            vars_[name] = val
    tpl = []
    favourites = [i for i in (0, 1, 10, 11, 12) if i < len(names)] + list(range(nargs, len(names))) * 2
    for _ in range(rng.randint(1, 4)):
        tpl += literal(rng, names)
        if rng.random() < 0.12:
            mode = rng.choice(["r", "l", "z"])
            tpl += cps("{" + expr_placeholder(rng, nargs) + fmt_text(rng.choice([0, 0, 3, 6, 12]), mode,
                                                                 rng.random() < 0.3) + "}")
            continue
        i = rng.choice(favourites) if rng.random() < 0.5 else rng.randrange(len(names))
        mv = env[i]
        hex_ = mv["k"] != "s" and rng.random() < 0.4
        mode = rng.choice(["r", "l", "r", "l", "z"])
        if mv["k"] != "s" and mv["n"] < 0 and rng.random() < 0.3:
            mode = "z"               # the zeroes stand between the sign and the digits
        w = rng.choice([0, 0, rng.randint(1, 9), rng.randint(10, 45) if mv["k"] == "b" else 12])
        tpl += cps("{" + names[i] + fmt_text(w, mode, hex_) + "}")
    tpl += literal(rng, names, last=True)
    vars_["F"] = {"s": tpl}
    start = 0
    if via == "s":
        if rng.random() < 0.3:           # on both sides of the string, and inside it
            start = rng.randint(-len(tpl) - 6, len(tpl) + 3)
            if rng.random() < 0.3:
                start = rng.choice([-len(tpl) - 1, -len(tpl), -len(tpl) - 2, len(tpl), -1])
        src = "s(F)" if start == 0 and rng.random() < 0.8 else f"s(F, {start})" if rng.random() < 0.5 else \
            f"s(F, start = {start})"
    else:
        src = "sprintf(F" + "".join(f", a{i}" for i in range(nargs)) + ")"
    if outer:
        src = "(fn(" + ", ".join(outer) + ") " + src + ")(" + ", ".join(outer.values()) + ")"
    return ({"op": "interp", "via": via, "env": env, "tpl": tpl, "start": start, "nargs": nargs}, src, vars_, "str")


def is_tie(fp, d):
    return len(fp) > d and fp[d] == 5 and not any(fp[d + 1:])


def round_event(neg, ip, fp, d, w, mode, via, lit1, lit2, as_int):
    """the event and the call for  {v#.d}  and  <lit1>{v#[-|0]w.d}<lit2>  on the numeral (-)ip.fp"""
    text = ("-" if neg else "") + "".join(map(str, ip)) + ("." + "".join(map(str, fp)) if fp else "")
    val = {"i": text} if as_int else {"f": text}
    name = "v" if via == "s" else "0"
    f1 = cps("{" + name + fmt_text(0, "r", digits=d) + "}")
    f2 = lit1 + cps("{" + name + fmt_text(w, mode, digits=d) + "}") + lit2
    src = "[s(F1), s(F2)]" if via == "s" else "[sprintf(F1, v), sprintf(F2, v)]"
    return ({"op": "round", "neg": int(neg), "ip": ip, "fp": fp, "d": d, "w": w, "mode": mode, "via": via,
             "int": int(as_int), "lit1": lit1, "lit2": lit2},
            src, {"v": val, "F1": {"s": f1}, "F2": {"s": f2}}, "round")


def gen_round(rng):
    """A decimal of at most 15 significant digits (a float holds it exactly enough: the distance to the
    nearest tie is larger than the error of the conversion), or an integer of any size; positive or
    negative; never a tie."""
    while True:
        as_int = rng.random() < 0.25
        if as_int:
            li = rng.randint(1, 9) if rng.random() < 0.6 else rng.randint(16, 30)
            lf = 0
        else:
            li = rng.randint(1, 9)
            lf = rng.randint(0, min(6, 15 - li))
        ip = [0] if (li == 1 and rng.random() < 0.5) else \
            [rng.randint(1, 9)] + [rng.choice([0, 9, 9, rng.randint(0, 9)]) for _ in range(li - 1)]
        fp = [rng.choice([9, 9, 5, 4, 0, rng.randint(0, 9)]) for _ in range(lf)]
        d = rng.randint(0, 7)
        if not is_tie(fp, d):
            break
    neg = rng.random() < 0.5
    mode = rng.choice(MODES)
    via = rng.choice(["s", "sprintf"])
    names = ["v"] if via == "s" else ["0"]
    return round_event(neg, ip, fp, d, rng.randint(0, 12), mode, via,
                       literal(rng, names), literal(rng, names, last=True), as_int)


def num_events(recs, rng):
    """The cases of StrNum.tla (every numeral over a small set of digits, every d; every integer of a
    range and some beyond 2^64) as calls: -> list of (event, src, vars, kind)."""
    out = []
    seen = set()
    for rec in sorted(recs, key=lambda q: json.dumps(q, sort_keys=True)):
        neg, ip, fp, d = bool(rec["neg"]), rec["ip"], rec["fp"], rec["d"]
        key = (rec["kind"], neg, tuple(ip), tuple(fp), d)
        if key in seen:
            continue
        seen.add(key)
        if rec["kind"] == "round":
            for as_int in ([False, True] if not fp else [False]):
                via = rng.choice(["s", "sprintf"])
                name = "v" if via == "s" else "0"
                out.append(round_event(neg, ip, fp, d, rng.randint(0, 9),
                                       rng.choice(MODES), via,
                                       cps("<"), cps(">{" + name + "#." + str(d)), as_int))
        else:
            n = int("".join(map(str, ip)))
            if neg and n == 0:
                continue
            via = rng.choice(["s", "sprintf"])
            name = "n" if via == "s" else "0"
            tpl = "<{N#x}|{N#12x}|{N#-12x}|{N}|{N#012x}|{N#07}|{N#04}|{N#02x}{N#x"
            tpl = cps(tpl.replace("N", name))
            mv = ({"k": "i", "txt": [], "n": -n if neg else n, "ds": []} if n <= 99999 else
                  {"k": "b", "txt": [], "n": -1 if neg else 1, "ds": ip})
            mv["name"] = cps(name)
            vars_ = {"n" if via == "s" else "a0": {"i": -n if neg else n}, "F": {"s": tpl}}
            out.append(({"op": "interp", "via": via, "env": [mv], "tpl": tpl, "start": 0,
                         "nargs": 1 if via == "sprintf" else 0},
                        "s(F)" if via == "s" else "sprintf(F, a0)", vars_, "str"))
    return out


def many_calls(rng, n=18):
    """replace / split / join on strings with some hundred occurrences of the search text (the quantifier
    names strings of length 0..12, the statement says: on all strings; a function that handles each
    occurrence by a call of its own runs out of depth here): -> list of (event, src, vars, kind)."""
    out = []
    for k in range(n):
        op = ("replace", "split", "replace", "split_join", "join", "join_split")[k % 6]
        alpha = rng.sample(ALPHA, 3)
        t = rstr(rng, 1, 2, alpha[:2])
        fill = rstr(rng, 0, 1, alpha[2:])
        cnt = rng.randint(420, 520)
        if op in ("join", "join_split"):
            if not fill or fill == t[:1]:
                fill = []
            parts = [fill] * cnt
            vars_ = {"P": {"l": parts}, "T": {"s": t}}
            src = "join(P, T)" if op == "join" else "split(join(P, T), escape_pattern(T))"
            out.append(({"op": op if op == "join" else "join_split_many", "parts": parts, "t": t}, src, vars_,
                        "str" if op == "join" else "list"))
            continue
        s = rstr(rng, 0, 2, alpha) + (t + fill) * cnt
        if op == "replace":
            r = [[], t + t, rstr(rng, 1, 2), t[::-1]][k // 6 % 4]
            out.append(({"op": "replace_many", "s": s, "t": t, "r": r}, "replace(S, T, R)",
                        {"S": {"s": s}, "T": {"s": t}, "R": {"s": r}}, "str"))
        else:
            src = "split(S, escape_pattern(T))" if op == "split" else "join(split(S, escape_pattern(T)), T)"
            out.append(({"op": "split_many" if op == "split" else op, "s": s, "t": t}, src,
                        {"S": {"s": s}, "T": {"s": t}}, "list" if op == "split" else "str"))
    return out


def observe(ses, ev, src, vars_, kind):
    """Evaluate on the interpreter and add the observation to the event."""
    o = ses.eval(src, vars_)
    e = dict(ev)
    e["st"] = o[0]
    if kind == "any":
        return e
    if kind in FIELD:
        e[FIELD[kind]] = ZERO[kind]
        if o[0] == "val":
            g = as_kind(o[1], kind)
            if g is None:
                e["st"] = "kind"
            else:
                e[FIELD[kind]] = g
        return e
    # composite results: a list of values
    shape = {"decompose": [("s", "str"), ("rb", "bool"), ("rb2", "bool"), ("ri", "int")],
             "concat": [("rs", "str"), ("ri", "int")],
             "round": [("rs", "str"), ("rs2", "str")],
             "pair": [("rs", "str"), ("rs2", "str")]}[kind]
    for f, k in shape:
        e[f] = ZERO[k]
    if o[0] == "val":
        p = o[1]
        if not (isinstance(p, tuple) and p[0] == "list" and len(p[1]) == len(shape)):
            e["st"] = "kind"
            return e
        for (f, k), x in zip(shape, p[1]):
            g = as_kind(x, k)
            if g is None:
                e["st"] = "kind"
            else:
                e[f] = g
    return e


def record_events(rng, n):
    ses = Session()
    events, meta = [], []
    for _ in range(n):
        ev, src, vars_, kind = gen_event(rng)
        events.append(observe(ses, ev, src, vars_, kind))
        meta.append((src, vars_, kind))
    return events, meta, ses.n


def record_calls(calls):
    ses = Session()
    events = [observe(ses, ev, src, vars_, kind) for ev, src, vars_, kind in calls]
    return events, [(src, vars_, kind) for _, src, vars_, kind in calls], ses.n


def tlc_validate(events, label=None):
    """-> (TLCResult, list of (index, why))"""
    d = tempfile.mkdtemp(prefix="c18-")
    path = os.path.join(d, "trace.ndjson")
    try:
        with open(path, "w") as f:
            for e in events:
                f.write(json.dumps(e) + "\n")
        res = run_tlc("Str_Trace", workers=1, env={"TRACE_FILE": path}, timeout=3000, heap="2g",
                      label=label)
    finally:
        try:
            os.remove(path)
            os.rmdir(d)
        except OSError:
            pass
    done = res.records("DONE")
    if not done or done[-1]["n"] != len(events):
        raise MachineryError("trace validation did not consume the whole trace")
    return res, [(b["l"] - 1, b["why"]) for b in res.records("BAD")]


OBS = ("st", "ri", "rb", "rb2", "rs", "rs2", "rl")


def _mval(v):
    """a value of the model environment as text"""
    if v["k"] == "s":
        return show(txt(v["txt"]))
    if v["k"] == "i":
        return str(v["n"])
    return ("-" if v["n"] < 0 else "") + "".join(map(str, v["ds"]))


def describe(ev):
    skip = ("op", "env") + OBS + (("s",) if ev["op"] == "decompose" else ())
    extra = []
    if ev["op"] == "round":
        skip += ("neg", "ip", "fp", "int")
        extra = ["v=" + ("-" if ev["neg"] else "") + "".join(map(str, ev["ip"]))
                 + ("." + "".join(map(str, ev["fp"])) if ev["fp"] or not ev["int"] else "")]
    if ev["op"] == "interp":
        extra = [txt(v["name"]) + "=" + _mval(v) for v in ev["env"]]
    return ev["op"] + "(" + ", ".join(
        [f"{k}={show(_short(_evtxt(v)))}" for k, v in sorted(ev.items()) if k not in skip] + extra) + ")"


def _evtxt(v):
    if isinstance(v, list):
        if v and isinstance(v[0], list):
            return [txt(p) for p in v]
        return txt(v)
    return v


def _short(x):
    """long strings and lists in a key: the beginning and the size"""
    if isinstance(x, str) and len(x) > 80:
        return x[:24] + f"...({len(x)} characters)"
    if isinstance(x, list) and len(x) > 40:
        return x[:3] + [f"...({len(x)} items)"]
    return x


def observed(ev):
    return {k: _short(_evtxt(v)) for k, v in ev.items() if k in OBS}


def report_bad(run, events, meta, bad):
    for k, why in bad:
        ev = events[k]
        src, vars_, kind = meta[k]
        if why.startswith("MODEL:"):
            raise MachineryError("the generator produced an event the model does not define: " + describe(ev))
        key = "trace:" + describe(ev)
        if ev["op"] in DRIFT_OPS:
            run.drift(ev["op"], {"call": describe(ev), "observed": observed(ev)})
            continue
        run.violation(key, f"{ev['op']}: {src} observed {observed(ev)!r}, rejected by Str_Trace",
                      {"kind": "event", "ev": {k2: v for k2, v in ev.items() if k2 not in OBS},
                       "src": src, "vars": vars_, "rkind": kind})


# ------------------------------------------------------- worker processes
class _Collector:
    """Stands in for Run inside a worker: violations travel back as data."""

    def __init__(self):
        self.found = []

    def violation(self, key, what, case):
        self.found.append((key, what, case))


def _w_replay(job):
    """Replay case records (all records of one s are in the same job)."""
    recs, maxs = job
    col = _Collector()
    ck = Checker(col)
    for rec in recs:
        check_case(ck, rec, maxs)
    return col.found, ck.ses.n, len(ck.seen)


def _w_record(job):
    seed, n = job
    return record_events(random.Random(seed), n)


def _w_calls(calls):
    return record_calls(calls)


CHUNK = 4500          # events per recording job and per TLC validation run
NPROC = 8


def run(run):
    import multiprocessing
    quick = run.tier == "quick"
    cfgs = [("Str_quick", 3)] if quick else [("Str_thorough", 3), ("Str_wide", 2)]
    nev = 36000 if quick else 594000
    # the pool is forked before any thread exists
    pool = multiprocessing.get_context("fork").Pool(NPROC)
    tlc_model = ThreadPoolExecutor(max_workers=1)        # the model runs, one after the other
    tlc_trace = ThreadPoolExecutor(max_workers=NPROC)    # trace validations
    try:
        # (-coverage costs 2.5 times the run: the actions taken are counted from the exported records)
        model_futs = [tlc_model.submit(run_tlc, "Str", cfg, timeout=3000,
                                       label=f"Str driver machine and laws ({cfg})")
                      for cfg, _ in cfgs]
        numcfg = "StrNum_quick" if quick else "StrNum_thorough"
        num_fut = tlc_trace.submit(run_tlc, "StrNum", numcfg, coverage=True, timeout=3000, workers=4,
                                   label=f"StrNum rounding and base 16 on digit sequences ({numcfg})")
        # binding B, recording: independent chunks, each with its own seeded generator
        jobs = [(run.seed * 1000003 + i, min(CHUNK, nev - off))
                for i, off in enumerate(range(0, nev, CHUNK))]
        chunks = []
        val_futs = []
        for i, out in enumerate(pool.imap(_w_record, jobs)):
            chunks.append(out)
            val_futs.append(tlc_trace.submit(
                tlc_validate, out[0], f"Str_Trace validation of recorded calls (chunk {i})"))
        # the exhaustive number cases of StrNum.tla, observed on the interpreter, judged by Str_Trace.tla
        res = num_fut.result()
        run.add_tlc(res, res.label)
        calls = num_events(res.records("NUM"), random.Random(run.seed))
        if not calls:
            raise MachineryError("TLC exported no number cases")
        nnum = len(calls)
        for j, out in enumerate(pool.imap(_w_calls, [calls[o:o + CHUNK] for o in range(0, nnum, CHUNK)])):
            chunks.append(out)
            val_futs.append(tlc_trace.submit(
                tlc_validate, out[0], f"Str_Trace validation of the StrNum cases (chunk {j})"))
        # strings with hundreds of occurrences: a trace of its own
        many = many_calls(random.Random(run.seed * 7919 + 5))
        nmany = len(many)
        for out in pool.imap(_w_calls, [many]):
            chunks.append(out)
            val_futs.append(tlc_trace.submit(
                tlc_validate, out[0], "Str_Trace validation of replace / split / join with many occurrences"))
        # binding A: replay the case records of each model run
        ncase = nkeys = neval_a = 0
        seen = set()
        for (cfg, maxs), fut in zip(cfgs, model_futs):
            res = fut.result()
            recs = []
            for rec in res.records("CASE"):
                key = (tuple(rec["s"]), tuple(rec["t"]), tuple(rec["r"]), maxs)
                if key in seen:
                    continue
                seen.add(key)
                recs.append(rec)
            res.coverage = {"Init": len(recs), "ReplaceFound": sum(q["cnt"][0] for q in recs),
                            "ReplaceDone": len(recs), "JoinStep": sum(q["cnt"][1] for q in recs),
                            "JoinDone": len(recs), "ReverseStep": sum(q["cnt"][2] for q in recs),
                            "ReverseDone": len(recs)}
            run.add_tlc(res, res.label)
            recs.sort(key=lambda q: (q["s"], q["t"], q["r"]))
            for j in (7, 3000, 20000):
                if j < len(recs) and cfg == cfgs[0][0]:
                    run.sample({"CASE": {k: recs[j][k] for k in ("s", "t", "r", "fi", "co", "sp", "rp", "tr")}})
            # cut into jobs at changes of s, so that per-s checks are done once
            size = max(200, len(recs) // (NPROC * 4))
            jobs_a, cur = [], []
            for rec in recs:
                if len(cur) >= size and rec["s"] != cur[-1]["s"]:
                    jobs_a.append((cur, maxs))
                    cur = []
                cur.append(rec)
            if cur:
                jobs_a.append((cur, maxs))
            for found, n, nk in pool.imap(_w_replay, jobs_a):
                for key, what, case in found:
                    run.violation(key, what, case)
                neval_a += n
                nkeys += nk
            ncase += len(recs)
        if ncase == 0:
            raise MachineryError("TLC exported no cases")
        # binding B, verdicts
        events, meta, nb = [], [], 0
        for (ev, me, n), fut in zip(chunks, val_futs):
            res, bad = fut.result()
            run.add_tlc(res, res.label)
            report_bad(run, ev, me, bad)
            events += ev
            meta += me
            nb += n
    finally:
        pool.terminate()
        pool.join()
        tlc_model.shutdown(wait=False, cancel_futures=True)
        tlc_trace.shutdown(wait=False, cancel_futures=True)
    run.sample({"EVENTS": [events[i] for i in range(0, 40, 7)]})
    ops = {}
    for e in events:
        ops[e["op"]] = ops.get(e["op"], 0) + 1
    distinct = len({json.dumps(e, sort_keys=True) for e in events})
    run.cov["traces_validated_against_impl"] = ncase + nev + nnum + nmany
    run.cov["evaluations"] = neval_a + nb
    run.cov["distinct_nontrivial"] = nkeys + distinct
    run.cov["rule"] = ("binding A: distinct (law, expression, arguments) triples replayed from the case records "
                       "of Str.tla (one record per (s, t, r)); binding B: distinct recorded events; "
                       "evaluations counts interpreter calls")
    run.cov["exhaustive"] = True
    run.cov["bounds"] = {"cfgs": [c for c, _ in cfgs] + [numcfg], "random_events": nev,
                         "number_cases": nnum, "many_occurrences_cases": nmany, "events_per_op": ops}
    run.assumptions += [
        "strings are bound in the session environment as values, not written as source literals",
        "split is compared only with separators made by escape_pattern (regular expressions are not modelled)",
        "replace with an empty search text and ord('') only have to return or fail at language level",
        "rounding formats are compared as numbers (any numeral of the rounded number is accepted, also with "
        "an exponent), ties are not generated; decimals have at most 15 significant digits (they are floats), "
        "ints under a rounding or hex format have up to 40 digits",
        "a number under a '0' format has the zeroes between its sign and its digits (the padded text is a numeral "
        "of the same number); text under a '0' format has them in front",
        "base 16 of a negative integer is the sign followed by the digits of the magnitude",
        "lines/words/unlines/unwords/q/esc are not named by the property: disagreements are drift",
        "the VALUE of trim / upper / lower is compared on printable ASCII, ASCII white space and e-acute only; on "
        "other characters (Unicode spaces, invisible marks, special-casing letters, characters beyond U+FFFF) "
        "the laws that need no table are checked: idempotence, trim only takes from the two ends, takes nothing "
        "printable and leaves no ASCII white space there; all other functions are checked on those characters too",
        "sprintf is called with 1..3 and 11..13 arguments; a placeholder that is no argument number is an expression "
        "of the caller (its global variables, or the parameters of a function around the call); expressions are "
        "names, numerals and n op m (op one of + - *); other groups {..} are not generated",
        "s(str, start): a negative start counts from the end, a start outside the string is its nearest end",
        "strings with hundreds of occurrences (replace / split / join): 18 cases per run, 420..520 occurrences",
    ]


def replay(run, case):
    if case["kind"] == "expr":
        ck = Checker(run)
        ck.expect(case["what"], case["src"], case["vars"], tuple(case["want"]))
        run.cov["evaluations"] = ck.ses.n
    elif case["kind"] == "event":
        ses = Session()
        ev = observe(ses, case["ev"], case["src"], case["vars"], case["rkind"])
        res, bad = tlc_validate([ev])
        run.add_tlc(res, "Str_Trace replay")
        report_bad(run, [ev], [(case["src"], case["vars"], case["rkind"])], bad)
