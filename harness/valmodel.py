"""Shared by C06 / C07 / C08: the abstract values of spec/Val.tla on the
Python side - encoding, construction in the implementation (through the
ckl.values constructors in a given insertion order, and as source literals),
abstraction of implementation values back, exact structural keys, the real
lexer, loading the TLC-exported universe, and trace validation.

An abstract value is the JSON form of a Val record:
{"k": kind, "n": [num, den], "s": [code points / limbs / date fields],
 "items": [...], "vals": [...]}.
A date is s = [year, month, day, hour, minute, second, microsecond] (mk still
accepts the former 14 code points 'YYYYMMDDHHMMSS').  A decimal that is neither
a small dyadic rational nor integral >= 10^8 is "fine": n = [sign, -e],
s = limbs of the odd numerator M, value = sign * M / 2^e (only produced when
asked for with fine=True / rich=True).
"""
import datetime
import json
import math
import os
import tempfile
from decimal import Decimal
from fractions import Fraction

from .common import import_ckl, MachineryError
from .tla import run_tlc

import_ckl()
from ckl import values as V  # noqa: E402
from ckl.interpreter import Interpreter  # noqa: E402
from ckl.lexer import Lexer  # noqa: E402
from ckl.errors import CklRuntimeError, CklSyntaxError  # noqa: E402

SMALL_MAX = 1000000
BIG_MIN = 10 ** 8
POW2 = {1, 2, 4, 8, 16, 32, 64, 128, 256, 512, 1024}


class Unencodable(Exception):
    pass


def mk(k, n=None, s=None, items=None, vals=None):
    if k == "date" and s is not None and len(s) == 14 and all(48 <= c <= 57 for c in s):
        t = "".join(chr(c) for c in s)      # the former encoding: the 14 digits of the stamp
        s = [int(t[0:4]), int(t[4:6]), int(t[6:8]), int(t[8:10]), int(t[10:12]), int(t[12:14]), 0]
    return {"k": k, "n": list(n) if n else [0, 1], "s": list(s) if s else [],
            "items": list(items) if items else [], "vals": list(vals) if vals else []}


def cps(text):
    return [ord(c) for c in text]


def text(cp):
    return "".join(chr(c) for c in cp)


def limbs(n):
    out = []
    while n:
        out.append(n % 10000)
        n //= 10000
    return out


def unlimbs(ls):
    n = 0
    for x in reversed(ls):
        n = n * 10000 + x
    return n


# ------------------------------------------------------------------ encoding
def a_null():
    return mk("null")


def a_bool(b):
    return mk("bool", [1 if b else 0, 1])


def a_int(i):
    if abs(i) <= SMALL_MAX:
        return mk("int", [i, 1])
    if abs(i) >= BIG_MIN:
        return mk("int", [1 if i > 0 else -1, 0], limbs(abs(i)))
    raise Unencodable(f"int {i} between the small and the big range")


FINE_MAX_EXP = 1100


def a_dec(x, fine=False):
    """fine=True: every other finite non-integral double as sign * M / 2^e (exact)"""
    if x != x or x in (float("inf"), float("-inf")):
        raise Unencodable("inf/nan")
    if x == 0:
        return mk("dec", [0, -1] if str(x).startswith("-") else [0, 1])
    f = Fraction(x)
    if f.denominator in POW2 and abs(f.numerator) <= SMALL_MAX:
        return mk("dec", [f.numerator, f.denominator])
    if f.denominator == 1 and abs(f.numerator) >= BIG_MIN:
        return mk("dec", [1 if f > 0 else -1, 0], limbs(abs(f.numerator)))
    if fine and f.denominator > 1:
        e = f.denominator.bit_length() - 1          # the denominator of a double is a power of two
        if e <= FINE_MAX_EXP and (e > 10 or abs(f.numerator) > SMALL_MAX):
            return mk("dec", [1 if f > 0 else -1, -e], limbs(abs(f.numerator)))
    raise Unencodable(f"decimal {x!r} outside the exact encodings")


def is_fine(a):
    return a["k"] == "dec" and a["n"][1] < 0 and a["n"][0] != 0


def a_str(s):
    return mk("str", s=cps(s))


def a_date(d):
    return mk("date", s=[d.year, d.month, d.day, d.hour, d.minute, d.second, d.microsecond])


def stamp(s):
    """the 14 digits a date is written with (year padded to four digits)"""
    return "%04d%02d%02d%02d%02d%02d" % tuple(s[:6])


def a_pat(s):
    return mk("pat", s=cps(s))


def a_list(items):
    return mk("list", items=items)


def a_set(items):
    return mk("set", items=items)


def a_map(keys, vals):
    return mk("map", items=keys, vals=vals)


def a_ref(i):
    return mk("ref", [i, 1])


def num_of(a):
    """exact value of an abstract number: int for ints, Fraction for decimals
    (negative zero is Fraction(0); see is_negzero)"""
    n, d = a["n"]
    if d == 0:
        v = n * unlimbs(a["s"])
    elif d < 0 and n != 0:
        v = Fraction(n * unlimbs(a["s"]), 2 ** -d)
    elif a["k"] == "int":
        v = n
    else:
        v = Fraction(n, abs(d))
    return v


def is_negzero(a):
    return a["k"] == "dec" and a["n"] == [0, -1]


def float_of(a):
    if is_negzero(a):
        return -0.0
    return float(num_of(a))


# --------------------------------------------------------------- exact keys
def akey(a):
    """exact, insertion-order-free structural key of an abstract value
    (1 and 1.0 differ, 0.0 and -0.0 differ)"""
    k = a["k"]
    if k == "null":
        return ("null",)
    if k == "bool":
        return ("bool", a["n"][0])
    if k == "int":
        return ("int", num_of(a))
    if k == "dec":
        return ("dec", float_of(a).hex())
    if k in ("str", "pat"):
        return (k, text(a["s"]))
    if k == "date":
        return ("date", tuple(a["s"]))
    if k == "ref":
        return ("ref", a["n"][0])
    if k == "list":
        return ("list", tuple(akey(x) for x in a["items"]))
    if k == "set":
        return ("set", frozenset(akey(x) for x in a["items"]))
    if k == "map":
        return ("map", frozenset((akey(x), akey(y)) for x, y in zip(a["items"], a["vals"])))
    raise ValueError(k)


def vkey(v, refs=None):
    """the same key computed from an implementation value"""
    if isinstance(v, V.ValueNull):
        return ("null",)
    if isinstance(v, V.ValueBoolean):
        return ("bool", 1 if v.value else 0)
    if isinstance(v, V.ValueInt):
        if isinstance(v.value, float):
            return ("int-holding-float", v.value.hex())
        return ("int", int(v.value))
    if isinstance(v, V.ValueDecimal):
        if isinstance(v.value, int):
            return ("dec-holding-int", v.value)
        return ("dec", float(v.value).hex())
    if isinstance(v, V.ValueString):
        return ("str", v.value)
    if isinstance(v, V.ValueDate):
        d = v.value
        return ("date", (d.year, d.month, d.day, d.hour, d.minute, d.second, d.microsecond))
    if isinstance(v, V.ValuePattern):
        return ("pat", v.value)
    if isinstance(v, V.ValueList):
        return ("list", tuple(vkey(x, refs) for x in v.value))
    if isinstance(v, V.ValueSet):
        return ("set", frozenset(vkey(x, refs) for x in v.value))
    if isinstance(v, V.ValueMap):
        return ("map", frozenset((vkey(k, refs), vkey(x, refs)) for k, x in v.value.items()))
    if refs:
        for i, r in refs.items():
            if r is v:
                return ("ref", i)
    return ("other", type(v).__name__, id(v))


def to_abs(v, refs=None, fine=False):
    """implementation value -> abstract value (raises Unencodable outside the
    exact encodings; fine=True: every finite decimal is encodable); set / map
    entries in a deterministic order"""
    if isinstance(v, V.ValueNull):
        return a_null()
    if isinstance(v, V.ValueBoolean):
        return a_bool(v.value)
    if isinstance(v, V.ValueInt):
        if not isinstance(v.value, int) or isinstance(v.value, bool):
            raise Unencodable("int value holding " + type(v.value).__name__)
        return a_int(v.value)
    if isinstance(v, V.ValueDecimal):
        if not isinstance(v.value, float):
            raise Unencodable("decimal value holding " + type(v.value).__name__)
        return a_dec(v.value, fine)
    if isinstance(v, V.ValueString):
        return a_str(v.value)
    if isinstance(v, V.ValueDate):
        return a_date(v.value)
    if isinstance(v, V.ValuePattern):
        return a_pat(v.value)
    if isinstance(v, V.ValueList):
        return a_list([to_abs(x, refs, fine) for x in v.value])
    if isinstance(v, V.ValueSet):
        its = [to_abs(x, refs, fine) for x in v.value]
        its.sort(key=lambda a: repr(akey_sortable(a)))
        return a_set(its)
    if isinstance(v, V.ValueMap):
        ent = [(to_abs(k, refs, fine), to_abs(x, refs, fine)) for k, x in v.value.items()]
        ent.sort(key=lambda e: repr(akey_sortable(e[0])))
        return a_map([e[0] for e in ent], [e[1] for e in ent])
    if refs:
        for i, r in refs.items():
            if r is v:
                return a_ref(i)
    raise Unencodable(type(v).__name__)


def akey_sortable(a):
    k = akey(a)
    return _sortable(k)


def _sortable(k):
    if isinstance(k, frozenset):
        return sorted((_sortable(x) for x in k), key=repr)
    if isinstance(k, tuple):
        return tuple(_sortable(x) for x in k)
    return k


# ----------------------------------------------------- building in the code
def build(a, refs=None):
    """abstract -> implementation value through the ckl.values constructors;
    sets and maps are filled in the order of a['items']"""
    k = a["k"]
    if k == "null":
        return V.NULL
    if k == "bool":
        return V.TRUE if a["n"][0] else V.FALSE
    if k == "int":
        return V.ValueInt(int(num_of(a)))
    if k == "dec":
        return V.ValueDecimal(float_of(a))
    if k == "str":
        return V.ValueString(text(a["s"]))
    if k == "date":
        return V.ValueDate(datetime.datetime(*a["s"]))
    if k == "pat":
        return V.ValuePattern(text(a["s"]))
    if k == "ref":
        return refs[a["n"][0]]
    if k == "list":
        r = V.ValueList()
        for x in a["items"]:
            r.addItem(build(x, refs))
        return r
    if k == "set":
        r = V.ValueSet()
        for x in a["items"]:
            r.addItem(build(x, refs))
        return r
    if k == "map":
        r = V.ValueMap()
        for x, y in zip(a["items"], a["vals"]):
            r.addItem(build(x, refs), build(y, refs))
        return r
    raise ValueError(k)


def quote(s):
    out = s.replace("\\", "\\\\").replace("'", "\\'").replace("\n", "\\n")
    out = out.replace("\r", "\\r").replace("\t", "\\t")
    return "'" + out + "'"


def dec_text(a):
    """exact decimal numeral of an abstract decimal (always with a fraction)"""
    if is_negzero(a):
        return "-0.0"
    if is_fine(a):
        # the shortest numeral that reads back as this double, written positionally
        t = format(Decimal(repr(float_of(a))), "f")
        return t if "." in t else t + ".0"
    v = num_of(a)
    f = Fraction(v)
    s = format(Decimal(f.numerator) / Decimal(f.denominator), "f")
    if "." not in s:
        s += ".0"
    return s


REFNAMES = {1: "stdout", 2: "stdin", 3: "console"}


def literal(a):
    """abstract -> source text that evaluates to it; sets and maps list their
    entries in the order of a['items'] (the insertion order)"""
    k = a["k"]
    if k == "null":
        return "NULL"
    if k == "bool":
        return "TRUE" if a["n"][0] else "FALSE"
    if k == "int":
        return str(num_of(a))
    if k == "dec":
        return dec_text(a)
    if k == "str":
        return quote(text(a["s"]))
    if k == "date":
        us = a["s"][6]
        if us == 0:
            return "date('" + stamp(a["s"]) + "')"
        if us % 1000 == 0:
            # programs reach sub-second dates through date arithmetic (resolution: one millisecond)
            return "(date('" + stamp(a["s"]) + "') + " + format(Decimal(repr(us / 86400e6)), "f") + ")"
        return "date_us('" + stamp(a["s"]) + "', " + str(us) + ")"       # no program form: see evaluable
    if k == "pat":
        p = text(a["s"])
        if "//" in p or p.startswith("/") or p.endswith("/") or p == "":
            return "pattern(" + quote(p) + ")"
        return "//" + p + "//"
    if k == "ref":
        return REFNAMES[a["n"][0]]
    if k == "list":
        return "[" + ", ".join(literal(x) for x in a["items"]) + "]"
    if k == "set":
        if not a["items"]:
            return "<<>>"
        return "<< " + ", ".join(literal(x) for x in a["items"]) + " >>"
    if k == "map":
        if not a["items"]:
            return "<<<>>>"
        if any(x["k"] == "null" for x in a["items"]):
            # a bare NULL key would be read as the string 'NULL' (identifier keys are quoted)
            return "map([" + ", ".join("[" + literal(x) + ", " + literal(y) + "]"
                                       for x, y in zip(a["items"], a["vals"])) + "])"
        return "<<< " + ", ".join(literal(x) + " => " + literal(y)
                                  for x, y in zip(a["items"], a["vals"])) + " >>>"
    raise ValueError(k)


def evaluable(a):
    """literal(a) is a program: every date inside has whole seconds, or whole
    milliseconds and a year the implementation's day numbers cover (date
    arithmetic counts from 1900)"""
    if a["k"] == "date":
        return a["s"][6] == 0 or (a["s"][6] % 1000 == 0 and a["s"][0] >= 1900)
    return all(evaluable(x) for x in a["items"]) and all(evaluable(x) for x in a["vals"])


def is_data(a):
    """data values of C08: NULL, booleans, ints, decimals, strings, patterns,
    and lists, sets and maps of them"""
    if a["k"] in ("date", "ref"):
        return False
    return all(is_data(x) for x in a["items"]) and all(is_data(x) for x in a["vals"])


def has_kind(a, kinds):
    if a["k"] in kinds:
        return True
    return any(has_kind(x, kinds) for x in a["items"]) or any(has_kind(x, kinds) for x in a["vals"])


def depth(a):
    sub = [depth(x) for x in a["items"]] + [depth(x) for x in a["vals"]]
    return (1 + max(sub, default=0)) if a["k"] in ("list", "set", "map") else 0


# ------------------------------------------------------------ the real lexer
def lex(src):
    """token (type, value) pairs of the real scanner"""
    lx = Lexer.init(src, "valmodel")
    return [(t.type, t.value) for t in lx.tokens]


def toks_of(src):
    return [{"t": t, "s": cps(v)} for t, v in lex(src)]


def strip_outside_space(src):
    """drop blanks that are outside string and pattern literals"""
    out = []
    i = 0
    n = len(src)
    while i < n:
        c = src[i]
        if c == "'":
            j = i + 1
            while j < n and src[j] != "'":
                j += 2 if src[j] == "\\" else 1
            out.append(src[i:j + 1])
            i = j + 1
        elif c == "/" and src[i:i + 2] == "//":
            j = src.find("//", i + 2)
            j = n if j < 0 else j + 2
            out.append(src[i:j])
            i = j
        elif c == " ":
            i += 1
        else:
            out.append(c)
            i += 1
    return "".join(out)


# ------------------------------------------------------------- interpreter
class Impl:
    """one interpreter with the reference values (streams) named"""

    def __init__(self):
        self.it = Interpreter(True, False)
        self.refs = {i: self.it.interpret(n, "valmodel") for i, n in REFNAMES.items()}
        self.n = 0

    def put(self, name, value):
        self.it.environment.put(name, value)

    def run(self, src):
        """('val', value) | ('err', text) | ('syntax', text) | ('host', class, text)"""
        self.n += 1
        try:
            return ("val", self.it.interpret(src, "valmodel"))
        except CklRuntimeError as e:
            return ("err", str(e)[:160])
        except CklSyntaxError as e:
            return ("syntax", str(e)[:160])
        except RecursionError:
            return ("host", "RecursionError", "")
        except Exception as e:  # noqa: BLE001
            return ("host", type(e).__name__, str(e)[:160])


def host(fn):
    """('val', x) | ('host', class, text): a Python-level operation on values"""
    try:
        return ("val", fn())
    except RecursionError:
        return ("host", "RecursionError", "")
    except Exception as e:  # noqa: BLE001
        return ("host", type(e).__name__, str(e)[:160])


def bools(v):
    """nested ckl lists of booleans / ints -> nested Python lists"""
    if isinstance(v, V.ValueList):
        return [bools(x) for x in v.value]
    if isinstance(v, V.ValueBoolean):
        return bool(v.value)
    if isinstance(v, V.ValueInt):
        return v.value
    if isinstance(v, V.ValueNull):
        return None
    return ("other", str(v)[:40])


# ----------------------------------------------------------------- universe
def tlc_parallel(jobs):
    """jobs: [(module, cfg, kwargs)] -> results, the TLC processes running side by side"""
    from concurrent.futures import ThreadPoolExecutor

    def attempt(m, c, kw):
        try:
            return run_tlc(m, c, **kw)
        except MachineryError as e:
            return e

    with ThreadPoolExecutor(max_workers=len(jobs)) as ex:
        futs = [ex.submit(attempt, m, c, kw) for m, c, kw in jobs]
        res = [f.result() for f in futs]
    # a run that failed while several JVMs shared a busy machine (no memory, no threads) is run once
    # more, alone; a failure of the specification itself fails again and is raised
    return [run_tlc(m, c, **kw) if isinstance(r, MachineryError) else r for (m, c, kw), r in zip(jobs, res)]


def load_universe(run, cfg, label, res=None):
    if res is None:
        res = run_tlc("ValLaws", cfg, coverage=False, timeout=3000)
    run.add_tlc(res, label)
    uv = {r["i"]: r for r in res.records("UVAL")}
    if not uv:
        raise MachineryError("ValLaws exported no universe")
    n = next(iter(uv.values()))["n"]
    if sorted(uv) != list(range(1, n + 1)):
        raise MachineryError("ValLaws universe export incomplete")
    u = {"n": n, "v": [None] * (n + 1), "os": [None] * (n + 1)}
    for i, r in uv.items():
        u["v"][i] = r["v"]
        u["os"][i] = r["os"]
    for tag, fields in (("EQ", ("eq", "ro")), ("LT", ("lt", "st", "srt")), ("TX", ("txt", "toks"))):
        recs = {r["i"]: r for r in res.records(tag)}
        if recs:
            if sorted(recs) != list(range(1, n + 1)):
                raise MachineryError(f"ValLaws {tag} export incomplete")
            for f in fields:
                if f not in recs[1]:
                    continue
                if f in ("eq", "ro", "lt", "st"):      # rows: 1-based in both indices
                    u[f] = [None] + [[None] + recs[i][f] for i in range(1, n + 1)]
                else:
                    u[f] = [None] + [recs[i][f] for i in range(1, n + 1)]
    return u


# ------------------------------------------------------------------- traces
def validate(run, events, label):
    """run Val_Trace over the events; returns [(index into events, clause)]"""
    if not events:
        return []
    d = tempfile.mkdtemp(prefix="valtrace-")
    path = os.path.join(d, "trace.ndjson")
    try:
        with open(path, "w") as f:
            for e in events:
                f.write(json.dumps(e) + "\n")
        try:
            res = run_tlc("Val_Trace", workers=1, env={"TRACE_FILE": path}, timeout=3000)
        except MachineryError:
            res = run_tlc("Val_Trace", workers=1, env={"TRACE_FILE": path}, timeout=3000)     # once more
    finally:
        try:
            os.remove(path)
            os.rmdir(d)
        except OSError:
            pass
    run.add_tlc(res, label)
    done = res.records("DONE")
    if not done or done[-1]["n"] != len(events):
        raise MachineryError("Val_Trace did not consume the whole trace")
    bad = []
    seen = set()
    for b in res.records("BAD"):
        key = (b["l"], b["why"])
        if key not in seen:
            seen.add(key)
            bad.append((b["l"] - 1, b["why"]))
    return bad


# --------------------------------------------------------------- generation
def canon(a):
    """key under which Equal values coincide (numbers by value, sets and maps
    by content).  Used only to GENERATE well-formed inputs (sets without equal
    elements, equal variants); every judgement is made by TLC (WF re-checks)."""
    k = a["k"]
    if k in ("int", "dec"):
        return ("num", Fraction(num_of(a)))
    if k == "list":
        return ("list", tuple(canon(x) for x in a["items"]))
    if k == "set":
        return ("set", frozenset(canon(x) for x in a["items"]))
    if k == "map":
        return ("map", frozenset((canon(x), canon(y)) for x, y in zip(a["items"], a["vals"])))
    return akey(a)


ALPHA = [" ", "!", "#", "'", "(", "A", "a", "b", "é", "\\", "\n", "\t", "/", "{", "<"]
BIGS = [2 ** 53, 2 ** 53 + 1, 2 ** 53 - 1, 2 ** 64, 2 ** 63, 10 ** 8, 10 ** 8 + 1, 10 ** 20, 123456789012]
DATES = ["20240101000000", "20240101000001", "19991231235959", "20240229120000", "15000101000000",
         "20231231235959"]


# the wider pools (rich=True; C06 / C07): characters that compose (e + U+0301 against U+00E9), a
# non-BMP and a replacement character, CR, further digits (text order against numeric order);
# dates below the year 1000 (the host writes them with fewer digits), dates inside one second
# (micro- and millisecond steps), the ends of the calendar; decimals one and two ulps apart
ALPHA_RICH = ALPHA + ["e", "\u0301", "\u00e8", "\ufffd", "\U0001F600", "\r", "0", "1", "2", "9", "Z", "\x7f"]
DATES_RICH = [(999, 12, 31, 0, 0, 0, 0), (999, 12, 31, 23, 59, 59, 999999), (1000, 1, 1, 0, 0, 0, 0),
              (1, 1, 1, 0, 0, 0, 0), (9, 9, 9, 9, 9, 9, 9), (9999, 12, 31, 23, 59, 59, 999999),
              (2000, 6, 1, 12, 48, 36, 0), (2000, 6, 1, 12, 48, 36, 444000), (2000, 6, 1, 12, 48, 36, 444001),
              (2000, 6, 1, 12, 48, 37, 0), (2024, 1, 1, 0, 0, 0, 1), (2024, 1, 1, 0, 0, 0, 999000),
              (2023, 12, 31, 23, 59, 59, 999999), (1899, 12, 31, 0, 0, 0, 0), (2024, 2, 29, 12, 0, 0, 500000)]
DEC_BASES = [0.1, 0.2, 0.3, 0.1 + 0.2, 1.0, 1 / 3, 2.5, 0.7, 1e-5, 123456.789, 5000000.5, 1e15 + 0.3, 4.35, 100.0,
             2.0 ** 53, 0.5, 1e-9, 33.333333333333336]


def step_ulps(x, k):
    """the double k representable steps above (below) x"""
    for _ in range(abs(k)):
        x = math.nextafter(x, math.inf if k > 0 else -math.inf)
    return x


def date_shift(rng, s):
    """a date close to s: one microsecond, millisecond, second, day or year away"""
    d = datetime.datetime(*s)
    delta = rng.choice([datetime.timedelta(microseconds=1), datetime.timedelta(milliseconds=1),
                        datetime.timedelta(milliseconds=444), datetime.timedelta(seconds=1),
                        datetime.timedelta(days=1), datetime.timedelta(days=365)])
    try:
        d = d + delta if rng.random() < 0.5 else d - delta
    except OverflowError:
        pass
    return a_date(d)


def gen_rich(rng, kind):
    """a scalar of the wider pools (None when the kind has none)"""
    if kind == "dec":
        x = rng.choice(DEC_BASES) * rng.choice([1, 1, -1])
        x = step_ulps(x, rng.choice([0, 0, 1, -1, 2, -2]))
        try:
            return a_dec(x, fine=True)
        except Unencodable:
            return None
    if kind == "date":
        if rng.random() < 0.6:
            return mk("date", s=list(rng.choice(DATES_RICH)))
        base = mk("date", s=cps(rng.choice(DATES)))
        return date_shift(rng, base["s"])
    if kind == "str":
        n = rng.choice([1, 1, 2, 2, 3])
        return a_str("".join(rng.choice(ALPHA_RICH) for _ in range(n)))
    return None


def gen_scalar(rng, kind=None, rich=False):
    kind = kind or rng.choice(["null", "bool", "int", "int", "dec", "dec", "str", "str", "date", "pat"])
    if rich and kind in ("dec", "date", "str") and rng.random() < 0.4:
        r = gen_rich(rng, kind)
        if r is not None:
            return r
    if kind == "null":
        return a_null()
    if kind == "bool":
        return a_bool(rng.random() < 0.5)
    if kind == "int":
        r = rng.random()
        if r < 0.6:
            return a_int(rng.randint(-3, 3))
        if r < 0.8:
            return a_int(rng.randint(-SMALL_MAX, SMALL_MAX))
        return a_int(rng.choice(BIGS) * rng.choice([1, 1, -1]))
    if kind == "dec":
        r = rng.random()
        if r < 0.5:
            return a_dec(rng.randint(-12, 12) / rng.choice([1, 1, 2, 4]))
        if r < 0.6:
            return a_dec(rng.choice([0.0, -0.0]))
        if r < 0.8:
            return a_dec(rng.randint(-SMALL_MAX, SMALL_MAX) / rng.choice([1, 2, 8, 64, 1024]))
        x = float(rng.choice(BIGS))
        if x != int(x) or abs(x) < BIG_MIN:
            x = 2.0 ** 53
        return a_dec(x * rng.choice([1, -1]))
    if kind == "str":
        n = rng.choice([0, 1, 1, 2, 2, 3, 4])
        return a_str("".join(rng.choice(ALPHA) for _ in range(n)))
    if kind == "date":
        return mk("date", s=cps(rng.choice(DATES)))
    if kind == "pat":
        return a_pat("".join(rng.choice("aA!b.") for _ in range(rng.randint(1, 3))))
    raise ValueError(kind)


def gen_value(rng, depth, kinds=None, elem=None):
    """a random abstract value of nesting depth <= depth; elem: generator of
    scalars (default gen_scalar)"""
    elem = elem or gen_scalar
    if depth == 0 or rng.random() < 0.35:
        return elem(rng)
    k = rng.choice(kinds or ["list", "set", "map"])
    n = rng.choice([0, 1, 2, 2, 3, 3, 4, 5])
    if k == "list":
        return a_list([gen_value(rng, depth - 1, kinds, elem) for _ in range(n)])
    items, seen = [], set()
    for _ in range(n):
        x = gen_value(rng, depth - 1, kinds, elem)
        c = canon(x)
        if c not in seen:
            seen.add(c)
            items.append(x)
    if k == "set":
        return a_set(items)
    return a_map(items, [gen_value(rng, max(depth - 1, 0), kinds, elem) for _ in items])


def equal_variant(rng, a):
    """a value Equal to a, spelled differently where possible: int <-> decimal,
    0.0 <-> -0.0, other insertion orders"""
    k = a["k"]
    if k == "int":
        v = num_of(a)
        if rng.random() < 0.6 and (abs(v) <= SMALL_MAX or (abs(v) < 2 ** 53 and abs(v) >= BIG_MIN)):
            return a_dec(float(v))
        return a
    if k == "dec":
        if a["n"] in ([0, 1], [0, -1]):
            return rng.choice([a_dec(0.0), a_dec(-0.0), a_int(0)])
        v = Fraction(num_of(a))
        if v.denominator == 1 and rng.random() < 0.6:
            try:
                return a_int(int(v))
            except Unencodable:
                return a
        return a
    if k == "list":
        return a_list([equal_variant(rng, x) for x in a["items"]])
    if k in ("set", "map"):
        idx = list(range(len(a["items"])))
        rng.shuffle(idx)
        its = [equal_variant(rng, a["items"][i]) for i in idx]
        if k == "set":
            return a_set(its)
        return a_map(its, [equal_variant(rng, a["vals"][i]) for i in idx])
    return a


def mutate(rng, a, elem=None, rich=False):
    """a value close to a (usually not Equal); rich: decimals by single ulps,
    dates by micro- / milliseconds, strings over the wider alphabet"""
    elem = elem or gen_scalar
    k = a["k"]
    if rich and k == "dec" and rng.random() < 0.6:
        try:
            return a_dec(step_ulps(float_of(a), rng.choice([1, -1, 2, -2])), fine=True)
        except Unencodable:
            return a
    if rich and k == "date" and rng.random() < 0.7:
        return date_shift(rng, a["s"])
    if rich and k == "str" and rng.random() < 0.4:
        s0 = text(a["s"])
        c = rng.choice(ALPHA_RICH)
        return a_str(rng.choice([s0 + c, c + s0, s0[:-1] + c]))
    if k in ("list", "set", "map") and a["items"] and rng.random() < 0.8:
        i = rng.randrange(len(a["items"]))
        b = json.loads(json.dumps(a))
        r = rng.random()
        if r < 0.5:
            b["items"][i] = mutate(rng, a["items"][i], elem, rich)
        elif r < 0.7 and k == "map":
            b["vals"][i] = mutate(rng, a["vals"][i], elem, rich)
        elif r < 0.85:
            del b["items"][i]
            if k == "map":
                del b["vals"][i]
        else:
            b["items"].append(elem(rng))
            if k == "map":
                b["vals"].append(elem(rng))
        if k in ("set", "map"):
            cs = [canon(x) for x in b["items"]]
            if len(set(cs)) != len(cs):
                return a
        return b
    if k == "int" and a["n"][1] == 1:
        try:
            return a_int(a["n"][0] + rng.choice([-1, 1]))
        except Unencodable:
            return a
    if k == "str":
        s = text(a["s"])
        r = rng.random()
        if r < 0.4:
            return a_str(s + rng.choice(ALPHA))
        if r < 0.7 and s:
            return a_str(s[:-1])
        return a_str(rng.choice(ALPHA) + s)
    return elem(rng, k) if k in ("null", "bool", "int", "dec", "str", "date", "pat") else elem(rng)


def perms_of(a, rng, limit):
    """abstract containers holding the entries of a in other insertion orders
    (all of them when few, else a sample)"""
    import itertools
    n = len(a["items"])
    if a["k"] not in ("set", "map") or n < 2:
        return []
    allp = list(itertools.permutations(range(n)))[1:]
    if len(allp) > limit:
        allp = rng.sample(allp, limit)
    out = []
    for p in allp:
        if a["k"] == "set":
            out.append(a_set([a["items"][i] for i in p]))
        else:
            out.append(a_map([a["items"][i] for i in p], [a["vals"][i] for i in p]))
    return out


def deep_reorder(rng, a):
    """the same value with every set / map inside it in a random insertion order"""
    k = a["k"]
    if k == "list":
        return a_list([deep_reorder(rng, x) for x in a["items"]])
    if k in ("set", "map"):
        idx = list(range(len(a["items"])))
        rng.shuffle(idx)
        its = [deep_reorder(rng, a["items"][i]) for i in idx]
        if k == "set":
            return a_set(its)
        return a_map(its, [deep_reorder(rng, a["vals"][i]) for i in idx])
    return a
