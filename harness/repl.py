"""The read-eval-print loop (src/ckl/repl.py) driven along the behaviours of
spec/Repl.tla (binding A), used by C01 (continuation prompts, parser-level
failures) and by C13 (no host exception ends a session while it evaluates).

ckl.repl.main() runs in-process: `input` is replaced by a feeder that records
the prompt it is asked with and hands out the next line; stdout is captured.
Nothing in /repo is changed.
"""
import builtins
import io
import signal
import sys

from .common import import_ckl, MachineryError
from .tla import run_tlc

import_ckl()
import ckl.repl  # noqa: E402
from ckl.errors import CklSyntaxError  # noqa: E402
from ckl.parser import parse_script  # noqa: E402

LEXEME = {"int": "1", "decimal": "1.5", "string": "'s'", "boolean": "TRUE", "pattern": "//a//"}


class _Alarm(BaseException):
    pass


def _on_alarm(signum, frame):
    raise _Alarm()


def session(lines, secure=True, limit=20):
    """feed lines to the REPL until it asks for more than there is;
    -> (prompts, outputs, exc): prompts[k] is the prompt shown before line k (one more at the end),
    outputs[k] what was printed between prompt k and prompt k+1, exc the exception that ended main() or None"""
    prompts, marks = [], []
    it = iter(lines)
    out = io.StringIO()

    def feeder(prompt=""):
        prompts.append(prompt)
        marks.append(out.tell())
        try:
            return next(it)
        except StopIteration:
            raise EOFError()

    saved = (builtins.input, sys.argv, sys.stdout)
    builtins.input = feeder
    sys.argv = ["repl"] + (["-s"] if secure else [])
    sys.stdout = out
    exc = None
    old = signal.signal(signal.SIGALRM, _on_alarm)
    signal.alarm(limit)
    try:
        ckl.repl.main()
    except SystemExit:
        pass
    except BaseException as e:  # noqa: BLE001
        exc = e
    finally:
        signal.alarm(0)
        signal.signal(signal.SIGALRM, old)
        builtins.input, sys.argv, sys.stdout = saved
    text = out.getvalue()
    marks.append(len(text))
    outputs = [text[marks[k]:marks[k + 1]] for k in range(len(marks) - 1)]
    return prompts, outputs, exc


def tok_text(t):
    return LEXEME.get(t["ty"], t["v"])


def lines_of(rec):
    """the lines typed in one behaviour of the model: tokens joined by blanks, every line ends with a blank
    (repl.py concatenates the lines without a separator)"""
    toks, brk = rec["toks"], rec["brk"]
    out, start = [], 0
    for b in brk:
        out.append(" ".join(tok_text(t) for t in toks[start:b]) + " ")
        start = b
    return out


def parse_class(text):
    try:
        parse_script(text, "{stdin}")
        return "ok", ""
    except CklSyntaxError as e:
        return ("eof" if str(e.msg).startswith("Unexpected end of input") else "syntax"), str(e.msg)
    except BaseException as e:  # noqa: BLE001
        return "host", type(e).__name__ + ": " + str(e)[:80]


def model_behaviours(run, cfg, label):
    """-> {(lines...): set of verdicts of the last Enter} from Repl.tla"""
    res = run_tlc("Repl", cfg, timeout=3000)
    run.add_tlc(res, label)
    beh = {}
    for rec in res.records("REPL"):
        ls = tuple(lines_of(rec))
        beh.setdefault(ls, set()).add(rec["v"])
    if not beh:
        raise MachineryError("Repl.tla exported no behaviour")
    return beh


def replay(run, beh, rng, max_more, report_parse, report_eval, max_finished=10 ** 9):
    """drive the real REPL along the behaviours; report_parse(key, what, case) / report_eval(...) receive
    what the properties forbid; everything else is drift.  -> statistics"""
    keys = sorted(beh)
    finished = [k for k in keys if beh[k] != {"more"}]
    pending = [k for k in keys if "more" in beh[k]]
    if len(pending) > max_more:
        pending = rng.sample(pending, max_more)
    if len(finished) > max_finished:
        finished = sorted(rng.sample(finished, max_finished))
    stats = {"behaviours": 0, "sessions": 0, "lines": 0, "prompt_agree": 0}

    def judge(ls, prompts, outputs, exc, base):
        """base: index of the behaviour's first prompt in this session"""
        want = beh[ls]
        got_prompts = prompts[base:base + len(ls) + 1]
        buf = "".join(ls)
        stats["behaviours"] += 1
        stats["lines"] += len(ls)
        if exc is not None and len(got_prompts) <= len(ls):
            cls, detail = parse_class(buf)
            what = f"{type(exc).__name__}: {str(exc)[:80]}"
            case = {"kind": "repl", "lines": list(ls)}
            if cls == "host":
                report_parse("repl-host:" + buf, f"repl-host-exception: the session ended with {what} while parsing {buf!r}", case)
            else:
                report_eval("repl-eval-host:" + buf, f"repl-host-exception: the session ended with {what} while evaluating {buf!r}", case)
            return False
        # prompts: ">" first, "+" after every line but the last, then what the verdict says
        ok_sets = []
        for v in want:
            ok_sets.append(["> "] + ["+ "] * (len(ls) - 1) + (["+ "] if v == "more" else ["> "]))
        if got_prompts in ok_sets:
            stats["prompt_agree"] += 1
            return True
        cls, detail = parse_class(buf)
        if cls == "host":
            report_parse("repl-hang:" + buf,
                         f"repl-continuation: the parser fails with {detail} on {buf!r}; the loop keeps asking for more input",
                         {"kind": "repl", "lines": list(ls)})
        elif cls in ("syntax", "ok") and len(got_prompts) == len(ls) + 1 and got_prompts[-1] == "+ ":
            # the real parser has a verdict on the buffer - a syntax error that is not "Unexpected end of input",
            # or a program - and the loop asks for another line instead of acting on it: whatever is typed next is
            # glued to a text that is already decided (the hang of the property, seen from the keyboard)
            report_parse("repl-hang:" + buf,
                         f"repl-continuation: the parser's verdict on {buf!r} is {cls}{' (' + detail + ')' if detail else ''}; "
                         f"the loop asks for more input instead of {'reporting it' if cls == 'syntax' else 'evaluating it'}",
                         {"kind": "repl", "lines": list(ls)})
        else:
            run.drift("repl-prompts", {"lines": list(ls), "model": sorted(want), "prompts": got_prompts, "parser": cls})
        return True

    def oksets(ls):
        return [["> "] + ["+ "] * (len(ls) - 1) + (["+ "] if v == "more" else ["> "]) for v in beh[ls]]

    # behaviours that end at the main prompt share sessions; one that does not behave is run again alone
    CH = 200
    for i in range(0, len(finished), CH):
        chunk = finished[i:i + CH]
        k = 0
        while k < len(chunk):
            lines, bases = [], []
            for ls in chunk[k:]:
                bases.append(len(lines))
                lines += list(ls)
            prompts, outputs, exc = session(lines)
            stats["sessions"] += 1
            j = 0
            for ls, base in zip(chunk[k:], bases):
                if prompts[base:base + len(ls) + 1] in oksets(ls):
                    stats["behaviours"] += 1
                    stats["lines"] += len(ls)
                    stats["prompt_agree"] += 1
                    j += 1
                else:
                    break
            k += j
            if k < len(chunk):
                ls = chunk[k]
                p1, o1, e1 = session(list(ls))
                stats["sessions"] += 1
                judge(ls, p1, o1, e1, 0)
                k += 1
    for ls in pending:
        prompts, outputs, exc = session(list(ls))
        stats["sessions"] += 1
        judge(ls, prompts, outputs, exc, 0)
    return stats


# evaluation-level sessions (C13): whatever a line evaluates to, the loop prints it and goes on
EVAL_LINES = ["error stdout", "error stdin", "error date()", "error //a//", "error <<1>>", "error TRUE", "error 1.5",
              "error 'boom'", "error 42", "error [1, 2]", "error NULL", "error <<<'a' => 1>>>", "error <*a = 1*>",
              "error fn(x) x", "1 / 0", "nosuch", "[1, 2][5]", "def f(x) error x; f(7)", "def o = <*_str_ = fn(self) 1 / 0*>; o",
              "return 5", "break", "continue", "NULL", "1 + 1", "'text'", "[1, 'a', NULL]", "<<<1 => 2>>>",
              "require nosuchmodule", "def g() g(); 1", ";", "1;", "do error 'x' finally 2 end", "1" + "0" * 400 + " + 1.0",
              "date('x')", "int('x')", "'abc'[7]", "s('{nosuch}')", "fn(x) x", "<*a = 1*>", "//a+//", "println(5)",
              # round 5 (C13): a one-statement line whose evaluation uses up the host's stack with no block on the
              # way (the definitions on a line of their own: the session keeps them); results and error values
              # that cannot be rendered
              "def c13f(n) c13f(n + 1)", "c13f(1)", "def c13a = []; append(c13a, c13a); def c13b = []; append(c13b, c13b); 1",
              "c13a == c13b", "string(c13a)", "c13a < c13b", "c13a", "error c13a", "error <*_str_ = fn(self) error 'x'*>",
              "error <*_str_ = fn(self) error self*>", "<*_str_ = sorted*>", "split('abc', '(x)?b')"]


def eval_sessions(report):
    """-> number of lines evaluated; report(key, what, case) for every host exception that ends a session"""
    n = 0
    for secure in (True, False):
        k = 0
        while k < len(EVAL_LINES):
            lines = EVAL_LINES[k:]
            prompts, outputs, exc = session(lines + ["exit"], secure=secure)
            consumed = len(prompts)                 # prompts shown = lines asked for
            if exc is None:
                n += len(lines)
                break
            bad = lines[min(consumed, len(lines)) - 1]
            report(f"repl-eval-host:secure={secure}:{bad}",
                   f"repl-host-exception: the line {bad!r} ended the session with {type(exc).__name__}: {str(exc)[:80]}",
                   {"kind": "repl-eval", "lines": [bad], "secure": secure})
            n += consumed
            k += consumed
    return n
