"""C20 - reported source lines are the lines where the reported construct starts.

Specs: LexerOps/Lexer (token lines: invariant LineIsStartLine against the
reference LineOf; exported per-token lines), Parser (which token a syntax
error is reported at: errAt).

Binding A
 (i)   every text reached by the scanner configurations (all token kinds
       followed by blank, LF, CRLF, comment, bracket, operator, end of input)
       is scanned by the real Lexer; each token's line and file name are
       compared with the model's line for that token.
 (ii)  every syntax-error run of the parser automaton (sampled) is rendered
       under random multi-line layouts; the real CklSyntaxError must carry the
       file name and the line of the token the automaton names (errAt).
 (iii) programs with one planted runtime fault at a known token (undefined
       name, type error, explicit error, bad index, non-boolean condition ...),
       also inside called functions (stack-trace entries) and inside a module,
       rendered under random multi-line layouts: CklRuntimeError.pos and every
       stack-trace entry must carry file name and line of the marked tokens.
Lines under a layout are computed by the reference definition LineOf (1 + line
breaks before the token's first character), the same one TLC checks the
scanner mirror against.  Columns are not compared (not in the property).
"""
import os
import random
import re
import shutil
import tempfile

from .common import import_ckl, MachineryError
from .tla import run_tlc_many
from . import c01

import_ckl()
from ckl.lexer import Lexer  # noqa: E402
from ckl.parser import parse_script  # noqa: E402
from ckl.errors import CklSyntaxError, CklRuntimeError  # noqa: E402
from ckl.interpreter import Interpreter  # noqa: E402
from ckl.values import ValueList, ValueString  # noqa: E402

SEPS = [" ", "\n", "\r\n", " # c\n", "\t", "\n\n", "  ", " \n "]
FNAME = "file.ckl"


def layout(rng, texts, multiline=True):
    """render tokens with random separators; returns (text, [line of token k])"""
    out = []
    lines = []
    line = 1
    if rng.random() < 0.3:
        pre = rng.choice(["\n", "# head\n", "\r\n", " "])
        out.append(pre)
        line += pre.count("\n")
    for k, t in enumerate(texts):
        lines.append(line)
        out.append(t)
        line += t.count("\n")
        if k < len(texts) - 1 or rng.random() < 0.5:
            sep = rng.choice(SEPS if multiline else [" "])
            out.append(sep)
            line += sep.count("\n")
    return "".join(out), lines


# ---------------------------------------------------------------- (i) tokens
def check_tokens(run, recs):
    n = 0
    for text, rec in recs.items():
        if rec["status"] != "run":
            continue
        try:
            toks = Lexer(text, FNAME).scan().tokens
        except CklSyntaxError:
            run.drift("lexer-code-rejects-model-accepts", text)
            continue
        except Exception as e:  # noqa: BLE001  (C01's business; not judged here)
            run.drift("lexer-host-exception", [text, type(e).__name__])
            continue
        want = rec["toks"]
        sig = [(t.type, t.value) for t in toks]
        wsig = [(w["ty"], "".join(chr(c) for c in w["val"])) for w in want]
        if sig != wsig:
            run.drift("token-sequence-differs", {"text": text, "code": sig[:6], "model": wsig[:6]})
            continue
        n += 1
        for k, (t, w) in enumerate(zip(toks, want)):
            if t.pos.line != w["line"] or t.pos.filename != FNAME:
                run.violation(f"token-line:{text!r}:{k}",
                              f"token-line: token {k} {t.value!r} of {text!r} reports "
                              f"{t.pos.filename}:{t.pos.line}, it begins on line {w['line']}",
                              {"kind": "tokens", "text": text, "lines": [x["line"] for x in want]})
                break
    return n


# ---------------------------------------------------------- (ii) syntax faults
def check_syntax_fault(run, texts, err_at, text, lines):
    case = {"kind": "syntax", "texts": texts, "errAt": err_at, "text": text, "lines": lines}
    try:
        parse_script(text, FNAME)
    except CklSyntaxError as e:
        if e.pos is None or not hasattr(e.pos, "line"):
            return False           # C01's business
        want = lines[err_at - 1]
        if e.pos.line != want or e.pos.filename != FNAME:
            run.violation(f"syntax-line:{text!r}",
                          f"syntax-error-line: {text!r} reports {e.pos.filename}:{e.pos.line} "
                          f"({e.msg[:50]}), the offending token {texts[err_at - 1]!r} is on line {want}", case)
        return True
    except Exception:  # noqa: BLE001
        return False
    run.drift("syntax-fault-accepted", text)
    return False


# messages of the parser's checks that depend on the syntax tree built so far (not on the next token): the
# automaton resolves them as `choice` or not at all
DATA_DEPENDENT = ("Destructuring assign expected", "Cannot assign to system variable", "Invalid pattern",
                  "Rest argument", "Spread operator only allowed", "Invalid int literal", "Cannot redefine keyword")


def error_token_one_line(texts):
    """(1-based index of the token a syntax error of the one-line rendering points at, message); index None:
    no error, no position, not on line 1, or not at the start of a token"""
    try:
        parse_script(" ".join(texts), FNAME)
    except CklSyntaxError as e:
        if e.pos is None or not hasattr(e.pos, "line") or e.pos.line != 1:
            return None, str(e.msg)
        return c01.col_to_index(texts).get(e.pos.column), str(e.msg)
    except Exception:  # noqa: BLE001
        return None, ""
    return None, ""


# --------------------------------------------------------- (iii) runtime faults
# token text, role.  roles: P = error position, A = acceptable alternative
# (first token of the construct), S0/S1 = stack-trace entries innermost first,
# s0/s1 = acceptable alternatives for them (the callee name before the paren)
TEMPLATES = [
    ("undefined-name", "def a = 1 ; def b = a + ZZ:P ; b"),
    ("explicit-error", "def f ( x ) do if x > 1 then error:P 'boom' ; x end ; f:s0 (:S0 5 )"),
    ("two-frames", "def g ( y ) y + UNDEF:P ; def f ( x ) g:s0 (:S0 x ) ; f:s1 (:S1 1 )"),
    ("type-error", "def a:A = 1 ; a:A -:P 'x'"),
    ("add-chain", "def a:A = 1 ; a:A + 2 + 3 -:P 'x'"),
    ("add-chain-2", "def a = 1 ; 5:A - a -:P 'x' + 1"),
    ("mul-chain", "def a = 4 ; a:A * 2 /:P 0 * 3"),
    ("mul-in-add", "def a = 4 ; 1:A + a %:P 0 + 2"),
    ("rel-chain", "def a = 4 ; 1 < a and a:A -:P 'x' < 2"),
    ("call-chain", "def f ( x ) x ; def a = f ( 1 ) + f ( UNDEF2:P ) ; a"),
    ("nested-args", "def f ( x , y ) x ; f ( 1 , [ 2 , ZQ:P ] )"),
    ("bad-index", "def l = [ 1 , 2 ] ; l:A [:P 5 ]"),
    ("non-boolean-if", "def t = 3 ; if:P t then 2 else 3"),
    ("iterate-int", "for:P x in 5 do 1 end"),
    ("assign-undefined", "zz:P = 1"),
    ("not-int", "def a = 1 ; not:P a"),
    ("div-zero", "1:A /:P 0"),
    ("while-int", "while:P 1 do 2 end"),
    ("missing-member", "def o = <* a = 1 *> ; o:A ->:P nope ( )"),
    ("method-frame", "def o = <* m = fn ( self , k ) k + UNDEF:P *> ; o:s0 ->:S0 m ( 1 )"),
    ("error-in-loop", "def r = 0 ; for i in [ 1 , 2 ] do if i == 2 then error:P i ; r = r + i end"),
    ("lambda-frame", "def h = fn ( q ) q:A *:P 'z' ; [ 1 ] !> h:s0 (:S0 )"),
    # one template per kind of node that raises (positions are taken when the node is built: a position taken
    # too late - after the operands were parsed - names a later line as soon as the construct spans lines)
    ("slice-int", "def n = 5 ; n:A [:P 1 to 3 ]"),
    ("slice-to-end", "def n = 5 ; n:A [:P 1 to * ]"),
    ("and-non-bool", "def a = 1 ; TRUE:A and:P a"),
    ("or-non-bool", "def a = 1 ; FALSE:A or:P a"),
    ("compound-assign", "def a = 1 ; a += 'x':A -:P 1"),
    ("compound-undefined", "qq:P += 1"),
    ("compr-int", "def n = 5 ; [:P x for x in n ]"),
    ("compr-cond", "[:P x for x in [ 1 ] if x ]"),
    ("set-compr-int", "def n = 5 ; <<:P x for x in n >>"),
    ("map-compr-int", "def n = 5 ; <<<:P x => 1 for x in n >>>"),
    ("destr-assign-int", "def a = 1 ; def b = 2 ; [:P a , b ] = 5"),
    ("destr-def-int", "def:P [ a , b ] = 5"),
    ("destr-undefined", "def a = 1 ; [:P a , qq ] = [ 1 , 2 ]"),
    ("unary-minus-str", "def s = 'x' ; -:P s"),
    ("spread-int", "def f ( a ) a ; def n = 5 ; f:A (:P ... n )"),
    ("require-missing", "def a = 1 ; require:P nosuchmodule"),
    ("member-of-int", "def n = 5 ; n:A ->:P m"),
    ("call-non-function", "def n = 5 ; n:A (:P 1 )"),
    ("pipe-undefined", "def a = 1 ; a !> nosuch:P ( )"),
    ("missing-arg", "def f ( a , b ) a ; f:A (:P 1 )"),
    ("too-many-args", "def f ( a ) a ; f:A (:P 1 , 2 )"),
    ("index-assign-range", "def l = [ 1 ] ; l:A [:P 5 ] = 2"),
    ("member-assign-int", "def n = 5 ; n:A ->:P m = 2"),
    ("elif-non-bool", "def t = 3 ; if:P FALSE then 1 elif t then 2 else 3"),
    ("for-destr-int", "for:P [ a , b ] in [ 1 ] do a end"),
    ("starts-with-int", "def d = 5 ; d:A starts:P with 3"),
    ("not-str", "def s = 'x' ; not:P s"),
    ("default-undefined", "def f ( a , b = UNDEF:P ) a ; f ( 1 )"),
    ("list-literal-undef", "def l = [ 1 , UNDEF:P , 3 ]"),
    ("map-literal-undef", "def m = <<< 1 => UNDEF:P >>>"),
    ("obj-literal-undef", "def o = <* a = UNDEF:P *>"),
    ("return-undef", "def f ( ) do return UNDEF:P ; end ; f ( )"),
    ("catch-value-undef", "do error 1 catch UNDEF:P 2 end"),
    ("finally-undef", "do 1 finally UNDEF:P end"),
]


def parse_template(t):
    texts, roles = [], {}
    for k, w in enumerate(t.split(" ")):
        m = re.match(r"^(.+?):([PAS01s]+)$", w) if len(w) > 2 and ":" in w[1:] else None
        if m and m.group(2) in ("P", "A", "S0", "S1", "s0", "s1"):
            texts.append(m.group(1))
            roles.setdefault(m.group(2), []).append(k)
        else:
            texts.append(w)
    return texts, roles


ENTRY = re.compile(r" (\S*):(\d+):(-?\d+)$")


def check_runtime_fault(run, name, texts, roles, text, lines, fname=FNAME, interp=None):
    case = {"kind": "runtime", "template": name, "text": text, "lines": lines, "roles": roles}
    it = interp or Interpreter(True, False)
    try:
        it.interpret(text, fname)
    except CklRuntimeError as e:
        if e.pos is None:
            run.violation(f"runtime-nopos:{name}:{text!r}", f"runtime-error-no-position: {name} {e.msg}", case)
            return True
        ok_lines = {lines[k] for k in roles.get("P", []) + roles.get("A", [])}
        if e.pos.line not in ok_lines or e.pos.filename != fname:
            run.violation(f"runtime-line:{name}:{text!r}",
                          f"runtime-error-line: {name}: reports {e.pos.filename}:{e.pos.line} "
                          f"({str(e.msg)[:40]}), the fault is on line(s) {sorted(ok_lines)} of {fname}", case)
            return True
        # stack-trace entries, innermost first; only the frames the template marks
        entries = [ENTRY.search(str(s)) for s in e.stacktrace]
        user = [m for s, m in zip(e.stacktrace, entries)
                if m and not re.match(r"^(add|sub|mul|div|mod|equals|less|greater)\(", str(s))]
        for depth, tag in enumerate(["S0", "S1"]):
            if tag not in roles:
                continue
            if depth >= len(user):
                run.violation(f"stack-missing:{name}:{text!r}",
                              f"stack-trace-missing: {name}: no entry for frame {depth}: {e.stacktrace}", case)
                break
            m = user[depth]
            ok = {lines[k] for k in roles[tag] + roles.get(tag.lower(), [])}
            if int(m.group(2)) not in ok or m.group(1) != fname:
                run.violation(f"stack-line:{name}:{text!r}",
                              f"stack-trace-line: {name}: entry {depth} says {m.group(1)}:{m.group(2)}, "
                              f"the call is on line(s) {sorted(ok)} of {fname}", case)
                break
        return True
    except Exception:  # noqa: BLE001
        run.drift("runtime-template-other-exception", [name, text])
        return False
    run.drift("runtime-template-no-error", [name, text])
    return False


def module_faults(run, rng, n):
    """a fault inside module code: the error names mod:<name> and the line in
    the module; the importer's call site is reported in the importer's file"""
    d = tempfile.mkdtemp(prefix="c20mod-")
    done = 0
    try:
        for k in range(n):
            mname = f"m{k}"
            mt, mroles = parse_template("def ok = 1 ; def boom ( x ) x + NOPE:P ; def top = 2")
            mtext, mlines = layout(rng, mt)
            with open(os.path.join(d, mname + ".ckl"), "w", newline="") as f:
                f.write(mtext)
            it = Interpreter(True, False)
            path = ValueList()
            path.addItem(ValueString(d))
            it.base_environment.put("checkerlang_module_path", path)
            # every import form: the error names the MODULE (mod:<file name>), whatever the importer calls it
            form = k % 4
            if form == 0:
                imp, iroles = parse_template(f"require {mname} ; {mname}:s0 ->:S0 boom ( 1 )")
            elif form == 1:
                imp, iroles = parse_template(f"require {mname} as q{k} ; q{k}:s0 ->:S0 boom ( 1 )")
            elif form == 2:
                imp, iroles = parse_template(f"require {mname} import [ boom as bb{k} ] ; bb{k}:s0 (:S0 1 )")
            else:
                imp, iroles = parse_template(f"require {mname} unqualified ; boom:s0 (:S0 1 )")
            itext, ilines = layout(rng, imp)
            case = {"kind": "module", "module": mtext, "importer": itext}
            try:
                it.interpret(itext, FNAME)
                run.drift("module-template-no-error", itext)
                continue
            except CklRuntimeError as e:
                done += 1
                want = mlines[mroles["P"][0]]
                if e.pos is None or e.pos.filename != "mod:" + mname or e.pos.line != want:
                    run.violation(f"module-line:{mtext!r}",
                                  f"module-error-line: reports {e.pos}, the fault is on line {want} of mod:{mname}", case)
                    continue
                ents = [ENTRY.search(str(s)) for s in e.stacktrace]
                ents = [m for s, m in zip(e.stacktrace, ents) if m and str(s).startswith(("boom(", f"bb{k}("))]
                ok = {ilines[j] for j in iroles["S0"] + iroles["s0"]}
                if not ents or ents[0].group(1) != FNAME or int(ents[0].group(2)) not in ok:
                    run.violation(f"module-stack:{itext!r}",
                                  f"module-stack-line: call of module function reported as "
                                  f"{e.stacktrace}, it is on line(s) {sorted(ok)} of {FNAME}", case)
            # a fault at the top level of a module, while it is loaded
            m2 = f"t{k}"
            tt, troles = parse_template("def a = 1 ; def b = a + NOPE:P ; def c = 3")
            ttext, tlines = layout(rng, tt)
            with open(os.path.join(d, m2 + ".ckl"), "w", newline="") as f:
                f.write(ttext)
            try:
                it.interpret(f"require {m2}", FNAME)
            except CklRuntimeError as e:
                done += 1
                want = tlines[troles["P"][0]]
                if e.pos is None or e.pos.filename != "mod:" + m2 or e.pos.line != want:
                    run.violation(f"module-load-line:{ttext!r}",
                                  f"module-error-line: load-time fault reports {e.pos}, it is on line {want} of mod:{m2}",
                                  {"kind": "module-load", "module": ttext})
            # a SYNTAX fault inside a module: reported in the module, at the line of the offending token
            m3 = f"s{k}"
            st, sroles = parse_template("def a = 1 ; def b = ( a + ;:P def c = 3")
            stext, slines = layout(rng, st)
            with open(os.path.join(d, m3 + ".ckl"), "w", newline="") as f:
                f.write(stext)
            rq, _ = layout(rng, ["def", "z", "=", "1", ";", "require", m3])
            try:
                it.interpret(rq, FNAME)
                run.drift("module-syntax-template-no-error", stext)
            except CklSyntaxError as e:
                done += 1
                want = slines[sroles["P"][0]]
                if e.pos is None or getattr(e.pos, "filename", None) != "mod:" + m3 or e.pos.line != want:
                    run.violation(f"module-syntax-line:{stext!r}",
                                  f"module-error-line: syntax fault in a module reports {e.pos}, it is on line {want} of mod:{m3}",
                                  {"kind": "module-syntax", "module": stext, "importer": rq})
            except CklRuntimeError as e:
                # reported as a failed require: still an error raised by module code, and its position is the
                # module's line of the offending token (the class of the exception is not the property's business)
                done += 1
                want = slines[sroles["P"][0]]
                run.drift("module-syntax-fault-as-runtime-error", str(e.msg)[:60])
                if e.pos is None or getattr(e.pos, "filename", None) != "mod:" + m3 or e.pos.line != want:
                    run.violation(f"module-syntax-line:{stext!r}",
                                  f"module-error-line: syntax fault in a module is reported at {e.pos} ({str(e.msg)[:60]}), "
                                  f"it is on line {want} of mod:{m3}",
                                  {"kind": "module-syntax", "module": stext, "importer": rq})
    finally:
        shutil.rmtree(d, ignore_errors=True)
    return done


# scanner errors: lexemes the scanner itself rejects, standing where a token is expected
LEX_FAULTS = ["0x", "0b", "0x_", "0b_", "'\\xZZ'", '"\\x1"', "'\\x'", '"\\xg0"', "'ab\\x'", '"\\x"']


def lexical_faults(run, rng, n):
    """the scanner's own errors name the line on which the rejected lexeme begins, whatever follows it"""
    frames = [["def", "a", "=", "@", ";", "def", "b", "=", "2"], ["@"], ["f", "(", "1", ",", "@", ")"],
              ["[", "1", ",", "@", "]"], ["x", "=", "@"], ["do", "@", "end"]]
    done = 0
    for _ in range(n):
        fr = rng.choice(frames)
        lx = rng.choice(LEX_FAULTS)
        texts = [lx if t == "@" else t for t in fr]
        p = fr.index("@")
        text, lines = layout(rng, texts)
        fname = rng.choice([FNAME, "other.ckl", "dir/x.ckl", "{stdin}"])
        try:
            parse_script(text, fname)
            run.drift("lexical-fault-accepted", text)
        except CklSyntaxError as e:
            done += 1
            if e.pos is None or not hasattr(e.pos, "line") or e.pos.line != lines[p] or e.pos.filename != fname:
                run.violation(f"lexical-line:{text!r}",
                              f"scanner-error-line: {text!r} reports {e.pos} ({str(e.msg)[:40]}), the rejected lexeme {lx!r} "
                              f"begins on line {lines[p]} of {fname}", {"kind": "lexical", "text": text, "line": lines[p], "fname": fname})
        except Exception:  # noqa: BLE001  (C01's subject)
            pass
    return done


def run(run):
    quick = run.tier == "quick"
    rng = random.Random(run.seed)
    lcfgs = ["Lexer_K1", "Lexer_K2", "Lexer_K3", "Lexer_K4", "Lexer_struct"] if quick else \
            ["Lexer_K1t", "Lexer_K2t", "Lexer_K3t", "Lexer_K4t", "Lexer_struct"]
    lrecs = c01.lexer_phase(run, lcfgs)
    ntok = check_tokens(run, lrecs)
    ml = [t for t in lrecs if "\n" in t and lrecs[t]["toks"]]
    run.sample({"text": ml[len(ml) // 2], "model_token_lines": [x["line"] for x in lrecs[ml[len(ml) // 2]]["toks"]]})
    # (ii) syntax faults at the token the automaton names
    pcfgs = ["Parser_expr", "Parser_stmt", "Parser_lit", "Parser_req", "Parser_empty"] if quick else \
            ["Parser_expr_t", "Parser_stmt_t", "Parser_lit_t", "Parser_req_t", "Parser_empty_t"]
    precs = c01.parser_phase(run, pcfgs)
    faults = []
    for key, alts in precs.items():
        if len(alts) == 1 and alts[0]["status"] in ("syntax", "eof") and len(key) >= 2:
            faults.append((key, alts[0]["errAt"]))
    rng.shuffle(faults)
    nsyn = 0
    for key, err_at in faults[: (2500 if quick else 60000)]:
        texts = [c01.tok_text({"ty": ty, "v": v}) for ty, v in key]
        # which token the error names is read off the one-line rendering, where line 1 / column identify a token
        # without ambiguity; the automaton's errAt does not model the data-dependent checks of the parser
        # (`[ break ] = while` is rejected for its target list, which begins at `[`, before `while` is looked at)
        named, msg = error_token_one_line(texts)
        if named is not None and named != err_at:
            run.drift("syntax-fault-token-differs-from-automaton", {"text": " ".join(texts), "pda": err_at, "code": named, "msg": msg[:50]})
            if msg.startswith(DATA_DEPENDENT):
                err_at = named           # a check the automaton does not model: the code's own token stands
            # any other disagreement keeps the automaton's token: the layouts below then show a wrong line
        for _ in range(2 if quick else 4):
            text, lines = layout(rng, texts)
            nsyn += check_syntax_fault(run, texts, err_at, text, lines)
    # (iii) planted runtime faults
    nrt = 0
    reps = 80 if quick else 1500
    shared = Interpreter(True, False)         # one base environment; every case gets a fresh session scope
    for name, t in TEMPLATES:
        texts, roles = parse_template(t)
        for _ in range(reps):
            text, lines = layout(rng, texts)
            shared.environment = shared.base_environment.newEnv()
            nrt += check_runtime_fault(run, name, texts, roles, text, lines, interp=shared)
    text, lines = layout(rng, parse_template(TEMPLATES[2][1])[0])
    run.sample({"template": TEMPLATES[2][0], "text": text, "token_lines": lines})
    nmod = module_faults(run, rng, 25 if quick else 600)
    nlex = lexical_faults(run, rng, 600 if quick else 20000)
    # the SAME text under two file names, one after the other: each report names the file it was given
    # (a cache keyed by the text alone would hand back the first name)
    names = ["first.ckl", "second.ckl", "dir/third.ckl"]
    for name, t in TEMPLATES[:: (4 if quick else 1)]:
        texts, roles = parse_template(t)
        text, lines = layout(rng, texts)
        for fn in names:
            shared.environment = shared.base_environment.newEnv()
            nrt += check_runtime_fault(run, name + "@" + fn, texts, roles, text, lines, fname=fn, interp=shared)
    for key, err_at in faults[: (60 if quick else 2000)]:
        texts = [c01.tok_text({"ty": ty, "v": v}) for ty, v in key]
        text, lines = layout(rng, texts)
        for fn in names:
            try:
                parse_script(text, fn)
            except CklSyntaxError as e:
                if e.pos is not None and hasattr(e.pos, "filename") and e.pos.filename != fn:
                    run.violation(f"syntax-file:{text!r}:{fn}",
                                  f"syntax-error-file: {text!r} parsed as {fn} reports {e.pos}",
                                  {"kind": "lexical", "text": text, "line": getattr(e.pos, "line", 0), "fname": fn})
            except Exception:  # noqa: BLE001
                pass
    run.cov["lexical_faults"] = nlex
    if not nlex:
        raise MachineryError("no lexical fault was rejected by the scanner")
    if not (ntok and nsyn and nrt and nmod):
        raise MachineryError(f"a phase produced no cases: {ntok} {nsyn} {nrt} {nmod}")
    run.cov["traces_validated_against_impl"] = ntok + nsyn + nrt + nmod
    run.cov["evaluations"] = len(lrecs) + nsyn + nrt + nmod
    run.cov["distinct_nontrivial"] = ntok + nsyn + nrt + nmod
    run.cov["rule"] = ("scanner texts whose token sequence matched the model (lines compared per token) + "
                       "syntax-fault renderings that raised CklSyntaxError + runtime-fault renderings that "
                       "raised CklRuntimeError + module faults; distinct by text")
    run.cov["phases"] = {"token_texts": ntok, "syntax_faults": nsyn, "runtime_faults": nrt, "module_faults": nmod}
    run.cov["exhaustive"] = False
    run.assumptions += [
        "for operator faults and calls either the operator/paren token's line or the line of the construct's first token is accepted (DESIGN 5.5)",
        "columns are not compared",
        "stack-trace entries of the built-in operator functions (add, sub, ...) are not compared, only user frames",
    ]


def replay(run, case):
    k = case["kind"]
    if k == "tokens":
        text = case["text"]
        toks = Lexer(text, FNAME).scan().tokens
        for i, (t, ln) in enumerate(zip(toks, case["lines"])):
            if t.pos.line != ln:
                run.violation(f"token-line:{text!r}:{i}", f"token-line: token {i} reports line {t.pos.line}, begins on {ln}", case)
                break
    elif k == "lexical":
        try:
            parse_script(case["text"], case["fname"])
        except CklSyntaxError as e:
            if e.pos is None or e.pos.line != case["line"] or e.pos.filename != case["fname"]:
                run.violation(f"lexical-line:{case['text']!r}", f"scanner-error-line: reports {e.pos}, lexeme begins on line {case['line']}", case)
    elif k == "syntax":
        check_syntax_fault(run, case["texts"], case["errAt"], case["text"], case["lines"])
    elif k == "runtime":
        roles = {a: b for a, b in case["roles"].items()}
        check_runtime_fault(run, case["template"], None, roles, case["text"], case["lines"])
    else:
        run.drift("replay-not-supported-for-module-cases", case)
