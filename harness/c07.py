"""C07 - comparison is a total order per kind and sorting agrees with it.

Spec: spec/Val.tla (Less, Compare, Stated, Norm quoted from the statement),
spec/ValLaws.tla (strict-total-order laws over the universe, checked by TLC),
spec/ValSort.tla (the insertion sort of FuncSorted as a state machine with
"ordered stable permutation" as its property), spec/Val_Trace.tla.

Binding A: TLC exports the universe with the Equal / Less / Stated tables and
the ascending enumeration of every set and map, and every run of the sorting
machine (input, mode, result).  On the implementation `<, <=, >, >=`,
compare / less / greater / less_equals / greater_equals, min, max, sorted
(with and without key / cmp), and the enumeration order of sets and map keys
are compared with them, through the Python API and interpreted programs.
Where the statement names no order (NULL, patterns, sets, maps) only the
laws are demanded of what the implementation answers.
Binding B: random same-kind pairs and triples, random lists of length <= 7
with duplicate keys, random sets and maps; what the implementation answered
is validated by TLC against Val_Trace.

min / max: the two-argument form, the list form (core.ckl's scan, modelled in
ValSort.tla as ScanTake / ScanSkip / ScanEnd) and the key argument of both,
on every same-kind pair (both element orders), on three-element lists drawn
from the universe, on every run of the scanning machine and on random lists.
Enumeration: every place where a program enumerates a set or a map
(enum_sites: comprehension, for loop, list(), spread into a list literal and
into a call, destructuring def / assignment / loop, sorted() handed a set,
keys / values / entries of a map).  Dates carry microseconds and years from 1
on, strings composing and non-BMP characters, decimals single ulps.
"""
import random

from .common import MachineryError
from . import valmodel as M
from .valmodel import V
from .c06 import Ctx, build_universe, lit_key

RANK = {"null": 0, "bool": 1, "int": 2, "dec": 2, "str": 3, "date": 4, "pat": 5, "list": 6, "set": 7,
        "map": 8, "ref": 9}


def rank(a):
    return RANK[a["k"]]


def sign(x):
    return -1 if x < 0 else (1 if x > 0 else 0)


def observe_api(x, y):
    return {"lt": bool(x < y), "le": bool(x <= y), "gt": bool(x > y), "ge": bool(x >= y), "eq": bool(x == y)}


def check_pair(cx, u, A, L, i, j, obs):
    """same-kind pair: the relations through the API"""
    a, b = u["v"][i], u["v"][j]
    key = f"{lit_key(a)} ~ {lit_key(b)}"
    case = {"kind": "pair", "a": a, "b": b}
    o = M.host(lambda: observe_api(A[i], L[j]))
    cx.n_eval += 1
    if o[0] == "host":
        cx.vio("cmp:" + key + " !" + o[1], f"host-exception: comparing {key} raised {o[1]}", case)
        return
    r = o[1]
    obs[(i, j)] = r
    if u["st"][i][j]:
        want = {"lt": u["lt"][i][j], "gt": u["lt"][j][i], "le": not u["lt"][j][i], "ge": not u["lt"][i][j]}
        for f, w in want.items():
            if r[f] != w:
                cx.vio(f"{f}:{key}", f"order: {lit_key(a)} {f} {lit_key(b)} is {r[f]}, the model says {w}", case)
    else:
        laws(cx, r, key, a, b, case, "")


def laws(cx, r, key, a, b, case, via):
    """pairs whose order the statement does not name (NULL, patterns, sets,
    maps, lists differing in such a position) are outside the property's
    quantifier: what the laws would say about them is recorded as drift"""
    n = int(r["lt"]) + int(r["eq"]) + int(r["gt"])
    if n != 1 or r["le"] != (r["lt"] or r["eq"]) or r["ge"] != (r["gt"] or r["eq"]):
        cx.run.drift("order-laws-on-kinds-outside-the-quantifier" + via,
                     {"a": lit_key(a), "b": lit_key(b), "observed": r})


ROW_SRC = ("do def x = %s; [[x < y, x <= y, x > y, x >= y, x == y, compare(x, y), less(x, y), less_equals(x, y), "
           "greater(x, y), greater_equals(x, y), min(x, y), max(x, y), min([x, y]), max([x, y]), "
           "min(x, y, key = fn(t) [t]), max(x, y, key = fn(t) [t]), min([y, x]), max([y, x])] for y in %s]; end")
# the further forms of min / max: (name, column, which of the two is listed first)
MINMAX_FORMS = [("min", 10, "x"), ("max", 11, "x"), ("min of the list [x, y]", 12, "x"),
                ("max of the list [x, y]", 13, "x"), ("min with key", 14, "x"), ("max with key", 15, "x"),
                ("min of the list [y, x]", 16, "y"), ("max of the list [y, x]", 17, "y")]


def check_row_prog(cx, u, A, L, i, js, lst):
    """row i against the same-kind values js through one program"""
    a = u["v"][i]
    o = cx.im.run(ROW_SRC % ("a%d" % i, lst))
    if o[0] != "val":
        for j in js:
            oo = cx.im.run(ROW_SRC % ("a%d" % i, "[l%d]" % j))
            cx.n_eval += 1
            if oo[0] != "val":
                b = u["v"][j]
                cx.vio(f"prog:{lit_key(a)} ~ {lit_key(b)} !{oo[1]}",
                       f"{'host-exception' if oo[0] == 'host' else 'error'}: comparing {lit_key(a)} with "
                       f"{lit_key(b)} in a program failed: {oo[1:]}", {"kind": "pair", "a": a, "b": b})
        return
    rows = o[1].value
    cx.n_eval += len(js)
    for j, row in zip(js, rows):
        b = u["v"][j]
        key = f"{lit_key(a)} ~ {lit_key(b)}"
        case = {"kind": "pair", "a": a, "b": b}
        c = row.value
        r = {"lt": c[0].value, "le": c[1].value, "gt": c[2].value, "ge": c[3].value, "eq": c[4].value}
        cmpv = c[5].value
        if u["st"][i][j]:
            lt, gt = u["lt"][i][j], u["lt"][j][i]
            want = {"lt": lt, "gt": gt, "le": not gt, "ge": not lt}
            for f, w in want.items():
                if r[f] != w:
                    cx.vio(f"prog {f}:{key}", f"order: program {lit_key(a)} {f} {lit_key(b)} is {r[f]}, "
                                              f"the model says {w}", case)
            wc = -1 if lt else (1 if gt else 0)
            if not isinstance(cmpv, int) or sign(cmpv) != wc:
                cx.vio(f"compare:{key}", f"compare: compare({lit_key(a)}, {lit_key(b)}) is {cmpv}, the model "
                                         f"says sign {wc}", case)
            # min / max return one of the two, and the right one - in the two-argument form, over a
            # list (either order of the elements), and with a key
            for f, col, first in MINMAX_FORMS:
                res = c[col]
                is_min = f.startswith("min")
                bad_if_x, bad_if_y = (gt, lt) if is_min else (lt, gt)
                if res is A[i]:
                    if bad_if_x:
                        cx.vio(f"{f}:{key}", f"{f.split()[0]}: {f} on x = {lit_key(a)}, y = {lit_key(b)} is x, the "
                                             f"model orders them the other way", case)
                elif res is L[j]:
                    if bad_if_y:
                        cx.vio(f"{f}:{key}", f"{f.split()[0]}: {f} on x = {lit_key(a)}, y = {lit_key(b)} is y, the "
                                             f"model orders them the other way", case)
                else:
                    cx.vio(f"{f}:{key}", f"{f.split()[0]}: {f} on x = {lit_key(a)}, y = {lit_key(b)} is "
                                         f"{str(res)[:60]}, neither of the two", case)
                    continue
                # (the two-argument form answers its second argument for equal ones, the scan over a
                # list the first: neither is named by the statement; the list form is compared as drift)
                if "list" in f and not lt and not gt and A[i] is not L[j] and (res is A[i]) != (first == "x"):
                    cx.run.drift("min-max-of-equal-elements-is-not-the-first", {"form": f, "x": lit_key(a),
                                                                                "y": lit_key(b)})
        else:
            laws(cx, r, key, a, b, case, " (program)")
        named = [c[6].value, c[7].value, c[8].value, c[9].value]
        if named != [r["lt"], r["le"], r["gt"], r["ge"]]:
            cx.vio(f"natives:{key}", f"consistency: less/less_equals/greater/greater_equals give {named}, the "
                                     f"operators {[r['lt'], r['le'], r['gt'], r['ge']]}", case)


def check_transitivity(cx, u, groups, obs):
    """asymmetry and transitivity of the observed relation on the triples the
    table comparison does not settle (kinds outside the quantifier): drift"""
    n = 0
    for g in groups.values():
        if all(u["st"][i][j] for i in g for j in g):
            continue
        for i in g:
            for j in g:
                rij = obs.get((i, j))
                if not rij or not rij["lt"]:
                    continue
                if obs.get((j, i), {}).get("lt"):
                    cx.run.drift("asymmetry-on-kinds-outside-the-quantifier",
                                 {"a": lit_key(u["v"][i]), "b": lit_key(u["v"][j])})
                for k in g:
                    rjk = obs.get((j, k))
                    n += 1
                    if rjk and rjk["lt"] and not obs.get((i, k), {}).get("lt"):
                        cx.run.drift("transitivity-on-kinds-outside-the-quantifier",
                                     {"a": lit_key(u["v"][i]), "b": lit_key(u["v"][j]), "c": lit_key(u["v"][k])})
    return n


# ------------------------------------------------------------------- sorted
def sort_elem(m, e):
    """ValSort's compact element -> abstract value"""
    if m in ("num", "numkey", "num3", "numsub", "min", "max"):          # [num, den, 0 = int | 1 = decimal]
        return M.mk("dec" if e[2] else "int", e[:2])
    return M.a_list([M.a_int(e[0]), M.a_str(chr(96 + e[1]))])


SORT_CALL = {"num": "sorted(%s)", "numkey": "sorted(%s, key = fn(x) [type(x), x])", "plain": "sorted(%s)", "key": "sorted(%s, key = fn(x) x[0])",
             "num3": "sorted(%s, cmp = fn(a, b) 3 * compare(a, b))", "numsub": "sorted(%s, cmp = fn(a, b) int(2 * a) - int(2 * b))",
             "keyrev": "sorted(%s, cmp = fn(a, b) compare(b, a), key = fn(x) x[0])"}


def check_sort_case(cx, m, inp, out):
    src = SORT_CALL[m] % M.literal(M.a_list(inp))
    o = cx.im.run(src)
    cx.n_eval += 1
    case = {"kind": "sort", "m": m, "inp": inp, "out": out}
    if o[0] != "val":
        cx.vio("sorted:" + src + " !" + str(o[1]), f"{'host-exception' if o[0] == 'host' else 'error'}: {src} "
                                                   f"failed: {o[1:]}", case)
        return
    got = M.vkey(o[1])
    want = M.akey(M.a_list(out))
    if got != want:
        cx.vio("sorted:" + src, f"sorted: {src} gives {o[1]}, the sorting machine {M.literal(M.a_list(out))}", case)


MINMAX_CALL = {"min": "min(sl)", "max": "max(sl)", "minkey": "min(sl, key = fn(x) x[0])",
               "maxkey": "max(sl, key = fn(x) x[0])"}


def which_of(objs, res):
    """position (1-based) of the returned object among the inputs, by identity; 0: none of them"""
    for k, ob in enumerate(objs):
        if ob is res:
            return k + 1
    return 0


def check_minmax_case(cx, m, inp, which, ok):
    """one run of the scan machine: the element returned is one the model accepts"""
    objs = [M.build(e, cx.im.refs) for e in inp]
    lst = V.ValueList()
    for ob in objs:
        lst.addItem(ob)
    cx.im.put("sl", lst)
    src = MINMAX_CALL[m]
    o = cx.im.run(src)
    cx.n_eval += 1
    desc = src.replace("sl", M.literal(M.a_list(inp)), 1)
    case = {"kind": "minmax", "m": m, "inp": inp}
    if o[0] != "val":
        cx.vio("minmax:" + desc + " !" + str(o[1]), f"{'host-exception' if o[0] == 'host' else 'error'}: {desc} "
                                                    f"failed: {o[1:]}", case)
        return
    got = which_of(objs, o[1])
    if got == 0 or not ok[got - 1]:
        cx.vio("minmax:" + desc, f"{m[:3]}: {desc} gives {str(o[1])[:60]} (position {got}), the scanning machine "
                                 f"position {which}: {'not an element' if got == 0 else 'another element is ' + ('below' if m.startswith('min') else 'above') + ' it'}",
               case)
    elif got != which:
        cx.run.drift("min-max-of-equal-elements-is-not-the-first", {"call": desc, "position": got})


def check_triples(cx, u, L, groups, rng, count):
    """min / max of three-element lists drawn from the universe (every argument order)"""
    n = 0
    for g in groups.values():
        st = [i for i in g if u["st"][i][i]]
        if len(st) < 3:
            continue
        for _ in range(max(1, count * len(st) // max(1, sum(len(x) for x in groups.values())))):
            i, j, k = rng.sample(st, 3)
            if not (u["st"][i][j] and u["st"][j][k] and u["st"][i][k]):
                continue
            idx = [i, j, k]
            lst = V.ValueList()
            for t in idx:
                lst.addItem(L[t])
            cx.im.put("sl", lst)
            o = cx.im.run("[min(sl), max(sl), min(sl, key = fn(t) [t]), max(sl, key = fn(t) [t])]")
            cx.n_eval += 1
            n += 1
            names = "[" + ", ".join(lit_key(u["v"][t]) for t in idx) + "]"
            case = {"kind": "minmax", "m": "min", "inp": [u["v"][t] for t in idx]}
            if o[0] != "val":
                cx.vio(f"minmax3:{names} !{o[1]}", f"{'host-exception' if o[0] == 'host' else 'error'}: min / max of "
                                                   f"{names} failed: {o[1:]}", case)
                continue
            for f, res in zip(("min", "max", "min with key", "max with key"), o[1].value):
                got = which_of([L[t] for t in idx], res)
                if got == 0:
                    cx.vio(f"{f} of 3:{names}", f"{f[:3]}: {f} of {names} is {str(res)[:60]}, not an element", case)
                    continue
                t = idx[got - 1]
                beaten = [q for q in idx if (u["lt"][q][t] if f.startswith("min") else u["lt"][t][q])]
                if beaten:
                    cx.vio(f"{f} of 3:{names}", f"{f[:3]}: {f} of {names} is {lit_key(u['v'][t])}, but "
                                                f"{lit_key(u['v'][beaten[0]])} is "
                                                f"{'below' if f.startswith('min') else 'above'} it", case)
    return n


def enum_sites(a):
    """the places where a program enumerates the set / map held in `ev`:
    (program, what it yields: keys | values | entries, whether it yields everything)"""
    n = len(a["items"])
    k = min(n, 3)
    ids = ", ".join("pqr"[:k])
    sites = []
    if a["k"] == "set":
        sites += [("[x for x in ev]", "keys", True), ("list(ev)", "keys", True),
                  ("do def acc = []; for x in ev do append(acc, x) end; acc; end", "keys", True),
                  ("[...ev]", "keys", True), ("[...ev, ...[]]", "keys", True),
                  ("(fn(a...) a...)(...ev)", "keys", True),
                  ("sorted(ev, cmp = fn(a, b) 0)", "keys", True),
                  ("[x for x in ev if TRUE]", "keys", True)]
        if k:
            sites += [(f"do def [{ids}] = ev; [{ids}]; end", "keys", k == n),
                      ("do " + " ".join(f"def {c} = NULL;" for c in "pqr"[:k]) + f" [{ids}] = ev; [{ids}]; end", "keys", k == n)]
        if k >= 2:
            sites += [(f"do def acc = []; for [{ids}] in [ev] do " + " ".join(f"append(acc, {c});" for c in "pqr"[:k])
                       + " end; acc; end", "keys", k == n)]
    else:
        sites += [("[x for x in keys ev]", "keys", True),
                  ("do def acc = []; for x in keys ev do append(acc, x) end; acc; end", "keys", True),
                  ("[e[0] for e in entries ev]", "keys", True), ("list(set(ev))", "keys", True),
                  ("[...ev]", "keys", True),
                  ("[v for v in values ev]", "values", True),
                  ("do def acc = []; for v in values ev do append(acc, v) end; acc; end", "values", True),
                  ("[e[1] for e in entries ev]", "values", True),
                  ("[e for e in entries ev]", "entries", True),
                  ("do def acc = []; for e in entries ev do append(acc, e) end; acc; end", "entries", True)]
        if not any(x["k"] == "str" for x in a["items"]):
            sites.append(("(fn(a...) a...)(...ev)", "values", True))     # string keys would name the arguments
    return sites


def check_enum(cx, a, srt, built, how):
    """enumeration order of a set / of a map at every enumeration site"""
    cx.im.put("ev", built)
    want = [M.akey(x) for x in srt]
    vals_of = {M.akey(x): y for x, y in zip(a["items"], a["vals"])} if a["k"] == "map" else {}
    progs = []
    for p, what, full in enum_sites(a):
        if what == "keys":
            w = want
        elif what == "values":
            w = [M.akey(vals_of[kx]) for kx in want]
        else:
            w = [("list", (kx, M.akey(vals_of[kx]))) for kx in want]
        progs.append((p, w if full else w[:min(len(w), 3)]))
    # the text of the container lists its elements / keys in that order too
    if not any(M.has_kind(x, ("set", "map")) for x in srt):
        by_key = {M.akey(x): (x, y) for x, y in zip(a["items"], a["vals"] or a["items"])}
        parts = []
        for x in srt:
            kx, vx = by_key[M.akey(x)]
            tx = str(M.build(kx, cx.im.refs))
            parts.append(tx if a["k"] == "set" else tx + " => " + str(M.build(vx, cx.im.refs)))
        br = ("<<", ">>") if a["k"] == "set" else ("<<<", ">>>")
        exp = br[0] + ", ".join(parts) + br[1]
        o = cx.im.run("string(ev)")
        cx.n_eval += 1
        if o[0] != "val" or M.strip_outside_space(o[1].value) != M.strip_outside_space(exp):
            cx.vio(f"enum-text:{lit_key(a)}", f"enumeration: the text of {lit_key(a)} ({how}) is "
                                              f"{o[1].value if o[0] == 'val' else o[1:]!r}, in ascending order "
                                              f"it is {exp!r}", {"kind": "enum", "v": a})
    for p, w in progs:
        o = cx.im.run(p)
        cx.n_eval += 1
        case = {"kind": "enum", "v": a, "src": p}
        if o[0] != "val":
            cx.vio(f"enum:{lit_key(a)}:{p} !{o[1]}", f"{'host-exception' if o[0] == 'host' else 'error'}: "
                                                     f"enumerating {lit_key(a)} with {p} failed: {o[1:]}", case)
            continue
        got = [M.vkey(x, cx.im.refs) for x in o[1].value]
        if got != w:
            cx.vio(f"enum:{lit_key(a)}:{p}", f"enumeration: {p} over {lit_key(a)} ({how}) gives {o[1]}, "
                                             f"the ascending order of the elements / keys is "
                                             f"{M.literal(M.a_list(srt))}", case)


# ---------------------------------------------------------------- binding B
KINDS_B = ["num", "num", "str", "str", "bool", "date", "list-num", "list-str", "list-bool", "list-date",
           "list-list-num", "list-list-str"]


def gen_kind(rng, kind):
    """a value of the given kind: num | str | bool | date | list-<kind>"""
    if kind == "num":
        return M.gen_scalar(rng, rng.choice(["int", "dec"]), rich=True)
    if kind == "int":
        return M.gen_scalar(rng, "int")
    if kind in ("str", "bool", "date"):
        return M.gen_scalar(rng, kind, rich=True)
    ek = kind[5:]
    n = rng.choice([0, 1, 1, 2, 2, 3])
    return M.a_list([gen_kind(rng, ek) for _ in range(n)])


def near(rng, a, kind):
    """a value of the same kind that is equal to, close to, or unrelated to a"""
    r = rng.random()
    if r < 0.3:
        return M.equal_variant(rng, a)
    if r < 0.8:
        return tweak(rng, a, kind)
    return gen_kind(rng, kind)


def tweak(rng, a, kind):
    if not kind.startswith("list-"):
        b = M.mutate(rng, a, lambda g, k=None: gen_kind(g, kind), rich=True)
        return b if RANK[b["k"]] == RANK[a["k"]] else gen_kind(rng, kind)
    ek = kind[5:]
    items = list(a["items"])
    r = rng.random()
    if items and r < 0.5:
        i = rng.randrange(len(items))
        items[i] = near(rng, items[i], ek)
    elif items and r < 0.7:
        del items[rng.randrange(len(items))]
    else:
        items.insert(rng.randint(0, len(items)), gen_kind(rng, ek))
    return M.a_list(items)


REL_SRC = ("[bx < by, bx <= by, bx > by, bx >= by, bx == by, bx != by, compare(bx, by), min(bx, by), max(bx, by)]")


def rel_event(cx, a, b):
    im = cx.im
    x, y = M.build(a, im.refs), M.build(b, im.refs)
    im.put("bx", x)
    im.put("by", y)
    o = im.run(REL_SRC)
    cx.n_eval += 1
    if o[0] != "val":
        cx.vio(f"rel:{lit_key(a)} ~ {lit_key(b)} !{o[1]}", f"{'host-exception' if o[0] == 'host' else 'error'}: "
               f"comparing {lit_key(a)} with {lit_key(b)} failed: {o[1:]}", {"kind": "pair", "a": a, "b": b})
        return None
    c = o[1].value
    cmpv = c[6].value
    which = []
    for res in (c[7], c[8]):
        which.append(1 if res is x else (2 if res is y else 0))
    return {"op": "rel", "a": a, "b": b, "lt": c[0].value, "le": c[1].value, "gt": c[2].value, "ge": c[3].value,
            "eq": c[4].value, "ne": c[5].value, "cmp": sign(cmpv) if isinstance(cmpv, int) else 99,
            "mn": which[0], "mx": which[1], "hq": hash(x) == hash(y), "px": [], "ord": True}


def tri_event(cx, a, b, c):
    im = cx.im
    x, y, z = (M.build(t, im.refs) for t in (a, b, c))
    o = M.host(lambda: (x == y, y == z, x == z, x < y, y < z, x < z, y < x))
    cx.n_eval += 1
    if o[0] == "host":
        return None
    r = [bool(t) for t in o[1]]
    return {"op": "tri", "a": a, "b": b, "c": c, "eab": r[0], "ebc": r[1], "eac": r[2], "ab": r[3], "bc": r[4],
            "ac": r[5], "ba": r[6], "ord": True}


def sort_event(cx, rng):
    im = cx.im
    m = rng.choice(["id", "id", "idrev", "key", "key", "keyrev", "id3", "idsub"])
    n = rng.randint(0, 7)
    if m in ("id", "idrev", "id3", "idsub"):
        kind = "int" if m == "idsub" else rng.choice(KINDS_B)
        base = [gen_kind(rng, kind) for _ in range(rng.randint(1, 4))]
        inp = [rng.choice(base) if rng.random() < 0.6 else near(rng, rng.choice(base), kind) for _ in range(n)]
        if m == "idsub":        # a - b must be an int: ints only
            inp = [x if x["k"] == "int" else rng.choice(base) for x in inp]
    else:
        kind = rng.choice(["num", "str", "bool", "date", "list-num"])
        base = [gen_kind(rng, kind) for _ in range(rng.randint(1, 3))]
        inp = [M.a_list([M.equal_variant(rng, rng.choice(base)), M.a_str(chr(97 + t))]) for t in range(n)]
    objs = [M.build(e, im.refs) for e in inp]
    lst = V.ValueList()
    for ob in objs:
        lst.addItem(ob)
    im.put("sl", lst)
    src = {"id": "sorted(sl)", "idrev": "sorted(sl, cmp = fn(a, b) compare(b, a))",
           "id3": "sorted(sl, cmp = fn(a, b) 3 * compare(a, b))", "idsub": "sorted(sl, cmp = fn(a, b) a - b)",
           "key": "sorted(sl, key = fn(x) x[0])",
           "keyrev": "sorted(sl, key = fn(x) x[0], cmp = fn(a, b) compare(b, a))"}[m]
    o = im.run(src)
    cx.n_eval += 1
    desc = src.replace("sl", M.literal(M.a_list(inp)), 1)
    if o[0] != "val":
        cx.vio("sorted:" + desc + " !" + str(o[1]), f"{'host-exception' if o[0] == 'host' else 'error'}: {desc} "
                                                    f"failed: {o[1:]}", {"kind": "prog", "src": desc})
        return None, desc
    res = o[1].value
    # out[k] is inp[p[k]]: read off the element identities (a value object that
    # occurs several times, like TRUE, is matched to its earliest unused place)
    used = [False] * len(objs)
    p = []
    for r in res:
        hit = 0
        for k, ob in enumerate(objs):
            if ob is r and not used[k]:
                used[k] = True
                hit = k + 1
                break
        p.append(hit)
    try:
        out = [inp[k - 1] if k else M.to_abs(r, im.refs, True) for k, r in zip(p, res)]
    except M.Unencodable:
        out = []
    return {"op": "sort", "m": m, "inp": inp, "out": out, "p": p}, desc


def enum_event(cx, rng):
    im = cx.im
    kind = rng.choice(KINDS_B)
    items, seen = [], set()
    for _ in range(rng.randint(0, 5)):
        x = gen_kind(rng, kind) if not items or rng.random() < 0.5 else near(rng, rng.choice(items), kind)
        c = M.canon(x)
        if c not in seen:
            seen.add(c)
            items.append(x)
    if rng.random() < 0.5:
        a = M.a_set(items)
    else:
        a = M.a_map(items, [gen_kind(rng, rng.choice(["num", "str", "list-num"])) for _ in items])
    src, what, full = rng.choice(enum_sites(a))
    im.put("ev", M.build(a, im.refs))
    o = im.run(src)
    cx.n_eval += 1
    desc = src + " with ev = " + lit_key(a)
    if o[0] != "val":
        cx.vio("enum:" + desc + " !" + str(o[1]), f"{'host-exception' if o[0] == 'host' else 'error'}: {desc} "
                                                  f"failed: {o[1:]}", {"kind": "enum", "v": a, "src": src})
        return None, desc
    try:
        order = [M.to_abs(x, im.refs, True) for x in o[1].value]
    except M.Unencodable:
        return None, desc
    return {"op": "enum", "v": a, "order": order, "what": what, "full": full}, desc


def minmax_event(cx, rng):
    """min / max over a random list of one kind (with duplicate and equal-but-distinct keys), plain
    and with a key; the two-argument form with a key as a list of two"""
    im = cx.im
    m = rng.choice(["min", "max"])
    form = rng.choice(["list", "list", "listkey", "pairkey"])
    n = 2 if form == "pairkey" else rng.randint(1, 7)
    if form == "list":
        kind = rng.choice(KINDS_B)
        base = [gen_kind(rng, kind) for _ in range(rng.randint(1, 4))]
        inp = [rng.choice(base) if rng.random() < 0.5 else near(rng, rng.choice(base), kind) for _ in range(n)]
    else:
        kind = rng.choice(["num", "str", "bool", "date", "list-num"])
        base = [gen_kind(rng, kind) for _ in range(rng.randint(1, 3))]
        inp = [M.a_list([near(rng, rng.choice(base), kind), M.a_str(chr(97 + t))]) for t in range(n)]
    objs = [M.build(e, im.refs) for e in inp]
    lst = V.ValueList()
    for ob in objs:
        lst.addItem(ob)
    im.put("sl", lst)
    src = {"list": f"{m}(sl)", "listkey": f"{m}(sl, key = fn(x) x[0])",
           "pairkey": f"{m}(sl[0], sl[1], key = fn(x) x[0])"}[form]
    o = im.run(src)
    cx.n_eval += 1
    desc = src + " with sl = " + M.literal(M.a_list(inp))
    if o[0] != "val":
        cx.vio("minmax:" + desc + " !" + str(o[1]), f"{'host-exception' if o[0] == 'host' else 'error'}: {desc} "
                                                    f"failed: {o[1:]}", {"kind": "prog", "src": desc})
        return None, desc
    return {"op": "minmax", "m": m, "key": form != "list", "inp": inp, "which": which_of(objs, o[1])}, desc


def binding_b(cx, rng, npairs, nsorts, nenums, nminmax=0):
    events, meta = [], []
    for _ in range(npairs):
        kind = rng.choice(KINDS_B)
        a = gen_kind(rng, kind)
        b = near(rng, a, kind)
        e = rel_event(cx, a, b)
        if e:
            events.append(e)
            meta.append(f"{lit_key(a)} ~ {lit_key(b)}")
        if rng.random() < 0.5:
            c = near(rng, rng.choice([a, b]), kind)
            e = tri_event(cx, a, b, c)
            if e:
                events.append(e)
                meta.append(f"{lit_key(a)} ~ {lit_key(b)} ~ {lit_key(c)}")
    for _ in range(nsorts):
        e, desc = sort_event(cx, rng)
        if e:
            events.append(e)
            meta.append(desc)
    for _ in range(nenums):
        e, desc = enum_event(cx, rng)
        if e:
            events.append(e)
            meta.append(desc)
    for _ in range(nminmax):
        e, desc = minmax_event(cx, rng)
        if e:
            events.append(e)
            meta.append(desc)
    bad = M.validate(cx.run, events, "Val_Trace validation of recorded comparisons, sorts and enumerations")
    for k, why in bad:
        if why.startswith("wf"):
            raise MachineryError(f"harness sent an ill-formed value: {meta[k]}")
        cx.vio(f"trace:{meta[k]} @{why}", f"{why}: recorded observation {meta[k]} rejected by Val_Trace at "
                                          f"clause {why}: {_brief(events[k])}",
               {"kind": "trace", "events": [events[k]], "meta": [meta[k]]})
    return events


def _brief(e):
    return {k: v for k, v in e.items() if isinstance(v, (bool, int, str)) or k == "p"}


def run(run):
    quick = run.tier == "quick"
    rng = random.Random(run.seed)
    cx = Ctx(run)
    res_u, res_s = M.tlc_parallel([
        ("ValLaws", "ValLaws_c07_quick" if quick else "ValLaws_c07_thorough", dict(coverage=False, timeout=3000)),
        ("ValSort", "ValSort_quick" if quick else "ValSort_thorough", dict(coverage=False, timeout=3000, workers=8, heap="4g"))])
    # how often each action was taken, as the actions themselves report it (ValSort Act)
    acts = {}
    for a in res_s.records("ACT"):
        acts[a] = acts.get(a, 0) + 1
    res_s.coverage = acts
    u = M.load_universe(run, None, "ValLaws: order laws over the universe", res_u)
    run.add_tlc(res_s, "ValSort: the insertion sort of `sorted`")
    n = u["n"]
    A, L = build_universe(cx, u)
    groups = {}
    for i in range(1, n + 1):
        if u["v"][i]["k"] != "ref":
            groups.setdefault(rank(u["v"][i]), []).append(i)
    for r, g in groups.items():
        lst = V.ValueList()
        for j in g:
            lst.addItem(L[j])
        cx.im.put("G%d" % r, lst)
    obs = {}
    npairs = nstated = 0
    for r, g in groups.items():
        for i in g:
            for j in g:
                check_pair(cx, u, A, L, i, j, obs)
                npairs += 1
                nstated += u["st"][i][j]
            check_row_prog(cx, u, A, L, i, g, "G%d" % r)
    ntri = check_transitivity(cx, u, groups, obs)
    i0 = groups[3][1]
    j0 = groups[3][2]
    run.sample({"PAIR": {"a": M.literal(u["v"][i0]), "b": M.literal(u["v"][j0]), "Less": u["lt"][i0][j0]}})

    # the sorting machine's runs
    seen = set()
    nsort = 0
    for s in res_s.records("SORT"):
        key = (s["m"], str(s["inp"]))
        if key in seen:
            continue
        seen.add(key)
        inp = [sort_elem(s["m"], e) for e in s["inp"]]
        out = [sort_elem(s["m"], e) for e in s["out"]]
        check_sort_case(cx, s["m"], inp, out)
        nsort += 1
        if nsort == 700:
            run.sample({"SORT": {"call": SORT_CALL[s["m"]] % M.literal(M.a_list(inp)),
                                 "result": M.literal(M.a_list(out))}})
    if nsort == 0:
        raise MachineryError("ValSort exported no cases")
    # the scanning machine's runs (min / max over a list, plain and with a key)
    nscan = 0
    for s in res_s.records("MINMAX"):
        key = (s["m"], str(s["inp"]))
        if key in seen:
            continue
        seen.add(key)
        check_minmax_case(cx, s["m"], [sort_elem(s["m"], e) for e in s["inp"]], s["which"], s["ok"])
        nscan += 1
    if nscan == 0:
        raise MachineryError("ValSort exported no min / max cases")
    ntriple = check_triples(cx, u, L, groups, rng, 1500 if quick else 20000)

    # enumeration order of every set and map whose order the statement names
    nenum = 0
    for i in range(1, n + 1):
        a = u["v"][i]
        if a["k"] in ("set", "map") and u["os"][i]:
            check_enum(cx, a, u["srt"][i], A[i], "constructor-built")
            check_enum(cx, a, u["srt"][i], L[i], "literal-built")
            nenum += 1

    events = binding_b(cx, rng, 1500 if quick else 30000, 700 if quick else 15000, 500 if quick else 8000,
                       400 if quick else 8000)
    run.sample({"TRACE": [{k: (M.literal(v) if isinstance(v, dict) else
                               [M.literal(x) for x in v] if k in ("inp", "out", "order") else v)
                           for k, v in e.items()} for e in events[:2] + events[-2:]]})
    nev = len(events)
    run.cov["traces_validated_against_impl"] = npairs + nsort + nscan + ntriple + nenum + nev
    run.cov["evaluations"] = cx.n_eval + cx.im.n
    run.cov["distinct_nontrivial"] = npairs + nsort + nscan + ntriple + nenum + nev
    run.cov["rule"] = ("binding A: one case per ordered same-kind pair of the ValLaws universe (API and program), "
                       "one per distinct run of the ValSort machines (insertion sort; min / max scan), one per "
                       "three-element list drawn from the universe (min / max), one per set / map whose "
                       "enumeration order the statement names (every enumeration site of the language); "
                       "binding B: one per recorded event accepted by Val_Trace")
    run.cov["exhaustive"] = True
    run.cov["universe"] = n
    run.cov["same_kind_pairs"] = npairs
    run.cov["pairs_with_named_order"] = nstated
    run.cov["triples_checked_on_observed_relation"] = ntri
    run.cov["bounds"] = {"universe": n, "sort_runs": nsort, "min_max_runs": nscan, "min_max_triples": ntriple,
                         "enumerations": nenum, "trace_events": nev}
    run.cov["enumeration_sites"] = {"set": len(enum_sites(M.a_set([M.a_int(1), M.a_int(2), M.a_int(3)]))),
                                    "map": len(enum_sites(M.a_map([M.a_int(1)], [M.a_int(1)])))}
    run.assumptions += [
        "only pairs of one kind are compared (ints and decimals are one kind); the order across kinds is not "
        "part of the property",
        "for NULL, patterns, sets and maps the statement names no order: the laws (exactly one of <, ==, >; "
        "asymmetric; transitive; <=, >=, compare consistent) are demanded of the implementation's answers, "
        "the direction is not compared",
        "lists are compared where the first differing position holds values whose order the statement names",
        "streams / functions (kind ref) are outside the property's quantifier and not compared",
        "sorted is exercised on lists of one kind; cmp arguments: compare, its reverse, 3 * compare(a, b) and "
        "a difference of ints (a cmp must return an int)",
        "which of several equal extremes min / max return is not named by the statement (the first, as the "
        "scan of core.ckl does, is the model; another one is drift)",
        "dates carry microseconds; `chronological` is judged to the microsecond",
    ]


def replay(run, case):
    cx = Ctx(run)
    k = case["kind"]
    if k in ("pair", "triple"):
        vals = [case["a"], case["b"]] + ([case["c"]] if k == "triple" else [])
        events = []
        for x in vals:
            for y in vals:
                e = rel_event(cx, x, y)
                if e:
                    events.append(e)
        if k == "triple":
            e = tri_event(cx, *vals)
            if e:
                events.append(e)
        for kk, why in M.validate(run, events, "replay"):
            e = events[kk]
            run.violation(f"replay:{lit_key(e['a'])} ~ {lit_key(e['b'])} @{why}",
                          f"{why}: rejected by Val_Trace: {_brief(e)}", case)
    elif k == "sort":
        check_sort_case(cx, case["m"], case["inp"], case["out"])
    elif k == "enum":
        a = case["v"]
        built = M.build(a, cx.im.refs)
        cx.im.put("ev", built)
        sites = [t for t in enum_sites(a) if t[0] == case.get("src")] or enum_sites(a)
        evs, names = [], []
        for src, what, full in sites:
            o = cx.im.run(src)
            if o[0] == "val":
                evs.append({"op": "enum", "v": a, "order": [M.to_abs(x, cx.im.refs, True) for x in o[1].value],
                            "what": what, "full": full})
                names.append(src)
            else:
                run.violation(f"replay-enum:{lit_key(a)}:{src}", f"error: {o[1:]}", case)
        for kk, why in M.validate(run, evs, "replay"):
            run.violation(f"replay-enum:{lit_key(a)}:{names[kk]} @{why}", f"{why}: rejected by Val_Trace", case)
    elif k == "minmax":
        inp = case["inp"]
        objs = [M.build(e, cx.im.refs) for e in inp]
        lst = V.ValueList()
        for ob in objs:
            lst.addItem(ob)
        cx.im.put("sl", lst)
        evs, names = [], []
        for m in ("min", "max"):
            for key in ((False, True) if all(e["k"] == "list" and e["items"] for e in inp) else (False,)):
                src = f"{m}(sl, key = fn(x) x[0])" if key else f"{m}(sl)"
                o = cx.im.run(src)
                if o[0] == "val":
                    evs.append({"op": "minmax", "m": m, "key": key, "inp": inp, "which": which_of(objs, o[1])})
                    names.append(src)
                else:
                    run.violation(f"replay-minmax:{src}", f"error: {o[1:]}", case)
        for kk, why in M.validate(run, evs, "replay"):
            run.violation(f"replay-minmax:{names[kk]} on {M.literal(M.a_list(inp))} @{why}",
                          f"{why}: rejected by Val_Trace", case)
    elif k == "trace":
        for kk, why in M.validate(run, case["events"], "replay"):
            run.violation(f"replay-trace:{case['meta'][kk]} @{why}", f"{why}: rejected by Val_Trace", case)
    elif k == "prog":
        o = cx.im.run(case["src"])
        if o[0] != "val":
            run.violation("replay:" + case["src"], f"error: {o[1:]}", case)
