"""C02 - operators evaluate per the language definition; int arithmetic is exact.

Specs: spec/ExprOps.tla (mirror of the precedence-climbing parse functions,
the reference precedence table, the evaluation rules), spec/Expr.tla (driver:
all operator pairs / unary combinations / chains over operand triples, laws as
invariants), spec/Arith_Trace.tla (+ BigInt.tla: exactness at any magnitude),
spec/Pred_Trace.tla (`is not` = negation of `is`).

Binding A: every expression TLC generated is rendered to source; the tree the
real parser builds must be the tree of the reference precedence table and the
value / runtime-error-ness the interpreter delivers must be the one the model
evaluates.  Binding B: big-integer arithmetic events and predicate events are
recorded from the interpreter and validated by TLC.
"""
import json
import os
import random
import tempfile

from .common import import_ckl, MachineryError
from .tla import run_tlc
from . import absval

import_ckl()
from ckl.interpreter import Interpreter  # noqa: E402
from ckl.parser import parse_script  # noqa: E402


# ------------------------------------------------------------ rendering
def val_text(v, paren_negative=True):
    k = v["k"]
    if k == "null":
        return "NULL"
    if k == "bool":
        return "TRUE" if v["n"] == 1 else "FALSE"
    if k == "int":
        t = str(v["n"])
    elif k == "dec":
        t = repr(v["n"] / v["d"])
    elif k == "str":
        return "'" + "".join(chr(c) for c in v["s"]) + "'"
    elif k == "list":
        return "[" + ", ".join(str(x) for x in v["s"]) + "]"
    else:
        raise ValueError(k)
    if paren_negative and t.startswith("-"):
        return "(" + t + ")"
    return t


def render(toks):
    out = []
    for t in toks:
        if t["t"] == "val":
            out.append(val_text(t["v"]))
        elif t["t"] == "op":
            out.append(t["o"])
        elif t["t"] == "lp":
            out.append("(")
        else:
            out.append(")")
    return " ".join(out)


def tree_text(t):
    """the text form of the node tree as nodes.py prints it"""
    op = t["op"]
    if op == "lit":
        return val_text(t["v"], paren_negative=False)
    args = [tree_text(a) for a in t["args"]]
    if op in ("and", "or"):
        return "(" + f" {op} ".join(args) + ")"
    if op == "not":
        return f"(not {args[0]})"
    if op == "in":
        return f"({args[0]} in {args[1]})"
    return f"({op} {', '.join(args)})"


def val_py(v):
    k = v["k"]
    if k == "null":
        return None
    if k == "bool":
        return v["n"] == 1
    if k == "int":
        return v["n"]
    if k == "dec":
        return ("dec", v["n"] / v["d"])
    if k == "str":
        return ("str", "".join(chr(c) for c in v["s"]))
    if k == "list":
        return ("list", tuple(v["s"]))
    return (k,)


def same(want, got):
    if isinstance(want, tuple) and want and want[0] == "dec":
        if not (isinstance(got, tuple) and got and got[0] == "dec"):
            return False
        a, b = want[1], got[1]
        return a == b or abs(a - b) <= 1e-9 * max(abs(a), abs(b))
    return type(want) is type(got) and absval.strict_eq(want, got)      # (True == 1 in Python, also inside tuples)


def check_expr(run, it, rec):
    text = render(rec["toks"])
    case = {"kind": "expr", "rec": rec}
    # 1. the tree
    po = absval.outcome(lambda: parse_script(text, "c02"))
    if po[0] != "val":
        run.violation("parse:" + text, f"parse: {text!r} does not parse: {po[0]} {po[1]}", case)
        return
    want_tree = tree_text(rec["tree"])
    got_tree = repr(po[1])
    if got_tree != want_tree:
        run.violation("tree:" + text,
                      f"precedence: {text!r} parsed as {got_tree}, the precedence table gives {want_tree}", case)
        return
    # 2. the value
    want = rec["val"]
    if want["k"] == "skip":
        run.drift_skip = getattr(run, "drift_skip", 0) + 1
        return
    o = absval.outcome(lambda: it.interpret(text, "c02"))
    if o[0] == "host":
        run.violation("host:" + text, f"host-exception: {o[1]} ({o[2]}) evaluating {text!r}", case)
        return
    if want["k"] == "err":
        if o[0] != "err":
            run.violation("value:" + text, f"value: {text!r} should be a runtime error, got {o[0]} {absval.to_py(o[1]) if o[0] == 'val' else ''}", case)
        return
    if o[0] != "val":
        run.violation("value:" + text, f"value: {text!r} should be {val_py(want)!r}, got {o[0]}: {o[2].msg if o[0] == 'err' else o[1]}", case)
        return
    got = absval.to_py(o[1])
    if not same(val_py(want), got):
        run.violation("value:" + text, f"value: {text!r} should be {val_py(want)!r}, got {got!r}", case)


# ------------------------------------------------------------ big ints
def limbs(n):
    sg = (n > 0) - (n < 0)
    m = abs(n)
    mag = []
    while m:
        mag.append(m % 10000)
        m //= 10000
    return {"sg": sg, "mag": mag}


def big_operands(rng, n):
    base = [0, 1, -1, 2, 3, 7, 10, 2**31, 2**31 - 1, 2**53, 2**53 + 1, 2**63 - 1, 2**63, 2**63 + 1,
            2**64, 10**20, 2**80 + 3, 9007199254740993, 10**20 + 1, 3 * 10**19]
    base += [-x for x in base if x > 1]
    pool = list(base)
    for _ in range(n):
        bits = rng.choice([20, 40, 62, 64, 70, 100, 130])
        pool.append(rng.getrandbits(bits) * rng.choice([1, -1]))
    return base, pool


def arith_events(run, rng, nrandom):
    it = Interpreter(True, False)
    base, pool = big_operands(rng, 60)
    pairs = [(a, b) for a in base for b in base[:14]]
    for _ in range(nrandom):
        pairs.append((rng.choice(pool), rng.choice(pool)))
    events, meta = [], []
    for a, b in pairs:
        for op in "+-*/%":
            src = f"({a}) {op} ({b})"
            o = absval.outcome(lambda: it.interpret(src, "c02"))
            if o[0] == "host":
                run.violation("host:" + src, f"host-exception: {o[1]} ({o[2]}) evaluating {src}",
                              {"kind": "arith", "src": src})
                continue
            e = {"op": op, "a": limbs(a), "b": limbs(b), "ok": False, "r": limbs(0), "rb": False}
            if o[0] == "val":
                p = absval.to_py(o[1])
                if isinstance(p, int) and not isinstance(p, bool):
                    e["ok"] = True
                    e["r"] = limbs(p)
                else:
                    run.violation("kind:" + src, f"int-kind: {src} of two ints gave {p!r}, not an int",
                                  {"kind": "arith", "src": src})
                    continue
            events.append(e)
            meta.append(src)
        # comparisons: neighbours of a (a, a + 1, a - 1) make the float image collide beyond 2^53
        for b2 in (b, a, a + 1, a - 1):
            for op in ("<", "<=", ">", ">=", "==", "!="):
                src = f"({a}) {op} ({b2})"
                o = absval.outcome(lambda: it.interpret(src, "c02"))
                if o[0] == "host":
                    run.violation("host:" + src, f"host-exception: {o[1]} ({o[2]}) evaluating {src}",
                                  {"kind": "arith", "src": src})
                    continue
                e = {"op": op, "a": limbs(a), "b": limbs(b2), "ok": False, "r": limbs(0), "rb": False}
                if o[0] == "val":
                    pv = absval.to_py(o[1])
                    if isinstance(pv, bool):
                        e["ok"] = True
                        e["rb"] = pv
                events.append(e)
                meta.append(src)
    return events, meta


def validate(run, spec, events, meta, label, what):
    d = tempfile.mkdtemp(prefix="c02-")
    path = os.path.join(d, "trace.ndjson")
    try:
        with open(path, "w") as f:
            for e in events:
                f.write(json.dumps(e) + "\n")
        res = run_tlc(spec, workers=1, env={"TRACE_FILE": path}, timeout=3000)
    finally:
        try:
            os.remove(path)
            os.rmdir(d)
        except OSError:
            pass
    run.add_tlc(res, label)
    done = res.records("DONE")
    if not done or done[-1]["n"] != len(events):
        raise MachineryError(f"{spec}: trace not consumed completely")
    for b in res.records("BAD"):
        k = b["l"] - 1
        run.violation(f"{what}:{meta[k]}", f"{what}: {meta[k]} -> {json.dumps(events[k])[:200]} rejected by {spec}"
                      + (f" ({b['why']})" if "why" in b else ""),
                      {"kind": what, "src": meta[k], "event": events[k]})


# ------------------------------------------------------------ predicates
WORDS = ["empty", "zero", "negative", "numerical", "alphanumerical", "date", "time",
         "string", "int", "decimal", "boolean", "pattern", "None", "func", "input", "output",
         "list", "set", "map", "object", "node", "in [1, 'a']", "in 'abc'", "in <<1>>",
         "numerical min_len 2", "alphanumerical max_len 2 ", "date with hour"]
PVALUES = ["'abc'", "''", "'20200101'", "'1230'", "'2020010112'", "'12'", "5", "0", "(-3)", "1.5", "0.0", "TRUE", "FALSE",
           "NULL", "[1]", "[]", "<<1>>", "<<>>", "<<<1 => 2>>>", "<<<>>>", "<*a = 1*>", "<**>", "fn(x) x",
           "//a//", "date('20200101')", "stdout", "stdin", "length", "1", "'a'"]


def pred_events(run):
    it = Interpreter(True, False)
    events, meta = [], []

    def cls(src):
        o = absval.outcome(lambda: it.interpret(src, "c02"))
        if o[0] == "val":
            p = absval.to_py(o[1])
            if p is True:
                return "T"
            if p is False:
                return "F"
            return "V"
        if o[0] == "err":
            return "E"
        return "H:" + o[1]

    for v in PVALUES:
        ko = absval.outcome(lambda: it.interpret(f"type({v})", "c02"))
        kind = ko[1].value if ko[0] == "val" else "?"
        for w in WORDS:
            pos = cls(f"({v}) is {w}")
            neg = cls(f"({v}) is not {w}")
            for form, r in (("is", pos), ("is not", neg)):
                if r.startswith("H:"):
                    run.violation(f"host:{v} {form} {w}", f"host-exception: {r[2:]} evaluating {v} {form} {w}",
                                  {"kind": "pred", "value": v, "word": w})
            if pos.startswith("H:") or neg.startswith("H:"):
                continue
            events.append({"word": w.split(" ")[0] if not w.startswith("in ") else "in", "kind": kind, "pos": pos, "neg": neg})
            meta.append(f"{v} is [not] {w}")
    return events, meta


# an expression is evaluated as often as the program reaches it: a comparison chain (and / or, membership) inside a
# function, a loop or a comprehension gives, for every evaluation, the conjunction of ITS adjacent pairs - whatever
# an earlier evaluation of the same expression did (stopped at its first pair, or ran to the end)
REL = {"<": lambda a, b: a < b, "<=": lambda a, b: a <= b, ">": lambda a, b: a > b, ">=": lambda a, b: a >= b,
       "==": lambda a, b: a == b, "!=": lambda a, b: a != b}
TRIPLES = [(5, 1, 9), (2, 3, 4), (1, 1, 1), (4, 3, 2), (2, 3, 3), (1, 2, 0), (2 ** 64 + 1, 2 ** 64, 7), (0, 2 ** 64, 2 ** 64 + 1)]


def repeated_chains(run):
    it = Interpreter(True, False)
    n = 0
    ops = sorted(REL)
    for o1 in ops:
        for o2 in ops:
            want = [REL[o1](a, b) and REL[o2](b, c) for a, b, c in TRIPLES]
            want4 = [REL[o1](a, b) and REL[o2](b, c) and REL[o1](c, a) for a, b, c in TRIPLES]
            args = ", ".join(f"[{a}, {b}, {c}]" for a, b, c in TRIPLES)
            progs = [(f"def f(a, b, c) a {o1} b {o2} c; [f(t[0], t[1], t[2]) for t in [{args}]]", want),
                     (f"def r = []; for t in [{args}] do append(r, t[0] {o1} t[1] {o2} t[2]) end; r", want),
                     (f"[t[0] {o1} t[1] {o2} t[2] {o1} t[0] for t in [{args}]]", want4),
                     (f"def r = []; def i = 0; def ts = [{args}]; while i < length(ts) do def t = ts[i]; "
                      f"append(r, t[0] {o1} t[1] {o2} t[2]); i += 1 end; r", want)]
            for src, w in progs:
                n += 1
                try:
                    got = it.interpret(src, "c02")
                    got_py = [bool(x.value) for x in got.value] if got.isList() else None
                except Exception as e:  # noqa: BLE001
                    got_py = f"{type(e).__name__}: {e}"[:80]
                if got_py != w:
                    run.violation("repeated-chain:" + src[:60] + f"|{o1}|{o2}",
                                  f"chain-not-conjunction: {src!r} gives {got_py}, the conjunctions of the adjacent pairs are {w}",
                                  {"kind": "repeated-chain"})
    return n


def run(run):
    quick = run.tier == "quick"
    rng = random.Random(run.seed)
    res = run_tlc("ExprMC", "Expr_quick" if quick else "Expr_thorough", timeout=3000)
    run.add_tlc(res, "Expr driver")
    recs = {}
    for r in res.records("EXPR"):
        recs.setdefault(render(r["toks"]), r)
    if not recs:
        raise MachineryError("no expressions exported")
    it = Interpreter(True, False)
    for text, r in recs.items():
        check_expr(run, it, r)
    k = list(recs)[len(recs) // 3]
    run.sample({"text": k, "tree": tree_text(recs[k]["tree"]), "value": recs[k]["val"]})
    ev, meta = arith_events(run, rng, 1500 if quick else 40000)
    validate(run, "Arith_Trace", ev, meta, "Arith_Trace (big-int events)", "exact-arithmetic")
    run.sample({"arith_event": ev[len(ev) // 2], "src": meta[len(ev) // 2]})
    pev, pmeta = pred_events(run)
    validate(run, "Pred_Trace", pev, pmeta, "Pred_Trace (is / is not)", "is-not-negation")
    run.sample({"pred_event": pev[7], "src": pmeta[7]})
    run.cov["traces_validated_against_impl"] = len(recs) + len(ev) + len(pev)
    nrep = repeated_chains(run)
    run.cov["evaluations"] = 2 * len(recs) + len(ev) + 2 * len(pev) + nrep
    run.cov["distinct_nontrivial"] = len(recs) + len(ev) + len(pev)
    run.cov["rule"] = ("distinct expression texts generated by Expr.tla (tree and value compared), distinct "
                       "big-int (a, op, b) events and distinct (value, predicate word) pairs validated by TLC")
    run.cov["unmodelled_value_cases"] = getattr(run, "drift_skip", 0)
    run.cov["exhaustive"] = True
    run.assumptions += [
        "decimal results are compared with relative tolerance 1e-9 (no claim about float rounding)",
        "operand combinations the model marks `skip` (decimal text in string concatenation, order between "
        "different kinds, decimal modulus) are checked for tree shape only",
        "`x is date` resolves to the date-validity predicate (the type word is unreachable); no type expectation for it",
    ]


def replay(run, case):
    k = case["kind"]
    if k == "repeated-chain":
        repeated_chains(run)
        return
    if k == "expr":
        check_expr(run, Interpreter(True, False), case["rec"])
    elif k in ("exact-arithmetic",):
        validate(run, "Arith_Trace", [case["event"]], [case["src"]], "replay", "exact-arithmetic")
    elif k in ("is-not-negation",):
        validate(run, "Pred_Trace", [case["event"]], [case["src"]], "replay", "is-not-negation")
    else:
        it = Interpreter(True, False)
        src = case.get("src") or f"{case['value']} is {case['word']}"
        o = absval.outcome(lambda: it.interpret(src, "c02"))
        if o[0] == "host":
            run.violation("host:" + src, f"host-exception: {o[1]}", case)
