"""C17 - dates and day numbers convert one-to-one, date arithmetic is calendar-correct.

Spec: spec/DateOps.tla (leap rule, month table, table-free closed forms
DayNumber / FromDayNumber), spec/Date.tla (the calendar machine: day walk,
month walk, year walk with the closed-form, round-trip, leap/month sanity and
arithmetic-law invariants), spec/DateArith.tla (calendar-stepping machine for
"d + k is k calendar days away"), spec/Date_Trace.tla (trace validation).

Binding A: TLC exports one MONTH record (y, m, n_first, len) per month of
1900..9999 (month walk, every day of the month checked by the WholeMonth
invariant; day walk on the quick year ranges / on the whole range in the
thorough tier) and the ARITH cases of the stepping machine.  The harness
derives the predicted day number of every day from those records and calls
the real code: ckl.date.to_oa_date / to_date directly and, through the
interpreter, int(date), decimal(date), date(number), date + k, date - k,
date - date, (d + k) - k == d, (d + k) - d == k.
Binding B: random walks of one date value through those operations are
recorded from the interpreter and validated by TLC against Date_Trace.tla.
"""
import bisect
import datetime
import json
import multiprocessing
import os
import random
import tempfile
import time
from fractions import Fraction

from .common import import_ckl, MachineryError
from .tla import run_tlc
from . import absval

import_ckl()
from ckl.interpreter import Interpreter  # noqa: E402
from ckl import date as ckldate  # noqa: E402

FIRST, LAST = 2, 2958465            # day numbers of 1900-01-01 and 9999-12-31
TOL = Fraction(1, 10 ** 9)          # decimals: within 1e-9 days
STRIDES = [1, 2, 7, 28, 29, 30, 31, 59, 60, 365, 366, 730, 1461, 36524, 36525, 146097]
NPROC = min(16, os.cpu_count() or 1)
# the code under test loops over the years since 1900 in every conversion (about
# 1 ms each in year 9999), so the costly forms are run on a share of the random days
RANDOM_DAY_MODES = ["lean"] * 7 + ["light"] * 2 + ["full"]


def tlc(*a, **kw):
    """run_tlc, once more when the JVM was killed or timed out (not on a spec error)"""
    try:
        return run_tlc(*a, **kw)
    except MachineryError as e:
        if "tlc exit" not in str(e):
            raise
        return run_tlc(*a, **kw)


# ------------------------------------------------------------------ calendar table
class Table:
    """The month records TLC exported: predicted day number of every day."""

    def __init__(self, months):
        self.first = {}             # (y, m) -> (n_first, len)
        for r in months:
            self.first[(r["y"], r["m"])] = (r["n"], r["len"])
        self.rows = sorted((n, y, m, ln) for (y, m), (n, ln) in self.first.items())
        self.starts = [r[0] for r in self.rows]

    def num(self, y, m, d):
        n, ln = self.first[(y, m)]
        assert 1 <= d <= ln
        return n + d - 1

    def date(self, n):
        i = bisect.bisect_right(self.starts, n) - 1
        n0, y, m, ln = self.rows[i]
        assert 0 <= n - n0 < ln, (n, self.rows[i])
        return (y, m, n - n0 + 1)

    def contiguous(self):
        for a, b in zip(self.rows, self.rows[1:]):
            if a[0] + a[3] != b[0]:
                return False
        return True


def hms(s):
    return (s // 3600, s // 60 % 60, s % 60)


def lit(ymd, s=None):
    y, m, d = ymd
    if s is None:
        return "date('%04d%02d%02d')" % (y, m, d)
    return "date('%04d%02d%02d%02d%02d%02d')" % ((y, m, d) + hms(s))


def fields(dt):
    """(y, m, d, second of day): what 'the same date to the second' compares."""
    return (dt.year, dt.month, dt.day, dt.hour * 3600 + dt.minute * 60 + dt.second)


def safe(pred, v):
    try:
        return bool(pred(v))
    except Exception:  # noqa: BLE001 - a result of the wrong kind is a mismatch
        return False


def call(fn):
    try:
        return ("val", fn())
    except Exception as e:  # noqa: BLE001 - any exception from a conversion is a finding
        return ("host", type(e).__name__, str(e)[:100])


def py_value(v):
    """Interpreter value -> comparable observation."""
    p = absval.to_py(v)
    if isinstance(p, tuple) and p and p[0] == "date":
        return ("date",) + fields(v.value)
    if isinstance(p, tuple) and p and p[0] == "list":
        return ("list", tuple(py_value(x) for x in v.value))
    return p


def interp(it, src):
    o = absval.outcome(lambda: it.interpret(src, "c17"))
    if o[0] == "val":
        return ("val", py_value(o[1]))
    if o[0] == "err":
        return ("err", str(o[2])[:100])
    if o[0] == "syntax":
        return ("syntax", str(o[1])[:100])
    return ("host", o[1], o[2])


def dec_close(v, n, s):
    """observed decimal v equals n + s/86400 within 1e-9 days"""
    return (isinstance(v, tuple) and len(v) == 2 and v[0] == "dec"
            and abs(Fraction(v[1]) - (n + Fraction(s, 86400))) <= TOL)


# ------------------------------------------------------------------ binding A: one day
def check_day(it, y, m, d, n, s, offs, mode="full"):
    """Conversions for the day (y, m, d) whose predicted day number is n, with
    second-of-day s for the timed forms; offs = [(k, (y2, m2, d2)), ...] are
    offsets with the predicted target date.  mode:
      "midnight" to_oa_date(date) == n exactly and to_date(n)
      "lean"   to_oa_date(date with time) and to_date of the number it gave
      "bound"  lean, to_date(n) at midnight, and one `date +- k` at midnight
               through the interpreter
      "direct" ckl.date.to_oa_date / to_date at midnight and with the time
      "light"  direct, int(date), date(n), `date +- k`, `date - date`
      "full"   every conversion form and every law for each offset
      "arith"  only the laws for each offset
    Returns (violations, count)."""
    out = []
    cnt = 0
    ymd = (y, m, d)

    def direct(fn, arg, want, cmp):
        nonlocal cnt
        cnt += 1
        case = {"kind": "direct", "ymd": list(ymd), "n": n, "s": s}
        if fn == "to_oa_date":
            o = call(lambda: ckldate.to_oa_date(datetime.datetime(*arg)))
            key = "to_oa_date(%s)" % datetime.datetime(*arg).isoformat()
        else:
            o = call(lambda: ckldate.to_date(arg))
            key = "to_date(%r)" % (arg,)
        if o[0] == "host":
            out.append((key, "host-exception: %s (%s), expected %r" % (o[1], o[2], want), case))
        elif not safe(cmp, o[1]):
            shown = o[1].isoformat() if isinstance(o[1], datetime.datetime) else repr(o[1])
            out.append((key, "%s-mismatch: got %s, expected %r" % (fn, shown, want), case))
        return o

    if mode == "midnight":
        direct("to_oa_date", [y, m, d], n, lambda v: v == n)
        direct("to_date", n, ymd + (0,), lambda v: fields(v) == ymd + (0,))
        return out, cnt
    if mode != "arith":
        h, mi, se = hms(s)
        lean = mode in ("lean", "bound")
        # date -> day number
        if not lean:
            direct("to_oa_date", [y, m, d], n, lambda v: v == n)
        ot = direct("to_oa_date", [y, m, d, h, mi, se], "%d+%d/86400" % (n, s),
                    lambda v: abs(Fraction(v) - (n + Fraction(s, 86400))) <= TOL)
        # day number -> date; the number the code itself produced must come back as the same date
        if mode != "lean":
            direct("to_date", n, ymd + (0,), lambda v: fields(v) == ymd + (0,))
        back = ot[1] if ot[0] == "val" and isinstance(ot[1], (int, float)) else n + s / 86400
        direct("to_date", back, ymd + (s,), lambda v: fields(v) == ymd + (s,))
        if mode == "full" and back != n + s / 86400:
            direct("to_date", n + s / 86400, ymd + (s,), lambda v: fields(v) == ymd + (s,))
    if mode in ("direct", "lean"):
        return out, cnt

    # through the interpreter (one program; on any failure the parts are run one by one)
    if mode == "bound":
        s = 0                       # the step across the year end is taken at midnight: date('20201231') + 1
    D0, DT = lit(ymd), lit(ymd, s)
    decs = repr(n + s / 86400)
    parts = []
    if mode == "light":
        parts += [
            ("int(%s)" % D0, "int", n),
            ("date(%d)" % n, "eq", ["date", y, m, d, 0]),
        ]
    elif mode == "full":
        parts += [
            ("int(%s)" % DT, "int", n),
            ("decimal(%s)" % DT, "dec", [n, s]),
            ("date(%d)" % n, "eq", ["date", y, m, d, 0]),
            ("date(%s)" % decs, "eq", ["date", y, m, d, s]),
            ("date(int(%s)) == %s" % (D0, D0), "true", True),
            ("date(decimal(%s)) == %s" % (DT, DT), "true", True),
        ]
    for k, tgt in offs:
        want = ["date"] + list(tgt) + [s]
        T = lit(tuple(tgt), s)
        if k >= 0:
            parts.append(("%s + %d" % (DT, k), "eq", want))
        else:
            parts.append(("%s - %d" % (DT, -k), "eq", want))
        if mode == "bound":
            continue
        parts.append(("%s - %s" % (T, DT), "int", k))
        if mode != "light":
            if k >= 0:
                parts.append(("(%s + %d) - %d == %s" % (DT, k, k, DT), "true", True))
            else:
                parts.append(("(%s - %d) + %d == %s" % (DT, -k, -k, DT), "true", True))
            parts.append(("(%s + (%d)) - %s" % (DT, k, DT), "int", k))
            parts.append(("(%s + (%d)) - %s == %d" % (DT, k, DT, k), "true", True))
    out2, c2 = check_parts(it, parts)
    return out + out2, cnt + c2


def matches(cmp, want, v):
    if cmp == "int":
        return type(v) is int and v == want
    if cmp == "dec":
        return dec_close(v, want[0], want[1])
    if cmp == "true":
        return v is True
    return v == tuple(want)


def check_parts(it, parts):
    """Evaluate the expressions as one program (one by one when that fails)
    and compare each with its expectation."""
    out = []
    if not parts:
        return out, 0
    prog = "[" + ", ".join(p[0] for p in parts) + "]"
    o = interp(it, prog)
    if o[0] == "val" and o[1][0] == "list" and len(o[1][1]) == len(parts):
        obs = [("val", v) for v in o[1][1]]
    else:
        obs = [interp(it, p[0]) for p in parts]
    for (src, cmp, want), ob in zip(parts, obs):
        case = {"kind": "expr", "src": src, "cmp": cmp, "want": want}
        if ob[0] == "host":
            out.append((src, "host-exception: %s (%s), expected %r" % (ob[1], ob[2], want), case))
        elif ob[0] != "val":
            out.append((src, "error: %s %s, expected %r" % (ob[0], ob[1], want), case))
        elif not matches(cmp, want, ob[1]):
            out.append((src, "%s: got %r, expected %r" % (category(src), ob[1], want), case))
    return out, len(parts)


def category(src):
    if "==" in src:
        return "law-false"
    if src.startswith("int("):
        return "int-mismatch"
    if src.startswith("decimal("):
        return "decimal-mismatch"
    if src.startswith("date(") and "+" not in src and " - " not in src:
        return "date-of-number-mismatch"
    if ") - date(" in src or ")) - date(" in src:
        return "date-difference-mismatch"
    return "date-arithmetic-mismatch"


_IT = None
_TAB = None          # the TLC month table, inherited by the forked pool workers


def _worker(chunk):
    """One chunk of jobs -> (violations, evaluations, trace events, trace meta,
    cpu seconds by job kind)."""
    global _IT
    if _IT is None:
        _IT = Interpreter(True, False)
    out = []
    cnt = 0
    events, meta = [], []
    cpu = {}
    for job in chunk:
        t0 = time.process_time()
        kind = job[0] if isinstance(job[0], str) else job[-1]
        cnt += _run_job(job, out, events, meta)
        cpu[kind] = cpu.get(kind, 0.0) + time.process_time() - t0
    return out, cnt, events, meta, cpu


def _run_job(job, out, events, meta):
    cnt = 0
    if job[0] == "month":
        # every day of one month, direct conversions only, seeded times of day
        _tag, y, m, n0, ln, seed = job
        r = random.Random(seed)
        for d in range(1, ln + 1):
            # both conversions at midnight and with a time on the first and last two days of the
            # month, on the other days alternately with a time of day / at midnight
            edge = d <= 2 or d >= ln - 1
            mode = "direct" if edge else ("lean" if (n0 + d) % 2 else "midnight")
            o, c = check_day(None, y, m, d, n0 + d - 1, r.randrange(86400), [], mode)
            out += o
            cnt += c
    elif job[0] == "traces":
        _tag, seed, count = job
        e, mt = record_traces(random.Random(seed), count, _TAB)
        events += e
        meta += mt
    else:
        (y, m, d, n, s, offs, mode) = job
        o, c = check_day(_IT, y, m, d, n, s, offs, mode)
        out += o
        cnt += c
    return cnt


def run_jobs(run, jobs, chunk):
    """-> (evaluations, trace events, trace meta); violations go to run"""
    chunks = [jobs[i:i + chunk] for i in range(0, len(jobs), chunk)]
    if NPROC > 1 and len(chunks) > 1:
        ctx = multiprocessing.get_context("fork")
        with ctx.Pool(NPROC) as pool:
            results = pool.map(_worker, chunks, chunksize=1)
    else:
        results = [_worker(c) for c in chunks]
    total = 0
    events, meta = [], []
    cpu = {}
    for out, cnt, ev, mt, c in results:
        total += cnt
        events += ev
        meta += mt
        for k, v in c.items():
            cpu[k] = cpu.get(k, 0.0) + v
        for key, what, case in out:
            run.violation(key, what, case)
    run.cov["impl_cpu_seconds_by_job_kind"] = {k: round(v, 1) for k, v in sorted(cpu.items())}
    return total, events, meta


def offsets_for(tab, rng, n, how_many, ends=True):
    """offsets from the stride set (both signs) and to both range ends, with
    the target date predicted by the TLC month table"""
    cand = [k for k in STRIDES if n + k <= LAST] + [-k for k in STRIDES if n - k >= FIRST]
    ks = rng.sample(cand, min(how_many, len(cand)))
    if ends:
        ks.append([FIRST - n, LAST - n][rng.randrange(2)])
    return [(k, tab.date(n + k)) for k in ks]


# ------------------------------------------------------------------ binding B
BLANK = {"op": "", "ok": True, "y": 0, "m": 0, "d": 0, "s": 0, "k": 0, "a": 0, "r": 0, "us": 0, "b": False}


def observe(it, e, src):
    """Run src on the interpreter and store what it returned in the event e
    (which already holds op and the inputs).  -> the raw outcome"""
    o = interp(it, src)
    op = e["op"]
    ok = o[0] == "val"
    v = o[1] if ok else None
    if op == "new":
        pass
    elif op in ("add", "sub", "date_int", "date_dec", "roundtrip", "roundtrip_int"):
        if ok and isinstance(v, tuple) and v[0] == "date":
            e["y"], e["m"], e["d"], e["s"] = v[1:5]
        else:
            ok = False
    elif op in ("int", "diff", "minus"):
        if ok and type(v) is int and abs(v) < 2 ** 31:
            e["r"] = v
        else:
            ok = False
    elif op == "dec":
        if ok and isinstance(v, tuple) and v[0] == "dec" and 0 <= v[1] < 2 ** 31:
            x = Fraction(v[1])
            r = x.numerator // x.denominator
            secs = round((x - r) * 86400)
            us = round(((x - r) * 86400 - secs) * 10 ** 6)
            if secs == 86400:
                r, secs = r + 1, 0
            e["r"], e["s"], e["us"] = r, secs, us
        else:
            ok = False
    elif op == "back":
        if ok and isinstance(v, bool):
            e["b"] = v
        else:
            ok = False
    e["ok"] = ok
    return o


def record_traces(rng, ntraces, tab):
    """-> (events, meta); meta[i] = [source text, note] of event i"""
    events, meta = [], []

    def ev(it, src, **kw):
        e = dict(BLANK)
        e.update(kw)
        o = observe(it, e, src)
        events.append(e)
        meta.append([src, "" if e["ok"] else "%r" % (o,)])
        return e

    for _ in range(ntraces):
        it = Interpreter(True, False)
        # start: bias towards year ends, February ends and the range ends
        mode = rng.random()
        if mode < 0.35:
            yy = rng.randint(1900, 9999)
            n = tab.num(yy, 1, 1) + rng.choice([-2, -1, 0, 1, 58, 59, 60])
        elif mode < 0.45:
            n = rng.choice([FIRST, FIRST + 1, LAST - 1, LAST, 25568, 25569, 25570])
        else:
            n = rng.randint(FIRST, LAST)
        n = max(FIRST, min(LAST, n))
        s = rng.choice([0, 0, 43200, 86399, 1]) if rng.random() < 0.4 else rng.randrange(86400)
        y, m, d = tab.date(n)
        e = ev(it, "def cur = " + lit((y, m, d), s), op="new", y=y, m=m, d=d, s=s)
        if not e["ok"]:
            continue
        for _step in range(rng.randint(5, 12)):
            op = rng.choice(["add", "sub", "add", "sub", "int", "dec", "date_int", "date_dec",
                             "roundtrip", "roundtrip_int", "diff", "minus", "back"])
            cur = interp(it, "cur")
            if cur[0] != "val" or cur[1][0] != "date":
                break
            cy, cm, cd, cs = cur[1][1:5]
            try:
                cn = tab.num(cy, cm, cd)
            except (KeyError, AssertionError):
                break                       # outside the table: already reported by the step before
            k = rng.choice(STRIDES + [rng.randint(0, 400), rng.randint(0, 40000)])
            if rng.random() < 0.15:
                # land on a year boundary
                ty = rng.randint(1900, 9999)
                k = abs(tab.num(ty, 1, 1) - rng.randint(0, 1) - cn)
            if op in ("add", "diff", "back"):
                if cn + k > LAST:
                    k = rng.randint(0, LAST - cn)
            elif op == "sub":
                if cn - k < FIRST:
                    k = rng.randint(0, cn - FIRST)
            if op == "add":
                e = ev(it, "cur = cur + %d" % k, op=op, k=k)
            elif op == "sub":
                e = ev(it, "cur = cur - %d" % k, op=op, k=k)
            elif op == "int":
                e = ev(it, "int(cur)", op=op)
            elif op == "dec":
                e = ev(it, "decimal(cur)", op=op)
            elif op in ("date_int", "date_dec"):
                k = rng.randint(FIRST, LAST) if rng.random() < 0.5 else \
                    tab.num(rng.randint(1900, 9999), 1, 1) - rng.randint(0, 1)
                k = max(FIRST, k)
                if op == "date_int":
                    e = ev(it, "cur = date(%d)" % k, op=op, k=k)
                else:
                    a = rng.randrange(86400)
                    e = ev(it, "cur = date(%s)" % repr(k + a / 86400), op=op, k=k, a=a)
            elif op == "roundtrip":
                e = ev(it, "date(decimal(cur))", op=op)
            elif op == "roundtrip_int":
                e = ev(it, "date(int(cur))", op=op)
            elif op == "diff":
                e = ev(it, "(cur + %d) - cur" % k, op=op, k=k)
            elif op == "minus":
                oy, om, od = tab.date(rng.randint(FIRST, LAST))
                e = ev(it, "%s - cur" % lit((oy, om, od), cs), op=op, y=oy, m=om, d=od, s=cs)
            else:  # back
                e = ev(it, "(cur + %d) - %d == cur" % (k, k), op=op, k=k)
            if not e["ok"]:
                break                       # the model and `cur` may differ now: next trace
    return events, meta


def rerecord(events, meta):
    """Run the stored sources of one trace again on the code under test and
    observe afresh (used by --replay)."""
    it = Interpreter(True, False)
    out_e, out_m = [], []
    keep = {"new": ("y", "m", "d", "s"), "minus": ("y", "m", "d", "s"), "date_dec": ("k", "a")}
    for e0, (src, _note) in zip(events, meta):
        e = dict(BLANK)
        e["op"] = e0["op"]
        for f in keep.get(e0["op"], ("k",)):
            e[f] = e0[f]
        o = observe(it, e, src)
        out_e.append(e)
        out_m.append([src, "" if e["ok"] else "%r" % (o,)])
    return out_e, out_m


def validate_traces(run, events, meta):
    d = tempfile.mkdtemp(prefix="c17-")
    path = os.path.join(d, "trace.ndjson")
    try:
        with open(path, "w") as f:
            for e in events:
                f.write(json.dumps(e) + "\n")
        res = tlc("Date_Trace", workers=1, env={"TRACE_FILE": path}, timeout=3000)
    finally:
        try:
            os.remove(path)
            os.rmdir(d)
        except OSError:
            pass
    run.add_tlc(res, "Date_Trace validation of recorded executions")
    done = res.records("DONE")
    if not done or done[-1]["n"] != len(events):
        raise MachineryError("trace validation did not consume the whole trace")
    for b in res.records("BAD"):
        k = b["l"] - 1
        j = k
        while events[j]["op"] != "new":
            j -= 1
        run.violation("trace:%s ; %s -> %s" % (meta[j][0], meta[k][0], json.dumps(events[k], sort_keys=True)),
                      "trace-rejected: recorded call rejected by Date_Trace at clause %s %s" % (b["why"], meta[k][1]),
                      {"kind": "trace", "events": events[j:k + 1], "meta": meta[j:k + 1]})
    return len(events), len(res.records("BAD"))


# ------------------------------------------------------------------ run
def tlc_tables(run, quick):
    """Run the calendar machines; return (Table of all months, months walked day
    by day, ARITH cases)."""
    res = tlc("Date", "Date_quick", coverage=True, timeout=1200)
    run.add_tlc(res, "Date day walk over the quick year ranges (Tick = one calendar day)")
    walked = {(r["y"], r["m"]): (r["n"], r["len"]) for r in res.records("MONTH")}
    resm = tlc("Date", "Date_months", coverage=False, timeout=1800)
    run.add_tlc(resm, "Date month walk 1900-01..9999-12 (WholeMonth: every day of every month)")
    tab = Table(resm.records("MONTH"))
    resy = tlc("Date", "Date_years", coverage=True, timeout=1200)
    run.add_tlc(resy, "Date year walk 1900..9999 (year-length sum of to_oa_date)")
    years = {r["y"]: (r["n"], r["len"]) for r in resy.records("YEAR")}
    # the three walks must tell one story (a disagreement is a spec bug, not a finding)
    if len(tab.first) != 8100 * 12 or not tab.contiguous() or tab.rows[0][0] != FIRST \
            or tab.rows[-1][0] + tab.rows[-1][3] - 1 != LAST:
        raise MachineryError("month table exported by TLC is not the contiguous range 1900-01..9999-12")
    for key, v in walked.items():
        if tab.first.get(key) != v:
            raise MachineryError("day walk and month walk disagree on %r" % (key,))
    if len(years) != 8100:
        raise MachineryError("year walk exported %d years" % len(years))
    for yy, (n, ln) in years.items():
        if tab.first[(yy, 1)][0] != n or tab.num(yy, 12, 31) != n + ln - 1:
            raise MachineryError("year walk and month walk disagree on %d" % yy)
    if not quick:
        rest = tlc("Date", "Date_thorough", coverage=False, timeout=7200)
        run.add_tlc(rest, "Date day walk over every day 1900-01-01..9999-12-31 (810 decade walks)")
        if rest.distinct != LAST - FIRST + 1:
            raise MachineryError("full day walk visited %d days" % rest.distinct)
    resa = tlc("DateArith", "DateArith_quick" if quick else "DateArith_thorough",
                   coverage=True, timeout=3000)
    run.add_tlc(resa, "DateArith calendar-stepping machine (d + k is k NextDay steps away)")
    arith = {}
    for r in resa.records("ARITH"):
        arith[(tuple(r["b"]), r["k"])] = r
    return tab, walked, list(arith.values())


def run(run):
    global _TAB
    quick = run.tier == "quick"
    rng = random.Random(run.seed)
    tab, walked, arith = tlc_tables(run, quick)
    _TAB = tab
    if not arith:
        raise MachineryError("TLC exported no arithmetic cases")

    jobs = []
    seen = set()

    def add_day(y, m, d, mode, noffs, s=None):
        if (y, m, d) in seen:
            return
        seen.add((y, m, d))
        n = tab.num(y, m, d)
        if s is None:
            s = rng.randrange(86400)
        if mode in ("light", "bound"):
            # one step across the nearest month / year boundary, predicted by the table
            k = 1 if d > 15 else -1
            offs = [(k, tab.date(n + k))] if FIRST <= n + k <= LAST else []
        else:
            offs = offsets_for(tab, rng, n, noffs, ends=(noffs > 1 or rng.random() < 0.25)) if noffs else []
        jobs.append((y, m, d, n, s, offs, mode))

    # first / last three days of every month walked day by day
    for (y, m), (n, ln) in sorted(walked.items()):
        for d in (1, 2, 3, ln - 2, ln - 1, ln):
            add_day(y, m, d, "full", 2)
    nwalk = len(jobs)
    # fixed times of day: 12:30:15 and the last second of the day
    for (y, m, d), s in zip([(1900, 1, 1), (1969, 12, 31), (1970, 1, 1), (2020, 5, 5), (9999, 12, 31)] * 2,
                            [45015] * 5 + [86399] * 5):
        n = tab.num(y, m, d)
        jobs.append((y, m, d, n, s, offsets_for(tab, rng, n, 2), "full"))
    # every year boundary 1900..9999 and the end of every February
    for y in range(1900, 10000):
        add_day(y, 1, 1, "bound", 0)
        add_day(y, 12, 31, "bound", 0)
        add_day(y, 2, tab.first[(y, 2)][1], "lean", 0)
        add_day(y, 3, 1, "lean", 0)
    nbound = len(seen) - nwalk
    # random days
    nrand = 20000 if quick else 60000
    for _ in range(nrand):
        y, m, d = tab.date(rng.randint(FIRST, LAST))
        add_day(y, m, d, rng.choice(RANDOM_DAY_MODES), 1)
    ndays = len(jobs)
    if not quick:
        # every day of every month: direct conversions (to_oa_date / to_date)
        for (n0, y, m, ln) in tab.rows:
            jobs.append(("month", y, m, n0, ln, rng.randrange(2 ** 30)))
            ndays += ln
    # arithmetic cases of the stepping machine
    arith.sort(key=lambda r: (r["b"], r["k"]))
    by_day = {}
    for r in arith:
        if tab.num(*r["b"]) != r["nb"] or tab.num(*r["e"]) != r["ne"] or r["ne"] - r["nb"] != r["k"]:
            raise MachineryError("DateArith case disagrees with the Date month table: %r" % (r,))
        by_day.setdefault(tuple(r["b"]), []).append((r["k"], tuple(r["e"])))
    acases = 0
    for b, offs in sorted(by_day.items()):
        for i in range(0, len(offs), 4):
            jobs.append(b + (tab.num(*b), rng.randrange(86400), offs[i:i + 4], "arith"))
            acases += len(offs[i:i + 4])
    # binding B: recorded walks
    nt = 800 if quick else 8000
    per = 20
    for i in range(nt // per):
        jobs.append(("traces", rng.randrange(2 ** 30), per))
    sample_day = next(j for j in jobs if j[-1] == "full")
    modes = {}
    for j in jobs:
        if not isinstance(j[0], str):
            modes[j[-1]] = modes.get(j[-1], 0) + 1
    rng.shuffle(jobs)               # far-future days are ~10x slower: spread them over the pool
    evals, events, meta = run_jobs(run, jobs, 16)
    run.sample({"DAY": {"date": list(sample_day[:3]), "n": sample_day[3], "second_of_day": sample_day[4],
                        "offsets": sample_day[5]}})
    run.sample({"ARITH": arith[len(arith) // 2]})
    nev, nbad = validate_traces(run, events, meta)
    run.sample({"TRACE": events[:5]})
    ntr = sum(1 for e in events if e["op"] == "new")

    ndistinct = (len(seen) if quick else LAST - FIRST + 1)
    run.cov["traces_validated_against_impl"] = ndays + acases + ntr
    run.cov["evaluations"] = evals + nev
    run.cov["distinct_nontrivial"] = ndistinct + acases + ntr
    run.cov["rule"] = ("binding A: one case per distinct calendar day (conversions, and offsets predicted by the "
                       "TLC month table) plus one per distinct (base, k) pair of DateArith; binding B: one per "
                       "recorded walk; evaluations counts calls of the real code (direct calls and interpreter "
                       "expressions) and trace events")
    run.cov["exhaustive"] = not quick
    run.cov["bounds"] = {"days_of_walked_months": nwalk, "year_and_february_boundaries": nbound,
                         "random_days_requested": nrand, "distinct_days": ndistinct,
                         "day_jobs_by_mode": modes, "arith_cases": acases, "recorded_walks": ntr,
                         "trace_events": nev, "trace_events_rejected": nbad,
                         "day_numbers": [FIRST, LAST], "processes": NPROC}
    run.assumptions += [
        "'the same date to the second' is compared as equality of (year, month, day, hour, minute, second); "
        "microseconds of the result are ignored",
        "decimal day numbers are compared with the exact rational n + s/86400 within 1e-9 days",
        "(d + n) - d must be the int n: a value of kind int that holds a Python float counts as a mismatch",
        "offsets are whole days; results outside 1900-01-01..9999-12-31 are never requested",
        "the quick tier relies on the WholeMonth invariant (month walk) for the days inside the months "
        "that are not walked day by day; the thorough tier walks every day in TLC and calls "
        "to_oa_date / to_date on every day",
    ]


# ------------------------------------------------------------------ replay
def replay(run, case):
    kind = case["kind"]
    if kind == "direct":
        y, m, d = case["ymd"]
        out, _ = check_day(None, y, m, d, case["n"], case["s"], [], "direct")
        for key, what, c in out:
            run.violation(key, what, c)
    elif kind == "expr":
        out, _ = check_parts(Interpreter(True, False), [(case["src"], case["cmp"], case["want"])])
        for key, what, c in out:
            run.violation(key, what, c)
    elif kind == "trace":
        events, meta = rerecord(case["events"], case["meta"])
        validate_traces(run, events, meta)
