"""C17 - dates and day numbers convert one-to-one, date arithmetic is calendar-correct.

Spec: spec/DateOps.tla (leap rule, month table, table-free closed forms
DayNumber / FromDayNumber), spec/Date.tla (the calendar machine: day walk,
month walk, year walk with the closed-form, round-trip, leap/month sanity and
arithmetic-law invariants), spec/DateArith.tla (calendar-stepping machine for
"d + k is k calendar days away"), spec/Date_Trace.tla (trace validation).

Binding A: TLC exports one MONTH record (y, m, n_first, len) per month of
1900..9999 (month walk, every day of the month checked by the WholeMonth
invariant; day walk on the quick year ranges / on the whole range in the
thorough tier) and the ARITH cases of the stepping machine.  The harness
derives the predicted day number of every day from those records and calls
the real code: ckl.date.to_oa_date / to_date directly and, through the
interpreter, int(date), decimal(date), date(number), date + k, date - k,
date - date, (d + k) - k == d, (d + k) - d == k.
Binding B: random walks of one date value through those operations are
recorded from the interpreter and validated by TLC against Date_Trace.tla.

Round 3 - the process around the conversions (spec/DateProc.tla, the zone model
and the hazard instants of spec/DateOps.tla, the bystander events of
spec/Date_Trace.tla).  The property speaks about date values only, so nothing
it names may depend on the time zone of the process, on what the process has
evaluated before, or on tables at module level that other date functions write:
* every binding-A job runs under one of the eight zones of DateOps.Zones (the
  worker switches with tzset), after a call of a date function outside the
  conversions (parse_date, is_valid_date, format_date, date_year .., failing
  conversions, sorting) on a leap day or a year end, and makes its calls in a
  seeded order; the instants TLC exports as skipped / repeated local hours of
  the zones with daylight saving time are checked under that zone;
* every history TLC enumerates from DateProc (every operation of the date
  vocabulary as the first thing a process does, on wide parameter sets; every
  ordered pair on narrow ones; triples in the thorough tier) and every recorded
  walk runs in a process of its own: interpreters started with TZ in their
  environment fork one child per history, so a table built on first use, a
  value computed at import time and a table another function left changed are
  all in the state a user's script would meet.  The events are judged by
  Date_Trace, then the same child runs a battery of binding-A days;
* every call of the code under test runs under a CPU-time watchdog (a call that
  does not return is reported as `no-result`, the check never hangs with it).
"""
import bisect
import datetime
import json
import multiprocessing
import os
import random
import re
import resource
import select
import signal
import subprocess
import sys
import tempfile
import threading
import time
from concurrent.futures import ThreadPoolExecutor
from fractions import Fraction

from .common import import_ckl, MachineryError
from .tla import run_tlc
from . import absval

import_ckl()
from ckl.interpreter import Interpreter  # noqa: E402
from ckl import date as ckldate  # noqa: E402

FIRST, LAST = 2, 2958465            # day numbers of 1900-01-01 and 9999-12-31
TOL = Fraction(1, 10 ** 9)          # decimals: within 1e-9 days
STRIDES = [1, 2, 7, 28, 29, 30, 31, 59, 60, 365, 366, 730, 1461, 36524, 36525, 146097]
NPROC = min(16, os.cpu_count() or 1)
# the code under test loops over the years since 1900 in every conversion (about
# 1 ms each in year 9999), so the costly forms are run on a share of the random days
RANDOM_DAY_MODES = ["lean"] * 7 + ["light"] * 2 + ["full"]
VERIF_ROOT = os.path.dirname(os.path.dirname(os.path.abspath(__file__)))
NOISE_SHARE = 0.3                   # share of the binding-A jobs that start with a bystander call
# days every new process is probed on after its history (leap / common / century years, both range ends)
BATTERY_DAYS = [(2023, 12, 31), (2023, 2, 28), (2024, 2, 29), (1900, 1, 1), (2100, 3, 1)]
BATTERY_FAR = (9999, 12, 31)        # added for every fourth process (a conversion there takes ~1 ms)


# ------------------------------------------------------------------ watchdog
CPU_LIMIT = 5                       # CPU seconds for one call of the code under test (a conversion takes ~1 ms)
WALL_LIMITS = (240, 1200)           # wall seconds; a wall time-out is tried once more before it counts
CHILD_CPU = 150                     # hard CPU limit of one history process (for loops no signal handler can leave)
HANG_BUDGET = 2                     # after that many calls without a result a process runs no further jobs
_HANGS = 0


class Hang(BaseException):
    """raised by the watchdog timers inside the call they interrupt"""


class Exhausted(BaseException):
    """this process has spent its budget of calls that never return: nothing more is evaluated in it"""


def _on_timer(signum, frame):
    raise Hang("cpu" if signum == signal.SIGVTALRM else "wall")


_ARMED = False


def _arm():
    global _ARMED
    if not _ARMED and threading.current_thread() is threading.main_thread():
        signal.signal(signal.SIGVTALRM, _on_timer)
        signal.signal(signal.SIGALRM, _on_timer)
        _ARMED = True
    return _ARMED and threading.current_thread() is threading.main_thread()


def guarded(fn):
    """fn() under the watchdog -> ("done", result) | ("hang", text).  The CPU timer (user time of
    this process: independent of the load of the machine) decides at once; the wall timer is only
    for calls that wait instead of computing and is tried a second time with a longer limit."""
    global _HANGS
    if _HANGS >= HANG_BUDGET:
        raise Exhausted()
    if not _arm():
        return ("done", fn())
    for wall in WALL_LIMITS:
        try:
            signal.setitimer(signal.ITIMER_VIRTUAL, CPU_LIMIT)
            signal.setitimer(signal.ITIMER_REAL, wall)
            try:
                return ("done", fn())
            finally:
                signal.setitimer(signal.ITIMER_VIRTUAL, 0)
                signal.setitimer(signal.ITIMER_REAL, 0)
        except Hang as h:
            if str(h) == "cpu":
                _HANGS += 1
                return ("hang", "no result within %d CPU-seconds" % CPU_LIMIT)
    _HANGS += 1
    return ("hang", "no result within %d s (tried twice)" % WALL_LIMITS[-1])


_PROGRESS = None                    # set in a history process: called with the text about to be evaluated


def progress(text):
    if _PROGRESS is not None:
        _PROGRESS(text)


# ------------------------------------------------------------------ environment: the zone of the process
_ZONES = ["UTC0"]                   # replaced by the zones TLC exports (DateOps.Zones); zone z is _ZONES[z - 1]
_ENV = {"zone": 0, "tz": None}      # what this process is set to


def set_zone(z):
    tz = _ZONES[z - 1]
    if _ENV["tz"] != tz:
        os.environ["TZ"] = tz
        time.tzset()
        _ENV["zone"], _ENV["tz"] = z, tz


def set_tz(tz):
    if tz and _ENV["tz"] != tz:
        os.environ["TZ"] = tz
        time.tzset()
        _ENV["zone"], _ENV["tz"] = (_ZONES.index(tz) + 1 if tz in _ZONES else 0), tz


def where():
    return " [TZ=%s]" % _ENV["tz"] if _ENV["tz"] else ""


def tlc(*a, **kw):
    """run_tlc, once more when the JVM was killed, timed out or threw (seen once with six JVMs side by side on
    the loaded machine; not on a spec error)"""
    try:
        return run_tlc(*a, **kw)
    except MachineryError as e:
        if "tlc exit" not in str(e) and "unexpected exception" not in str(e):
            raise
        return run_tlc(*a, **kw)


# ------------------------------------------------------------------ calendar table
class Table:
    """The month records TLC exported: predicted day number of every day."""

    def __init__(self, months):
        self.first = {}             # (y, m) -> (n_first, len)
        for r in months:
            self.first[(r["y"], r["m"])] = (r["n"], r["len"])
        self.rows = sorted((n, y, m, ln) for (y, m), (n, ln) in self.first.items())
        self.starts = [r[0] for r in self.rows]

    @classmethod
    def from_rows(cls, rows):
        return cls({"y": y, "m": m, "n": n, "len": ln} for (n, y, m, ln) in rows)

    def num(self, y, m, d):
        n, ln = self.first[(y, m)]
        assert 1 <= d <= ln
        return n + d - 1

    def date(self, n):
        i = bisect.bisect_right(self.starts, n) - 1
        n0, y, m, ln = self.rows[i]
        assert 0 <= n - n0 < ln, (n, self.rows[i])
        return (y, m, n - n0 + 1)

    def contiguous(self):
        for a, b in zip(self.rows, self.rows[1:]):
            if a[0] + a[3] != b[0]:
                return False
        return True


def hms(s):
    return (s // 3600, s // 60 % 60, s % 60)


def lit(ymd, s=None):
    y, m, d = ymd
    if s is None:
        return "date('%04d%02d%02d')" % (y, m, d)
    return "date('%04d%02d%02d%02d%02d%02d')" % ((y, m, d) + hms(s))


def fields(dt):
    """(y, m, d, second of day): what 'the same date to the second' compares."""
    return (dt.year, dt.month, dt.day, dt.hour * 3600 + dt.minute * 60 + dt.second)


def safe(pred, v):
    try:
        return bool(pred(v))
    except Exception:  # noqa: BLE001 - a result of the wrong kind is a mismatch
        return False


def call(fn):
    """-> ("val", v) | ("host", class, text) | ("hang", text)"""
    def attempt():
        try:
            return ("val", fn())
        except Exception as e:  # noqa: BLE001 - any exception from a conversion is a finding
            return ("host", type(e).__name__, str(e)[:100])
    g = guarded(attempt)
    return g[1] if g[0] == "done" else ("hang", g[1])


def py_value(v):
    """Interpreter value -> comparable observation."""
    p = absval.to_py(v)
    if isinstance(p, tuple) and p and p[0] == "date":
        return ("date",) + fields(v.value)
    if isinstance(p, tuple) and p and p[0] == "list":
        return ("list", tuple(py_value(x) for x in v.value))
    return p


def interp(it, src):
    """-> ("val", observation) | ("err", text) | ("syntax", text) | ("host", class, text) | ("hang", text)"""
    g = guarded(lambda: absval.outcome(lambda: it.interpret(src, "c17")))
    if g[0] != "done":
        return ("hang", g[1])
    o = g[1]
    if o[0] == "val":
        return ("val", py_value(o[1]))
    if o[0] == "err":
        return ("err", str(o[2])[:100])
    if o[0] == "syntax":
        return ("syntax", str(o[1])[:100])
    return ("host", o[1], o[2])


def dec_close(v, n, s):
    """observed decimal v equals n + s/86400 within 1e-9 days"""
    return (isinstance(v, tuple) and len(v) == 2 and v[0] == "dec"
            and abs(Fraction(v[1]) - (n + Fraction(s, 86400))) <= TOL)


# ------------------------------------------------------------------ binding A: one day
def check_day(it, y, m, d, n, s, offs, mode="full", order=None):
    """Conversions for the day (y, m, d) whose predicted day number is n, with
    second-of-day s for the timed forms; offs = [(k, (y2, m2, d2)), ...] are
    offsets with the predicted target date.  mode:
      "midnight" to_oa_date(date) == n exactly and to_date(n)
      "lean"   to_oa_date(date with time) and to_date of the number it gave
      "bound"  lean, to_date(n) at midnight, and one `date +- k` at midnight
               through the interpreter
      "direct" ckl.date.to_oa_date / to_date at midnight and with the time
      "light"  direct, int(date), date(n), `date +- k`, `date - date`
      "full"   every conversion form and every law for each offset
      "arith"  only the laws for each offset
    order: None = the calls are made in the order listed; a number = in an
    order drawn from it (number -> date may come first, the interpreter forms
    may come before the direct calls).
    Returns (violations, count)."""
    out = []
    cnt = 0
    ymd = (y, m, d)

    def direct(fn, arg, want, cmp):
        nonlocal cnt
        cnt += 1
        case = {"kind": "direct", "ymd": list(ymd), "n": n, "s": s, "tz": _ENV["tz"]}
        if fn == "to_oa_date":
            key = "to_oa_date(%s)" % datetime.datetime(*arg).isoformat()
            progress(key)
            o = call(lambda: ckldate.to_oa_date(datetime.datetime(*arg)))
        else:
            key = "to_date(%r)" % (arg,)
            progress(key)
            o = call(lambda: ckldate.to_date(arg))
        if o[0] == "hang":
            out.append((key, "no-result: %s, expected %r%s" % (o[1], want, where()), case))
        elif o[0] == "host":
            out.append((key, "host-exception: %s (%s), expected %r%s" % (o[1], o[2], want, where()), case))
        elif not safe(cmp, o[1]):
            shown = o[1].isoformat() if isinstance(o[1], datetime.datetime) else repr(o[1])
            out.append((key, "%s-mismatch: got %s, expected %r%s" % (fn, shown, want, where()), case))
        return o

    steps = []
    if mode == "midnight":
        steps.append(lambda: direct("to_oa_date", [y, m, d], n, lambda v: v == n))
        steps.append(lambda: direct("to_date", n, ymd + (0,), lambda v: fields(v) == ymd + (0,)))
    elif mode != "arith":
        h, mi, se = hms(s)
        lean = mode in ("lean", "bound")
        # date -> day number
        if not lean:
            steps.append(lambda: direct("to_oa_date", [y, m, d], n, lambda v: v == n))

        def timed():
            ot = direct("to_oa_date", [y, m, d, h, mi, se], "%d+%d/86400" % (n, s),
                        lambda v: abs(Fraction(v) - (n + Fraction(s, 86400))) <= TOL)
            # day number -> date; the number the code itself produced must come back as the same date
            back = ot[1] if ot[0] == "val" and isinstance(ot[1], (int, float)) else n + s / 86400
            direct("to_date", back, ymd + (s,), lambda v: fields(v) == ymd + (s,))
            if mode == "full" and back != n + s / 86400:
                direct("to_date", n + s / 86400, ymd + (s,), lambda v: fields(v) == ymd + (s,))
        steps.append(timed)
        if mode != "lean":
            steps.append(lambda: direct("to_date", n, ymd + (0,), lambda v: fields(v) == ymd + (0,)))

    parts = []
    if mode not in ("midnight", "direct", "lean"):
        # through the interpreter (one program; on any failure the parts are run one by one)
        sp = 0 if mode == "bound" else s    # the step across the year end is taken at midnight: date('20201231') + 1
        D0, DT = lit(ymd), lit(ymd, sp)
        decs = repr(n + sp / 86400)
        if mode == "light":
            parts += [
                ("int(%s)" % D0, "int", n),
                ("date(%d)" % n, "eq", ["date", y, m, d, 0]),
            ]
        elif mode == "full":
            parts += [
                ("int(%s)" % DT, "int", n),
                ("decimal(%s)" % DT, "dec", [n, sp]),
                ("date(%d)" % n, "eq", ["date", y, m, d, 0]),
                ("date(%s)" % decs, "eq", ["date", y, m, d, sp]),
                ("date(int(%s)) == %s" % (D0, D0), "true", True),
                ("date(decimal(%s)) == %s" % (DT, DT), "true", True),
            ]
        for k, tgt in offs:
            want = ["date"] + list(tgt) + [sp]
            T = lit(tuple(tgt), sp)
            if k >= 0:
                parts.append(("%s + %d" % (DT, k), "eq", want))
            else:
                parts.append(("%s - %d" % (DT, -k), "eq", want))
            if mode == "bound":
                continue
            parts.append(("%s - %s" % (T, DT), "int", k))
            if mode != "light":
                if k >= 0:
                    parts.append(("(%s + %d) - %d == %s" % (DT, k, k, DT), "true", True))
                else:
                    parts.append(("(%s - %d) + %d == %s" % (DT, -k, -k, DT), "true", True))
                parts.append(("(%s + (%d)) - %s" % (DT, k, DT), "int", k))
                parts.append(("(%s + (%d)) - %s == %d" % (DT, k, DT, k), "true", True))

    def program():
        nonlocal cnt
        out2, c2 = check_parts(it, parts)
        out.extend(out2)
        cnt += c2
    if parts:
        steps.append(program)
    if order is not None:
        rnd = random.Random(order)
        rnd.shuffle(steps)
        rnd.shuffle(parts)
    try:
        for step in steps:
            step()
    except Exhausted:
        pass                            # what was observed so far is reported; the caller runs no further job
    return out, cnt


def matches(cmp, want, v):
    if cmp == "int":
        return type(v) is int and v == want
    if cmp == "dec":
        return dec_close(v, want[0], want[1])
    if cmp == "true":
        return v is True
    return absval.strict_eq(v, tuple(want))


def check_parts(it, parts):
    """Evaluate the expressions as one program (one by one when that fails)
    and compare each with its expectation."""
    out = []
    if not parts:
        return out, 0
    prog = "[" + ", ".join(p[0] for p in parts) + "]"
    progress(prog)
    o = interp(it, prog)
    if o[0] == "val" and o[1][0] == "list" and len(o[1][1]) == len(parts):
        obs = [("val", v) for v in o[1][1]]
    else:
        obs = []
        try:
            for p_ in parts:
                progress(p_[0])
                obs.append(interp(it, p_[0]))
        except Exhausted:
            pass                        # the parts not evaluated are not judged (zip below stops at obs)
    for (src, cmp, want), ob in zip(parts, obs):
        case = {"kind": "expr", "src": src, "cmp": cmp, "want": want, "tz": _ENV["tz"], "pre": _ENV.get("pre")}
        if ob[0] == "hang":
            out.append((src, "no-result: %s, expected %r%s" % (ob[1], want, where()), case))
        elif ob[0] == "host":
            out.append((src, "host-exception: %s (%s), expected %r%s" % (ob[1], ob[2], want, where()), case))
        elif ob[0] != "val":
            out.append((src, "error: %s %s, expected %r%s" % (ob[0], ob[1], want, where()), case))
        elif not matches(cmp, want, ob[1]):
            out.append((src, "%s: got %r, expected %r%s" % (category(src), ob[1], want, where()), case))
    return out, len(parts)


def category(src):
    if "==" in src:
        return "law-false"
    if src.startswith("int("):
        return "int-mismatch"
    if src.startswith("decimal("):
        return "decimal-mismatch"
    if src.startswith("date(") and "+" not in src and " - " not in src:
        return "date-of-number-mismatch"
    if ") - date(" in src or ")) - date(" in src:
        return "date-difference-mismatch"
    return "date-arithmetic-mismatch"


_IT = None
_TAB = None          # the TLC month table, inherited by the forked pool workers


def module_state():
    """plain values at module level of ckl.date (tables, constants, caches), for a drift-only diagnostic:
    nothing here is relied upon, any failure gives an empty answer"""
    try:
        out = {}
        for name, v in list(vars(ckldate).items()):
            if not name.startswith("__") and isinstance(v, (list, dict, set, tuple, int, float, str, bool)):
                out[name] = repr(v)[:120]
        return out
    except Exception:  # noqa: BLE001
        return {}


def state_drift(before, drift):
    after = module_state()
    for name in sorted(set(before) | set(after)):
        if before.get(name) != after.get(name):
            drift.append(("module-level-value-of-ckl.date-changed", "%s: %s -> %s" % (
                name, before.get(name), after.get(name))))
    return after


def _worker(arg):
    """One chunk of jobs -> (chunk index, violations, evaluations, drift, cpu seconds by job kind)."""
    global _IT
    idx, chunk = arg
    if _IT is None:
        _IT = Interpreter(True, False)
    out = []
    drift = []
    cnt = 0
    cpu = {}
    state = module_state()
    for job in chunk:
        if _HANGS >= HANG_BUDGET:
            # calls that never return cost CPU_LIMIT each: what was seen is reported, the rest is not run
            drift.append(("job-not-run-after-repeated-no-result", None))
            continue
        t0 = time.process_time()
        kind = job[0] if isinstance(job[0], str) else job[-1]
        try:
            cnt += _run_job(job, out, drift)
        except Hang as h:               # a timer that fired between two guarded calls: nothing was running
            drift.append(("watchdog-outside-call", str(h)))
        except Exhausted:
            drift.append(("job-not-run-after-repeated-no-result", None))
        cpu[kind] = cpu.get(kind, 0.0) + time.process_time() - t0
    state_drift(state, drift)
    return idx, out, cnt, drift, cpu


def _run_job(job, out, drift):
    cnt = 0
    zone, nseed = job[-2]
    set_zone(zone)
    _ENV["pre"] = None
    if nseed:
        # a date function outside the conversions runs first: it must not matter
        _ENV["pre"] = noise_program(random.Random(nseed), _TAB)
        for src in _ENV["pre"]:
            o = interp(_IT, src)
            if o[0] in ("host", "hang"):
                drift.append(("bystander-" + o[0], "%s -> %r" % (src, o[1:])))
    if job[0] == "month":
        # every day of one month, direct conversions only, seeded times of day
        _tag, y, m, n0, ln, seed = job[:6]
        r = random.Random(seed)
        for d in range(1, ln + 1):
            # both conversions at midnight and with a time on the first and last two days of the
            # month, on the other days alternately with a time of day / at midnight
            edge = d <= 2 or d >= ln - 1
            mode = "direct" if edge else ("lean" if (n0 + d) % 2 else "midnight")
            o, c = check_day(None, y, m, d, n0 + d - 1, r.randrange(86400), [], mode,
                             order=(seed + d if d % 3 == 0 else None))
            out += o
            cnt += c
    else:
        (y, m, d, n, s, offs, _env, mode) = job
        o, c = check_day(_IT, y, m, d, n, s, offs, mode, order=(nseed or None))
        out += o
        cnt += c
    return cnt


def run_jobs(run, jobs, chunk, limit):
    """-> evaluations; violations and drift go to run.  limit: seconds to wait for one chunk."""
    chunks = list(enumerate(jobs[i:i + chunk] for i in range(0, len(jobs), chunk)))
    results = []
    if NPROC > 1 and len(chunks) > 1:
        ctx = multiprocessing.get_context("fork")
        pool = ctx.Pool(NPROC)
        try:
            pending = pool.imap_unordered(_worker, chunks, chunksize=1)
            for _ in chunks:
                try:
                    results.append(pending.next(timeout=limit))
                except multiprocessing.TimeoutError:
                    report(run, results)
                    raise MachineryError("the worker pool returned no result for %d s (%d of %d chunks done)"
                                         % (limit, len(results), len(chunks)))
            pool.close()
        finally:
            pool.terminate()
            pool.join()
    else:
        tz0 = os.environ.get("TZ")
        try:
            results = [_worker(c) for c in chunks]
        finally:
            if tz0 is None:
                os.environ.pop("TZ", None)
            else:
                os.environ["TZ"] = tz0
            time.tzset()
            _ENV["zone"], _ENV["tz"] = 0, None
    return report(run, results)


def report(run, results):
    total = 0
    cpu = {}
    for _idx, out, cnt, drift, c in sorted(results, key=lambda r: r[0]):
        total += cnt
        for k, v in c.items():
            cpu[k] = cpu.get(k, 0.0) + v
        for key, what, case in out:
            run.violation(key, what, case)
        for kind, sample in drift:
            run.drift(kind, sample)
            if kind == "job-not-run-after-repeated-no-result":
                run.cov["jobs_not_run"] = run.cov.get("jobs_not_run", 0) + 1
    run.cov["impl_cpu_seconds_by_job_kind"] = {k: round(v, 1) for k, v in sorted(cpu.items())}
    return total


def offsets_for(tab, rng, n, how_many, ends=True):
    """offsets from the stride set (both signs) and to both range ends, with
    the target date predicted by the TLC month table"""
    cand = [k for k in STRIDES if n + k <= LAST] + [-k for k in STRIDES if n - k >= FIRST]
    ks = rng.sample(cand, min(how_many, len(cand)))
    if ends:
        ks.append([FIRST - n, LAST - n][rng.randrange(2)])
    return [(k, tab.date(n + k)) for k in ks]


# ------------------------------------------------------------------ events (binding B, format of Date_Trace.tla)
BLANK = {"op": "", "ok": True, "y": 0, "m": 0, "d": 0, "s": 0, "k": 0, "a": 0, "t": 0, "r": 0, "us": 0, "b": False}
INPUTS = {"start": ("k", "a"), "tz": ("k",), "new": ("y", "m", "d", "s"), "add": ("k",), "sub": ("k",),
          "diff": ("k",), "back": ("k",), "date_int": ("k",), "date_dec": ("k", "a"), "api_date": ("k", "a"),
          "api_num": ("y", "m", "d", "s"), "minus": ("y", "m", "d", "s"), "cmp": ("y", "m", "d", "s", "a"),
          "parse": ("k", "a", "t"), "valid": ("k",), "fmt": ("a",), "part": ("a",), "err": ("a",), "free": ("a",)}
CONSTRUCTORS = ("new", "date_int", "date_dec", "parse")
PARSE_FMT = {1: "'yyyyMMdd'", 2: "'yyyyMMddHHmmss'", 3: "['yyyyMM', 'yyyyMMddHHmmss']", 4: "'ddMMyyyyHHmmss'",
             5: "'HHmmss'"}          # 5: a time only; the date is then 1970-01-01 (k = 19700101)
FMT_SRC = {1: "require Date; Date->format_date(cur, fmt = 'yyyyMMddHHmmss')", 2: "require Date; Date->format_date(cur)",
           3: "require Date; Date->iso_datetime(cur)", 4: "require Date; Date->iso_date(cur)"}
PART_SRC = {1: "date_year", 2: "date_month", 3: "date_day", 4: "date_hour", 5: "date_minute", 6: "date_second"}
CMP_SRC = {1: "<", 2: "<=", 3: "==", 4: "!=", 5: ">=", 6: ">"}
ERR_SRC = {1: "date(1)", 2: "date(2958466)", 3: "date('20230229')", 4: "date('99991231') + 1",
           5: "date('19000101') - 1", 6: "date(3000000.5)"}
FREE_SRC = {1: "date()", 2: "timestamp()", 3: "sorted([date('20240229'), date('20231231'), date('20240301')])",
            4: "date('20240229') + 0.5", 5: "is_valid_time('2359')", 6: "require Date; Date->parse_date('20230229')",
            7: "require Date; Date->parse_date('12', fmt = 'HH')", 8: "string(date('2024022912'))"}


def source(e):
    """the program text (or the direct call) of one event"""
    op = e["op"]
    ymd = (e["y"], e["m"], e["d"])
    if op == "start":
        return "(a new process starts, TZ=%s)" % _ZONES[e["k"] - 1]
    if op == "tz":
        return "(the zone of the process changes, TZ=%s)" % _ZONES[e["k"] - 1]
    if op == "new":
        return "def cur = " + lit(ymd, e["s"])
    if op == "date_int":
        return "def cur = date(%d)" % e["k"]
    if op == "date_dec":
        return "def cur = date(%s)" % repr(e["k"] + e["a"] / 86400)
    if op == "api_date":
        return "ckl.date.to_date(%r)" % (e["k"] + e["a"] / 86400 if e["a"] else e["k"],)
    if op == "api_num":
        return "ckl.date.to_oa_date(%r)" % (datetime.datetime(*(ymd + hms(e["s"]))),)
    if op == "parse":
        y, m, d = e["k"] // 10000, e["k"] // 100 % 100, e["k"] % 100
        if e["a"] == 1:
            text = "%04d%02d%02d" % (y, m, d)
        elif e["a"] == 4:
            text = "%02d%02d%04d%02d%02d%02d" % ((d, m, y) + hms(e["t"]))
        elif e["a"] == 5:
            text = "%02d%02d%02d" % hms(e["t"])
        else:
            text = "%04d%02d%02d%02d%02d%02d" % ((y, m, d) + hms(e["t"]))
        return "require Date; def cur = Date->parse_date('%s', fmt = %s)" % (text, PARSE_FMT[e["a"]])
    if op == "valid":
        return "is_valid_date('%08d')" % e["k"]
    if op == "fmt":
        return FMT_SRC[e["a"]]
    if op == "part":
        return "require Date; Date->%s(cur)" % PART_SRC[e["a"]]
    if op == "str":
        return "string(cur)"
    if op == "cmp":
        return "cur %s %s" % (CMP_SRC[e["a"]], lit(ymd, e["s"]))
    if op == "err":
        return ERR_SRC[e["a"]]
    if op == "free":
        return FREE_SRC[e["a"]]
    if op == "minus":
        return "%s - cur" % lit(ymd, e["s"])
    return {"add": "cur = cur + %d" % e["k"], "sub": "cur = cur - %d" % e["k"], "int": "int(cur)",
            "dec": "decimal(cur)", "roundtrip": "date(decimal(cur))", "roundtrip_int": "date(int(cur))",
            "diff": "(cur + %d) - cur" % e["k"], "back": "(cur + %d) - %d == cur" % (e["k"], e["k"])}[op]


def event(op, **kw):
    e = dict(BLANK)
    e["op"] = op
    e.update(kw)
    return e


def split_number(e, x, sec_field):
    """a day number with a time of day -> whole days in r, second in sec_field, residual microseconds in us"""
    x = Fraction(x)
    r = x.numerator // x.denominator
    secs = round((x - r) * 86400)
    us = round(((x - r) * 86400 - secs) * 10 ** 6)
    if secs == 86400:
        r, secs = r + 1, 0
    e["r"], e[sec_field], e["us"] = r, secs, us


def digits_to_fields(text, with_time):
    ds = "".join(re.findall(r"[0-9]", text))
    if len(ds) != (14 if with_time else 8):
        return None
    y, m, d = int(ds[0:4]), int(ds[4:6]), int(ds[6:8])
    if not with_time:
        return (y, m, d, 0)
    return (y, m, d, int(ds[8:10]) * 3600 + int(ds[10:12]) * 60 + int(ds[12:14]))


def observe(it, e, src):
    """Evaluate the event e (which already holds op and the inputs) on the code
    under test and store what came back in its observed fields.  -> the raw outcome"""
    op = e["op"]
    progress(src)
    if op == "start":
        e["ok"] = True
        return ("val", None)
    if op == "tz":
        set_zone(e["k"])
        e["ok"] = True
        return ("val", None)
    if op == "api_date":
        o = call(lambda: ckldate.to_date(e["k"] + e["a"] / 86400 if e["a"] else e["k"]))
        ok = o[0] == "val" and isinstance(o[1], datetime.datetime)
        if ok:
            e["y"], e["m"], e["d"], e["s"] = fields(o[1])
            o = ("val", o[1].isoformat())
        e["ok"] = ok
        return o
    if op == "api_num":
        arg = datetime.datetime(*((e["y"], e["m"], e["d"]) + hms(e["s"])))
        o = call(lambda: ckldate.to_oa_date(arg))
        ok = o[0] == "val" and type(o[1]) in (int, float) and 0 <= o[1] < 2 ** 31
        if ok:
            split_number(e, o[1], "t")
        e["ok"] = ok
        return o
    o = interp(it, src)
    ok = o[0] == "val"
    v = o[1] if ok else None
    if op == "new":
        ok = ok and isinstance(v, tuple) and v[0] == "date"
    elif op in ("add", "sub", "date_int", "date_dec", "roundtrip", "roundtrip_int", "parse"):
        if ok and isinstance(v, tuple) and v[0] == "date":
            e["y"], e["m"], e["d"], e["s"] = v[1:5]
        else:
            ok = False
    elif op in ("int", "diff", "minus", "part"):
        if ok and type(v) is int and abs(v) < 2 ** 31:
            e["r"] = v
        else:
            ok = False
    elif op == "dec":
        if ok and isinstance(v, tuple) and v[0] == "dec" and 0 <= v[1] < 2 ** 31:
            split_number(e, v[1], "s")
        else:
            ok = False
    elif op in ("back", "valid", "cmp"):
        if ok and isinstance(v, bool):
            e["b"] = v
        else:
            ok = False
    elif op in ("fmt", "str"):
        f = digits_to_fields(v[1], not (op == "fmt" and e["a"] == 4)) \
            if ok and isinstance(v, tuple) and v[0] == "str" else None
        if f:
            e["y"], e["m"], e["d"], e["s"] = f
        else:
            ok = False
    elif op == "err":
        e["r"] = {"val": 0, "err": 1}.get(o[0], 2)
        ok = o[0] != "hang"
    elif op == "free":
        ok = o[0] not in ("host", "hang")
    e["ok"] = ok
    return o


def note_of(e, o):
    return "" if e["ok"] else "%r" % (o,)


# ------------------------------------------------------------------ bystanders
def noise_day(rng, tab):
    """a day for a bystander call: 29 February and 31 December of leap years above all"""
    mode = rng.random()
    y = rng.randint(1900, 9999)
    if mode < 0.4:
        y = y - y % 4
        y = y if (y % 100 or y % 400 == 0) else y + 4
        return (y, 2, 29) if mode < 0.25 else (y, 12, 31)
    if mode < 0.6:
        return rng.choice([(y, 2, 28), (y, 3, 1), (y, 12, 31), (y, 1, 1)])
    return tab.date(rng.randint(FIRST, LAST))


def noise_event(rng, tab, cur=None):
    """one event of a date function outside the conversions (inputs only); cur = (cn, cs) when a
    date variable `cur` exists (the readers need it)"""
    ops = ["parse", "valid", "valid", "err", "free"]
    if cur is not None:
        ops += ["fmt", "part", "str", "cmp", "fmt", "part"]
    op = rng.choice(ops)
    if op == "parse":
        y, m, d = noise_day(rng, tab)
        a = rng.randint(1, 5)
        return event(op, k=(19700101 if a == 5 else y * 10000 + m * 100 + d), a=a, t=rng.randrange(86400))
    if op == "valid":
        y, m, d = noise_day(rng, tab)
        if rng.random() < 0.4:
            m, d = rng.choice([(2, 29), (2, 30), (4, 31), (13, 1), (1, 0), (12, 32), (6, 31), (2, 29)])
        return event(op, k=y * 10000 + m * 100 + d)
    if op == "fmt":
        return event(op, a=rng.randint(1, 4))
    if op == "part":
        return event(op, a=rng.randint(1, 6))
    if op == "cmp":
        cn, cs = cur
        j = rng.choice([-1, 0, 0, 1])
        n2 = min(LAST, max(FIRST, cn + j))
        y, m, d = tab.date(n2)
        return event(op, y=y, m=m, d=d, s=rng.choice([cs, cs, rng.randrange(86400)]), a=rng.randint(1, 6))
    if op == "err":
        return event(op, a=rng.randint(1, 6))
    if op == "free":
        return event(op, a=rng.randint(1, 8))
    return event(op)


def noise_program(rng, tab):
    """program texts of one or two bystander calls for a binding-A job (their results are not judged there;
    the same calls are judged by Date_Trace in the recorded walks)"""
    y, m, d = noise_day(rng, tab)
    s = rng.randrange(86400)
    srcs = ["def cur = " + lit((y, m, d), s)]
    for _ in range(rng.randint(1, 2)):
        e = noise_event(rng, tab, (tab.num(y, m, d), s))
        srcs.append(source(e))
        if e["op"] == "parse":
            break                       # cur may be NULL now
    return srcs


# ------------------------------------------------------------------ binding B: one process
def record_walk(rng, tab, it, zone, events, meta):
    """One recorded walk in this (new) process, appended to events and meta; meta[i] = [source text, note]"""

    def ev(e):
        src = source(e)
        o = observe(it, e, src)
        events.append(e)
        meta.append([src, note_of(e, o)])
        return e

    ev(event("start", k=zone, a=1))
    # start: bias towards year ends, February ends and the range ends
    mode = rng.random()
    if mode < 0.35:
        yy = rng.randint(1900, 9999)
        n = tab.num(yy, 1, 1) + rng.choice([-2, -1, 0, 1, 58, 59, 60])
    elif mode < 0.45:
        n = rng.choice([FIRST, FIRST + 1, LAST - 1, LAST, 25568, 25569, 25570])
    else:
        n = rng.randint(FIRST, LAST)
    n = max(FIRST, min(LAST, n))
    s = rng.choice([0, 0, 43200, 86399, 1]) if rng.random() < 0.4 else rng.randrange(86400)
    y, m, d = tab.date(n)
    first = rng.random()
    if first < 0.15:
        # the first thing the process does is number -> date
        e = ev(event("date_dec", k=n, a=s) if s else event("date_int", k=n))
    elif first < 0.25:
        ev(event("api_date", k=n, a=s))
        e = ev(event("new", y=y, m=m, d=d, s=s))
    elif first < 0.4:
        ev(noise_event(rng, tab))
        e = ev(event("new", y=y, m=m, d=d, s=s))
    else:
        e = ev(event("new", y=y, m=m, d=d, s=s))
    if not e["ok"]:
        return
    for _step in range(rng.randint(5, 12)):
        op = rng.choice(["add", "sub", "add", "sub", "int", "dec", "date_int", "date_dec",
                         "roundtrip", "roundtrip_int", "diff", "minus", "back",
                         "noise", "noise", "noise", "noise", "tz", "api_date", "api_num"])
        cur = interp(it, "cur")
        if cur[0] != "val" or not isinstance(cur[1], tuple) or cur[1][0] != "date":
            break
        cy, cm, cd, cs = cur[1][1:5]
        try:
            cn = tab.num(cy, cm, cd)
        except (KeyError, AssertionError):
            break                       # outside the table: already reported by the step before
        k = rng.choice(STRIDES + [rng.randint(0, 400), rng.randint(0, 40000)])
        if rng.random() < 0.15:
            # land on a year boundary
            ty = rng.randint(1900, 9999)
            k = abs(tab.num(ty, 1, 1) - rng.randint(0, 1) - cn)
        if op in ("add", "diff", "back"):
            if cn + k > LAST:
                k = rng.randint(0, LAST - cn)
        elif op == "sub":
            if cn - k < FIRST:
                k = rng.randint(0, cn - FIRST)
        if op in ("add", "sub", "diff", "back"):
            e = ev(event(op, k=k))
        elif op in ("int", "dec", "roundtrip", "roundtrip_int"):
            e = ev(event(op))
        elif op in ("date_int", "date_dec", "api_date"):
            k = rng.randint(FIRST, LAST) if rng.random() < 0.5 else \
                tab.num(rng.randint(1900, 9999), 1, 1) - rng.randint(0, 1)
            k = max(FIRST, k)
            if rng.random() < 0.2:
                k = cn                  # the day cur stands on, at another time of day
            if op == "date_int":
                e = ev(event(op, k=k))
            else:
                e = ev(event(op, k=k, a=rng.randrange(86400)))
        elif op == "api_num":
            oy, om, od = tab.date(rng.randint(FIRST, LAST)) if rng.random() < 0.7 else (cy, cm, cd)
            e = ev(event(op, y=oy, m=om, d=od, s=rng.randrange(86400)))
        elif op == "minus":
            oy, om, od = tab.date(rng.randint(FIRST, LAST))
            e = ev(event(op, y=oy, m=om, d=od, s=cs))
        elif op == "tz":
            e = ev(event(op, k=rng.randint(1, len(_ZONES))))
        else:
            e = ev(noise_event(rng, tab, (cn, cs)))
        if not e["ok"] and e["op"] not in ("valid", "fmt", "part", "str", "cmp", "err", "free"):
            break                       # the model and `cur` may differ now: next trace
        if not e["ok"] and e["op"] == "parse":
            break


def run_history(it, zone, ops, events, meta):
    """One history exported by DateProc in this (new) process, appended to events and meta"""
    for e0 in [event("start", k=zone, a=1)] + list(ops):
        e = event(e0["op"], **{f: e0[f] for f in INPUTS.get(e0["op"], ())})
        src = source(e)
        o = observe(it, e, src)
        events.append(e)
        meta.append([src, note_of(e, o)])
        if not e["ok"] and e["op"] in CONSTRUCTORS + ("add", "sub"):
            break                       # cur is not what the next operation expects


def battery_jobs(tab):
    """the binding-A days every new process is probed on after its history"""
    jobs = []
    for (y, m, d) in BATTERY_DAYS + [BATTERY_FAR]:
        n = tab.num(y, m, d)
        k = 1 if d > 15 else -1
        offs = [(k, tab.date(n + k))] if FIRST <= n + k <= LAST else [(-k, tab.date(n - k))]
        jobs.append((y, m, d, n, 45015, offs, "light"))
    return jobs


def run_task(task, it, tab, battery):
    """A history or a walk, then the battery, in this process -> result record"""
    zone = task["zone"]
    set_zone(zone)                      # a zygote is started with this TZ already; replay in another process sets it
    t0 = time.process_time()
    events, meta, drift = [], [], []
    state = module_state()
    try:
        if task["kind"] == "walk":
            record_walk(random.Random(task["seed"]), tab, it, zone, events, meta)
        else:
            run_history(it, zone, task["ops"], events, meta)
    except Exhausted:
        pass
    state_drift(state, drift)
    label = "process[%s]" % "; ".join(m[0] for m in meta)
    rnd = random.Random(task["id"] * 7919 + 13)
    days = [b for b in battery if tuple(b[:3]) != BATTERY_FAR or task["id"] % 4 == 0]
    rnd.shuffle(days)
    viol = []
    cnt = 0
    _ENV["pre"] = None
    t1 = time.process_time()
    for (y, m, d, n, s, offs, mode) in days:
        if _HANGS >= HANG_BUDGET:
            break
        o, c = check_day(it, y, m, d, n, s, [(k, tuple(t)) for k, t in offs], mode, order=rnd.randrange(2 ** 30))
        cnt += c
        for key, what, _case in o:
            viol.append([label + " then " + key, what + " - after that history in a new process",
                         {"kind": "proc", "task": task}])
    return {"id": task["id"], "events": events, "meta": meta, "viol": viol, "cnt": cnt,
            "cpu": [t1 - t0, time.process_time() - t1], "hangs": _HANGS, "drift": drift}


def fork_retry():
    for i in range(200):
        try:
            return os.fork()
        except OSError:                 # "Resource temporarily unavailable" on the loaded machine
            time.sleep(0.05 * (i + 1))
    return os.fork()


def zygote_main(jobfile, outfile):
    """Runs in a newly started interpreter (TZ in its environment, ckl imported, nothing evaluated): forks
    one child per task, so that each task meets the state of a process that has done nothing yet."""
    global _PROGRESS, _ZONES
    with open(jobfile) as f:
        job = json.load(f)
    _ZONES = job["zones"]
    _ENV["tz"], _ENV["zone"] = os.environ.get("TZ"), job["zone"]
    with open(job["months"]) as f:
        tab = Table.from_rows(json.load(f))
    battery = job["battery"]
    it = Interpreter(True, False)
    with open(outfile, "w") as outf:
        hangs = 0
        for task in job["tasks"]:
            res = None
            if hangs >= HANG_BUDGET:
                res = {"id": task["id"], "skipped": True}
            for _attempt in range(0 if res else 2):
                res = one_child(task, it, tab, battery)
                if "died" not in res or res["died"] == "SIGXCPU":
                    break
            hangs += res.get("hangs", 0) + (1 if res.get("died") == "SIGXCPU" else 0)
            outf.write(json.dumps(res) + "\n")
            outf.flush()


def one_child(task, it, tab, battery):
    global _PROGRESS
    r, w = os.pipe()
    pid = fork_retry()
    if pid == 0:
        code = 1
        try:
            os.close(r)
            resource.setrlimit(resource.RLIMIT_CPU, (CHILD_CPU, CHILD_CPU + 10))

            def tell(text):
                os.write(w, (json.dumps({"at": text}) + "\n").encode())
            _PROGRESS = tell
            res = run_task(task, it, tab, battery)
            data = (json.dumps(res) + "\n").encode()
            while data:
                data = data[os.write(w, data):]
            code = 0
        except BaseException:  # noqa: BLE001 - shown to the parent through the error file of the zygote
            import traceback
            traceback.print_exc()
        finally:
            sys.stderr.flush()
            os._exit(code)
    os.close(w)
    buf = b""
    deadline = time.time() + WALL_LIMITS[-1] * 2
    timed_out = False
    while True:
        left = deadline - time.time()
        if left <= 0 or not select.select([r], [], [], left)[0]:
            timed_out = True
            os.kill(pid, signal.SIGKILL)
            break
        chunk = os.read(r, 1 << 16)
        if not chunk:
            break
        buf += chunk
    os.close(r)
    _pid, status = os.waitpid(pid, 0)
    lines = [json.loads(x) for x in buf.decode().splitlines() if x.strip()]
    if lines and "id" in lines[-1] and not timed_out:
        return lines[-1]
    sig = os.WTERMSIG(status) if os.WIFSIGNALED(status) else 0
    died = "wall" if timed_out else ("SIGXCPU" if sig == signal.SIGXCPU else "signal %d" % sig if sig
                                     else "exit %d" % os.WEXITSTATUS(status))
    ats = [x["at"] for x in lines if "at" in x]
    return {"id": task["id"], "died": died, "at": ats[-1] if ats else "", "done": ats[:-1]}


BOOT = ("import sys; sys.path.insert(0, %r); from harness import c17; "
        "c17.zygote_main(sys.argv[1], sys.argv[2])" % VERIF_ROOT)


class Processes:
    """The new processes of one run: started early, collected after the worker pool."""

    def __init__(self, tasks, tab, workdir, shards_per_zone=2):
        self.tasks = {t["id"]: t for t in tasks}
        self.procs = []
        self.stderr = ""
        self.failure = None
        months = os.path.join(workdir, "months.json")
        with open(months, "w") as f:
            json.dump(tab.rows, f)
        battery = battery_jobs(tab)
        by_zone = {}
        for t in tasks:
            by_zone.setdefault(t["zone"], []).append(t)
        for z, ts in sorted(by_zone.items()):
            nsh = max(1, min(shards_per_zone, len(ts)))
            for i in range(nsh):
                part = ts[i::nsh]
                jf = os.path.join(workdir, "zyg-%d-%d.json" % (z, i))
                of = os.path.join(workdir, "zyg-%d-%d.out" % (z, i))
                with open(jf, "w") as f:
                    json.dump({"zone": z, "zones": _ZONES, "months": months, "battery": battery, "tasks": part}, f)
                env = dict(os.environ)
                env["TZ"] = _ZONES[z - 1]
                env["PYTHONHASHSEED"] = "0"
                errf = open(os.path.join(workdir, "zyg-%d-%d.err" % (z, i)), "w+")
                p = subprocess.Popen([sys.executable, "-c", BOOT, jf, of], env=env, cwd=VERIF_ROOT,
                                     stdout=errf, stderr=errf)
                self.procs.append((p, of, errf, part))

    def collect(self, limit):
        """-> {task id: result}"""
        results = {}
        deadline = time.time() + limit
        failure = None
        for p, of, errf, part in self.procs:
            try:
                rc = p.wait(timeout=max(1, deadline - time.time()))
            except subprocess.TimeoutExpired:
                p.kill()
                p.wait()
                rc = None
            if os.path.exists(of):
                with open(of) as f:
                    for ln in f:
                        if ln.strip():
                            r = json.loads(ln)
                            results[r["id"]] = r
            errf.seek(0)
            tail = errf.read()[-600:]
            errf.close()
            if rc != 0 and failure is None:
                failure = "a history process %s: %s" % (
                    "did not finish in time" if rc is None else "ended with status %r" % rc, tail)
            if tail and not self.stderr:
                self.stderr = tail
        self.failure = failure
        return results


def run_processes(run, procs, limit):
    """Collect the new processes -> (events, meta, owners, evaluations).  Violations of the battery and
    processes the code under test never came back from go to run."""
    results = procs.collect(limit)
    events, meta, owners = [], [], []
    evals = 0
    cpu = [0.0, 0.0]
    for tid in sorted(procs.tasks):
        task = procs.tasks[tid]
        r = results.get(tid)
        if r is None:
            continue
        if r.get("skipped"):
            run.drift("job-not-run-after-repeated-no-result", None)
            run.cov["jobs_not_run"] = run.cov.get("jobs_not_run", 0) + 1
            continue
        if "died" in r:
            label = "process[%s]" % "; ".join(r.get("done", []))
            if r["died"] == "SIGXCPU":
                run.violation(label + " then " + r["at"],
                              "no-result: the process used %d CPU-seconds and was stopped while evaluating this%s"
                              % (CHILD_CPU, " [TZ=%s]" % _ZONES[task["zone"] - 1]), {"kind": "proc", "task": task})
            else:
                procs.failure = procs.failure or "a history process died (%s) at %s: %s" % (
                    r["died"], r["at"], procs.stderr)
            continue
        owners.append((len(events), task))
        events += r["events"]
        meta += r["meta"]
        evals += r["cnt"]
        cpu = [cpu[0] + r["cpu"][0], cpu[1] + r["cpu"][1]]
        for kind, sample in r.get("drift", []):
            run.drift(kind, sample)
        for key, what, case in r["viol"]:
            run.violation(key, what, case)
    run.cov["impl_cpu_seconds_in_new_processes"] = {"histories_and_walks": round(cpu[0], 1), "battery": round(cpu[1], 1)}
    missing = [t for t in procs.tasks if t not in results]
    if procs.failure or missing:
        if events:
            validate_traces(run, events, meta, owners)      # what was observed is reported before giving up
        raise MachineryError(procs.failure or "%d history processes returned nothing" % len(missing))
    return events, meta, owners, evals


def rerecord(events, meta):
    """Run the stored sources of one trace again on the code under test and
    observe afresh (used by --replay of the cases of earlier rounds)."""
    it = Interpreter(True, False)
    out_e, out_m = [], []
    for e0, (src, _note) in zip(events, meta):
        e = event(e0["op"], **{f: e0[f] for f in INPUTS.get(e0["op"], ()) if f in e0})
        o = observe(it, e, src)
        out_e.append(e)
        out_m.append([src, note_of(e, o)])
    return out_e, out_m


def validate_traces(run, events, meta, owners=()):
    d = tempfile.mkdtemp(prefix="c17-")
    path = os.path.join(d, "trace.ndjson")
    try:
        with open(path, "w") as f:
            for e in events:
                f.write(json.dumps(e) + "\n")
        res = tlc("Date_Trace", workers=1, env={"TRACE_FILE": path}, timeout=3000)
    finally:
        try:
            os.remove(path)
            os.rmdir(d)
        except OSError:
            pass
    run.add_tlc(res, "Date_Trace validation of recorded executions")
    done = res.records("DONE")
    if not done or done[-1]["n"] != len(events):
        raise MachineryError("trace validation did not consume the whole trace")
    starts = [i for i, _t in owners]
    nbad = 0
    seen = set()
    for b in res.records("BAD"):
        k = b["l"] - 1
        if (k, b["why"]) in seen:
            continue
        seen.add((k, b["why"]))
        j = k
        while j > 0 and events[j]["op"] != "start" and not (not owners and events[j]["op"] == "new"):
            j -= 1
        if b["why"].startswith("noise-"):
            # what a bystander itself returned: not what the property speaks about
            run.drift("bystander-result-" + b["why"][6:], "%s ... %s -> %s %s" % (
                meta[j][0], meta[k][0], json.dumps(events[k], sort_keys=True), meta[k][1]))
            continue
        nbad += 1
        if owners:
            case = {"kind": "proc", "task": owners[bisect.bisect_right(starts, k) - 1][1]}
        else:
            case = {"kind": "trace", "events": events[j:k + 1], "meta": meta[j:k + 1]}
        run.violation("trace:%s -> %s" % (" ; ".join(mm[0] for mm in meta[j:k + 1]), json.dumps(events[k], sort_keys=True)),
                      "trace-rejected: recorded call rejected by Date_Trace at clause %s %s" % (b["why"], meta[k][1]),
                      case)
    return len(events), nbad


# ------------------------------------------------------------------ run
def tlc_tables(run, quick):
    """Run the calendar machines and the process machine (each its own JVM, side by side); return
    (Table of all months, months walked day by day, ARITH cases, histories, hazard instants)."""
    global _ZONES
    specs = [
        ("walk", ("Date", "Date_quick"), dict(coverage=True, timeout=1200),
         "Date day walk over the quick year ranges (Tick = one calendar day)"),
        ("months", ("Date", "Date_months"), dict(coverage=False, timeout=1800),
         "Date month walk 1900-01..9999-12 (WholeMonth: every day of every month)"),
        ("years", ("Date", "Date_years"), dict(coverage=True, timeout=1200, workers=4),
         "Date year walk 1900..9999 (year-length sum of to_oa_date)"),
        ("arith", ("DateArith", "DateArith_quick" if quick else "DateArith_thorough"), dict(coverage=True, timeout=3000),
         "DateArith calendar-stepping machine (d + k is k NextDay steps away)"),
        ("first", ("DateProc", "DateProc_first"), dict(coverage=True, timeout=1200, workers=1),
         "DateProc: every operation of the date vocabulary as the first one of a process (wide parameters)"),
        ("pairs", ("DateProc", "DateProc_pairs"), dict(coverage=True, timeout=1200, workers=1),
         "DateProc: every ordered pair of operations in a new process (narrow parameters)"),
    ]
    if not quick:
        specs.append(("thorough", ("Date", "Date_thorough"), dict(coverage=False, timeout=7200),
                      "Date day walk over every day 1900-01-01..9999-12-31 (810 decade walks)"))
        specs.append(("triples", ("DateProc", "DateProc_triples"), dict(coverage=False, timeout=3600, workers=1),
                      "DateProc: every ordered triple of operations in a new process (narrow parameters)"))
    with ThreadPoolExecutor(max_workers=len(specs)) as ex:
        futs = {name: ex.submit(tlc, *a, **kw) for name, a, kw, _label in specs}
        got = {name: f.result() for name, f in futs.items()}
    for name, _a, _kw, label in specs:
        run.add_tlc(got[name], label)
    res, resm, resy, resa = got["walk"], got["months"], got["years"], got["arith"]
    walked = {(r["y"], r["m"]): (r["n"], r["len"]) for r in res.records("MONTH")}
    tab = Table(resm.records("MONTH"))
    years = {r["y"]: (r["n"], r["len"]) for r in resy.records("YEAR")}
    # the three walks must tell one story (a disagreement is a spec bug, not a finding)
    if len(tab.first) != 8100 * 12 or not tab.contiguous() or tab.rows[0][0] != FIRST \
            or tab.rows[-1][0] + tab.rows[-1][3] - 1 != LAST:
        raise MachineryError("month table exported by TLC is not the contiguous range 1900-01..9999-12")
    for key, v in walked.items():
        if tab.first.get(key) != v:
            raise MachineryError("day walk and month walk disagree on %r" % (key,))
    if len(years) != 8100:
        raise MachineryError("year walk exported %d years" % len(years))
    for yy, (n, ln) in years.items():
        if tab.first[(yy, 1)][0] != n or tab.num(yy, 12, 31) != n + ln - 1:
            raise MachineryError("year walk and month walk disagree on %d" % yy)
    if not quick and got["thorough"].distinct != LAST - FIRST + 1:
        raise MachineryError("full day walk visited %d days" % got["thorough"].distinct)
    arith = {}
    for r in resa.records("ARITH"):
        arith[(tuple(r["b"]), r["k"])] = r
    # the process machine: histories and the environment model
    env = got["first"].records("ENV")
    if not env or len(env[0]["zones"]) < 2 or not env[0]["hazards"]:
        raise MachineryError("DateProc exported no environment (zones, hazard instants)")
    _ZONES = list(env[0]["zones"])
    hazards = sorted({tuple(h) for h in env[0]["hazards"]})
    for z, y, m, d, sec in hazards:
        if not (1 <= z <= len(_ZONES) and (y, m) in tab.first and 1 <= d <= tab.first[(y, m)][1] and 0 <= sec < 86400):
            raise MachineryError("hazard instant outside the calendar: %r" % ((z, y, m, d, sec),))
    hists = {}
    for name in ("first", "pairs") + (() if quick else ("triples",)):
        for h in got[name].records("HIST"):
            key = json.dumps(h["ops"], sort_keys=True)
            hists.setdefault(key, {"zone": h["z"], "ops": h["ops"], "n": h["n"], "from": name})
    if len(hists) < 100:
        raise MachineryError("DateProc exported only %d histories" % len(hists))
    return tab, walked, list(arith.values()), [hists[k] for k in sorted(hists)], hazards


def run(run):
    global _TAB
    quick = run.tier == "quick"
    rng = random.Random(run.seed)
    t0 = time.time()
    tab, walked, arith, hists, hazards = tlc_tables(run, quick)
    run.cov["phase_seconds"] = {"tlc_side_by_side": round(time.time() - t0, 1)}
    _TAB = tab
    if not arith:
        raise MachineryError("TLC exported no arithmetic cases")
    nz = len(_ZONES)

    # ---- new processes: the DateProc histories and the recorded walks, started now, collected later
    tasks = []
    for h in hists:
        tasks.append({"id": len(tasks), "kind": "hist", "zone": h["zone"], "ops": h["ops"]})
    nhist = len(tasks)
    nt = 800 if quick else 8000
    for i in range(nt):
        tasks.append({"id": len(tasks), "kind": "walk", "zone": 1 + (i + rng.randrange(nz)) % nz,
                      "seed": rng.randrange(2 ** 30)})
    workdir = tempfile.mkdtemp(prefix="c17-proc-")
    try:
        procs = Processes(tasks, tab, workdir)
        try:
            run_main(run, rng, quick, tab, walked, arith, hazards, procs, nhist, nt)
        finally:
            for p, _of, errf, _part in procs.procs:
                if p.poll() is None:
                    p.kill()
                    p.wait()
                if not errf.closed:
                    errf.close()
    finally:
        for name in os.listdir(workdir):
            os.remove(os.path.join(workdir, name))
        os.rmdir(workdir)


def run_main(run, rng, quick, tab, walked, arith, hazards, procs, nhist, nt):
    nz = len(_ZONES)
    jobs = []
    seen = set()
    zones_used = {}

    def env():
        z = 1 + rng.randrange(nz)
        zones_used[z] = zones_used.get(z, 0) + 1
        return (z, rng.randrange(1, 2 ** 30) if rng.random() < NOISE_SHARE else 0)

    def add_day(y, m, d, mode, noffs, s=None):
        if (y, m, d) in seen:
            return
        seen.add((y, m, d))
        n = tab.num(y, m, d)
        if s is None:
            s = rng.randrange(86400)
        if mode in ("light", "bound"):
            # one step across the nearest month / year boundary, predicted by the table
            k = 1 if d > 15 else -1
            offs = [(k, tab.date(n + k))] if FIRST <= n + k <= LAST else []
        else:
            offs = offsets_for(tab, rng, n, noffs, ends=(noffs > 1 or rng.random() < 0.25)) if noffs else []
        jobs.append((y, m, d, n, s, offs, env(), mode))

    # first / last three days of every month walked day by day
    for (y, m), (n, ln) in sorted(walked.items()):
        for d in (1, 2, 3, ln - 2, ln - 1, ln):
            add_day(y, m, d, "full", 2)
    nwalk = len(jobs)
    # fixed times of day: 12:30:15 and the last second of the day
    for (y, m, d), s in zip([(1900, 1, 1), (1969, 12, 31), (1970, 1, 1), (2020, 5, 5), (9999, 12, 31)] * 2,
                            [45015] * 5 + [86399] * 5):
        n = tab.num(y, m, d)
        jobs.append((y, m, d, n, s, offsets_for(tab, rng, n, 2), env(), "full"))
    # every year boundary 1900..9999 and the end of every February
    for y in range(1900, 10000):
        add_day(y, 1, 1, "bound", 0)
        add_day(y, 12, 31, "bound", 0)
        add_day(y, 2, tab.first[(y, 2)][1], "lean", 0)
        add_day(y, 3, 1, "lean", 0)
    nbound = len(seen) - nwalk
    # random days
    nrand = 20000 if quick else 60000
    for _ in range(nrand):
        y, m, d = tab.date(rng.randint(FIRST, LAST))
        add_day(y, m, d, rng.choice(RANDOM_DAY_MODES), 1)
    # the local hours a zone skips or repeats (DateOps.HazardsOf), under that zone, every form
    for z, y, m, d, sec in hazards:
        n = tab.num(y, m, d)
        k = rng.choice([1, -1])
        k = k if FIRST <= n + k <= LAST else -k
        seen.add((y, m, d))
        jobs.append((y, m, d, n, sec, [(k, tab.date(n + k))], (z, 0), "full"))
    ndays = len(jobs)
    if not quick:
        # every day of every month: direct conversions (to_oa_date / to_date)
        for (n0, y, m, ln) in tab.rows:
            jobs.append(("month", y, m, n0, ln, rng.randrange(2 ** 30), env(), "month"))
            ndays += ln
    # arithmetic cases of the stepping machine
    arith.sort(key=lambda r: (r["b"], r["k"]))
    by_day = {}
    for r in arith:
        if tab.num(*r["b"]) != r["nb"] or tab.num(*r["e"]) != r["ne"] or r["ne"] - r["nb"] != r["k"]:
            raise MachineryError("DateArith case disagrees with the Date month table: %r" % (r,))
        by_day.setdefault(tuple(r["b"]), []).append((r["k"], tuple(r["e"])))
    acases = 0
    for b, offs in sorted(by_day.items()):
        for i in range(0, len(offs), 4):
            jobs.append(b + (tab.num(*b), rng.randrange(86400), offs[i:i + 4], env(), "arith"))
            acases += len(offs[i:i + 4])
    sample_day = next(j for j in jobs if j[-1] == "full")
    modes = {}
    nnoise = 0
    for j in jobs:
        modes[j[-1]] = modes.get(j[-1], 0) + 1
        nnoise += 1 if j[-2][1] else 0
    rng.shuffle(jobs)               # far-future days are ~10x slower: spread them over the pool
    t0 = time.time()
    evals = run_jobs(run, jobs, 16, 1800 if quick else 4 * 3600)
    run.cov["phase_seconds"]["worker_pool"] = round(time.time() - t0, 1)
    t0 = time.time()
    run.sample({"DAY": {"date": list(sample_day[:3]), "n": sample_day[3], "second_of_day": sample_day[4],
                        "offsets": sample_day[5], "zone": _ZONES[sample_day[6][0] - 1]}})
    run.sample({"ARITH": arith[len(arith) // 2]})
    # binding B and the histories: one new process each
    events, meta, owners, pevals = run_processes(run, procs, 1800 if quick else 4 * 3600)
    run.cov["phase_seconds"]["waiting_for_new_processes"] = round(time.time() - t0, 1)
    t0 = time.time()
    nev, nbad = validate_traces(run, events, meta, owners)
    run.cov["phase_seconds"]["trace_validation"] = round(time.time() - t0, 1)
    run.sample({"HISTORY": {"zone": _ZONES[procs.tasks[0]["zone"] - 1], "ops": procs.tasks[0]["ops"]}})
    run.sample({"TRACE": events[owners[nhist][0]:owners[nhist][0] + 6] if len(owners) > nhist else events[:6]})
    if run.cov.get("jobs_not_run") and not run.violations:
        raise MachineryError("%d jobs were not run after calls of bystanders that never returned"
                             % run.cov["jobs_not_run"])
    ntr = len(owners)
    ops_seen = {}
    for e in events:
        ops_seen[e["op"]] = ops_seen.get(e["op"], 0) + 1

    ndistinct = (len(seen) if quick else LAST - FIRST + 1)
    run.cov["traces_validated_against_impl"] = ndays + acases + ntr
    run.cov["evaluations"] = evals + pevals + nev
    run.cov["distinct_nontrivial"] = ndistinct + acases + ntr
    run.cov["rule"] = ("binding A: one case per distinct calendar day (conversions, and offsets predicted by the "
                       "TLC month table) plus one per distinct (base, k) pair of DateArith; binding B: one per "
                       "new process (a DateProc history or a recorded walk, each followed by the battery); "
                       "evaluations counts calls of the real code (direct calls and interpreter "
                       "expressions) and trace events")
    run.cov["exhaustive"] = not quick
    run.cov["bounds"] = {"days_of_walked_months": nwalk, "year_and_february_boundaries": nbound,
                         "random_days_requested": nrand, "distinct_days": ndistinct,
                         "day_jobs_by_mode": modes, "arith_cases": acases,
                         "hazard_instants": len(hazards), "zones": list(_ZONES),
                         "jobs_by_zone": {_ZONES[z - 1]: c for z, c in sorted(zones_used.items())},
                         "jobs_after_a_bystander_call": nnoise,
                         "new_processes": ntr, "process_histories_from_DateProc": nhist, "recorded_walks": nt,
                         "battery_days_per_process": [len(BATTERY_DAYS), len(BATTERY_DAYS) + 1], "battery_evaluations": pevals,
                         "trace_events": nev, "trace_events_by_op": dict(sorted(ops_seen.items())),
                         "trace_events_rejected": nbad,
                         "day_numbers": [FIRST, LAST], "processes": NPROC}
    run.assumptions += [
        "'the same date to the second' is compared as equality of (year, month, day, hour, minute, second); "
        "microseconds of the result are ignored",
        "decimal day numbers are compared with the exact rational n + s/86400 within 1e-9 days",
        "(d + n) - d must be the int n: a value of kind int that holds a Python float counts as a mismatch",
        "offsets are whole days; results outside 1900-01-01..9999-12-31 are never requested",
        "the quick tier relies on the WholeMonth invariant (month walk) for the days inside the months "
        "that are not walked day by day; the thorough tier walks every day in TLC and calls "
        "to_oa_date / to_date on every day",
        "the zone of a process is set through the TZ environment variable (POSIX strings, no tz database) at "
        "process start and with tzset while it runs; other ways a platform tells the zone are not varied",
        "what a bystander (parse_date, is_valid_date, format_date, date_year .., comparisons, failing conversions) "
        "itself returns is compared with the model but counted as drift; only the conversions and the day "
        "arithmetic that follow are judged",
        "a call of the code under test that uses %d CPU-seconds is reported as no-result (a conversion takes "
        "about a millisecond); a wall-clock limit is applied twice before it counts" % CPU_LIMIT,
    ]


# ------------------------------------------------------------------ replay
def replay(run, case):
    kind = case["kind"]
    tz0 = os.environ.get("TZ")
    try:
        if kind == "direct":
            set_tz(case.get("tz"))
            y, m, d = case["ymd"]
            out, _ = check_day(None, y, m, d, case["n"], case["s"], [], "direct")
            for key, what, c in out:
                run.violation(key, what, c)
        elif kind == "expr":
            set_tz(case.get("tz"))
            it = Interpreter(True, False)
            for src in case.get("pre") or []:
                interp(it, src)
            out, _ = check_parts(it, [(case["src"], case["cmp"], case["want"])])
            for key, what, c in out:
                run.violation(key, what, c)
        elif kind == "trace":
            events, meta = rerecord(case["events"], case["meta"])
            validate_traces(run, events, meta)
    finally:
        if tz0 is None:
            os.environ.pop("TZ", None)
        else:
            os.environ["TZ"] = tz0
        time.tzset()
        _ENV["zone"], _ENV["tz"] = 0, None
    if kind == "proc":
        # the whole history again, in a process of its own
        global _ZONES
        resm = tlc("Date", "Date_months", coverage=False, timeout=1800)
        tab = Table(resm.records("MONTH"))
        env = tlc("DateProc", "DateProc_pairs", coverage=False, timeout=1200, workers=1).records("ENV")
        _ZONES = list(env[0]["zones"])
        task = dict(case["task"], id=case["task"]["id"])
        workdir = tempfile.mkdtemp(prefix="c17-proc-")
        try:
            procs = Processes([task], tab, workdir)
            events, meta, owners, _ev = run_processes(run, procs, 3600)
            validate_traces(run, events, meta, owners)
        finally:
            for name in os.listdir(workdir):
                os.remove(os.path.join(workdir, name))
            os.rmdir(workdir)
