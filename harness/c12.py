"""C12 - results do not depend on hash seed, process or construction order.

Spec: spec/OrderOps.tla (enumeration operators EnumSorted/EnumRaw, the stage
pipelines that stand for programs, the reference evaluation), spec/Order.tla
(state machine: a collection is built element by element, its internal order
`ord` is re-chosen nondeterministically, a program's stages run over it;
invariant OrderIndependence), spec/Order_Trace.tla (validation of recorded
observations).

Binding A (deciding observations, the property's own oracle): every template
(one per enumeration path of the code) is instantiated with 6-8 string
elements (and mixed scalars), written to a script and executed in fresh
processes `python -m ckl.run -s [-l] t.ckl` under 8 (thorough 32) values of
PYTHONHASHSEED and 3 (thorough 6) construction orders of the same set/map.
Several templates share one script (a delimiter line between them, each
wrapped in `do ... catch all ... end`); templates about the script result or
an uncaught error, and templates cut off by a crash of an earlier one, run
alone.  The text a template printed (which includes rendered results and
error messages), and for the template that ended the process also stderr and
the exit status, must be identical in all runs.

The table Site (site -> "sorted" | "raw") of the model is *derived from these
observations* (a site is raw iff one of its direct templates varied; a site
without a direct template is assumed raw, the worst case).  TLC then predicts
from the table which programs (including composite ones where a raw site is
masked by set(), sum, sorted ...) can vary; the prediction is compared with
what was seen (disagreement = drift, never a violation).

Binding B: every distinct observation of a template that the model covers is
turned into a sequence of small ints (string -> rank table) and validated by
TLC against Order_Trace.tla: accepted iff it equals the model's EnumSorted
prediction ("... all enumerate them in sorted order").

Members that render alike (round 2): besides strings and mixed scalars the
sets and maps are filled from the pools ALIKE - anonymous functions, objects
that differ only in hidden members or share a _str_, sets / maps holding
such values, streams, and strings mixed with functions.  Their texts are
identical, so an order relation that compares texts ties on them and a
stable host sort leaves them in host-set order (which follows the hash
seed).  In the model these are the elements above OrderOps!AlikeBase; the
table entry "relation" ("total" | "render") says with which relation the
sorting sites sort, and is derived from the observations like the sites.
Several batches share one process (Carrier) to keep the number of
interpreter starts down.

Round 3: (a) strings that are near-duplicates of each other (case, blanks,
digit strings, accents, long common prefixes, texts of other values): pools
NEAR, the elements above OrderOps!NearBase; an order relation that folds
its operands ties them; table entry "strings" ("exact" | "folded").
(b) a second observation channel (harness/c12_calls.py): single calls run
by a driver process that records value, printed text AND error message of
every call: the native sweep (every function of the base environment and
the bundled modules applied to S / M themselves in every argument position)
and directed calls (error messages naming the first offending member,
reductions that do not commute, seeded random numbers).  (c) seeded random
numbers are printed, not compared with a constant; spec/Order_Rng.tla is the
generator's model, Order_Trace validates the printed numbers against it
(difference = drift; the oracle is that all processes agree).  (d) uncaught
errors below calls that were handed sets and maps: the stack-trace lines.

Round 4: behaviour that switches above a SIZE THRESHOLD (a fast path or an
abbreviation that walks the host container only when the collection is
large).  Pools BIG: sets and maps of 120 and 1 100 strings / sparse ints,
sent through the enumeration templates (rendering, for, list(),
comprehensions, spread, destructuring of the first members), through an
uncaught error of ckl.run and through the call channel (stack-trace lines of
user functions, methods, nested calls and of every native of the sweep, one
argument).  Model: table value "rawbig" (OrderOps!RawAt, BigAbove), what-if
configuration Order_bigraw (SmallBlind: collections up to the threshold show
nothing), class "big" of the prediction comparison.

Round 5: (a) collections as MEMBERS of sets and KEYS of maps: every prelude
also builds SR / MR, the same set / map in the reverse construction order;
templates `*twins-*` put S and SR (M and MR) into one set / map, directly and
inside lists, maps, sets and objects, and through `in`, `-`, remove, unique,
set(), append, comprehensions: the number of members must be 1 (model:
sites member.set / member.map, stage Twin, invariant OneMember; oracle 2
through Order_Trace) in every process.  In-process (value_ties): a map m
built in 24 construction orders next to the equal map m0, handed together to
every function.  (b) enumerations of NAMES: module objects (bundled modules
and a module zmod.ckl written beside the script, found through -m .), import
lists with colliding aliases, unqualified imports over existing symbols,
ls(), ls(M), object members (templates `names-*`, sites names.*; oracle 1
only: the statement prescribes no order for names, only that every process
shows the same), and a group of the call channel that hands a module object
and an object to every function.
"""
import json
import math
import os
import random
import re
import shutil
import subprocess
import tempfile
from concurrent.futures import ThreadPoolExecutor

from .common import import_ckl, MachineryError, REPO
from .tla import run_tlc
from . import c12_calls as calls_mod

PY = "/venv/bin/python"

# ---------------------------------------------------------------- elements
KEYW = ["apple", "cherry", "fig", "kiwi", "lemon", "mango", "peach", "quince"]      # rank 1..8
VALW = ["alpha", "beta", "delta", "epsilon", "gamma", "iota", "kappa", "sigma",
        "theta", "zeta"]                                                             # token 101..110
assert KEYW == sorted(KEYW) and VALW == sorted(VALW)


def val_of(k):
    """OrderOps!ValOf: the value token stored under key rank k."""
    return 100 + ((k * 4) % 11)


assert len({val_of(k) for k in range(1, 9)}) == 8 and all(101 <= val_of(k) <= 110 for k in range(1, 9))
assert len({val_of(k) for k in range(23, 33)}) == 10 and all(101 <= val_of(k) <= 110 for k in range(23, 33))
assert len({val_of(k) for k in range(1, 11)}) == 10 and all(101 <= val_of(k) <= 110 for k in range(1, 11))

# mixed-scalar pools: [(source literal, rendering in output)]
MIXED = {
    "mixed": [("'fig'", "fig"), ("'apple'", "apple"), ("'kiwi'", "kiwi"), ("3", "3"), ("20", "20"),
              ("100", "100"), ("1.5", "1.5"), ("-4", "-4"), ("NULL", "NULL")],
    "bool": [("TRUE", "TRUE"), ("FALSE", "FALSE"), ("'fig'", "fig"), ("'apple'", "apple"),
             ("'kiwi'", "kiwi"), ("'lemon'", "lemon"), ("'mango'", "mango")],
    "dateint": [("3", "3"), ("100", "100"), ("date('20240101')", "20240101000000"), ("'fig'", "fig"),
                ("'apple'", "apple"), ("'kiwi'", "kiwi"), ("'lemon'", "lemon"), ("'mango'", "mango")],
}

# pools of strings (and texts of other values) that are NEAR-DUPLICATES of each other (OrderOps!IsNear): different
# values that an order relation which first folds its operands - lower case, trimmed, as a number, without
# accents, abbreviated, as text - would tie.  [(source literal, rendering inside a list)]
NEAR_BASE = 22           # OrderOps!NearBase
_A60 = "a" * 60
NEAR = {
    "case": ["'Fig'", "'fig'", "'FIG'", "'fIg'", "'apple'", "'Apple'", "'Kiwi'", "'kiwi'"],
    "blank": ["'fig'", "'fig '", "' fig'", "'fig  '", "''", "' '", "'kiwi'", "' kiwi'"],
    "digits": ["'10'", "'9'", "'010'", "'9.0'", "'09'", "'1e1'", "'+9'", "'10 '"],
    "accent": ["'\u00e9'", "'e\u0301'", "'e'", "'\u00c9'", "'stra\u00dfe'", "'strasse'", "'STRASSE'", "'\ufb01g'", "'fig'"],
    "long": [f"'{_A60}{c}'" for c in "bcde"] + [f"'{_A60}'", f"'{_A60[:-1]}'"],
    # a string and the value whose text it is
    "text": ["'3'", "3", "'1.5'", "1.5", "'TRUE'", "TRUE", "'NULL'", "NULL", "'20240101000000'",
             ("date('20240101')", "20240101000000")],
}
for _p, _m in NEAR.items():
    MIXED[_p] = [m if isinstance(m, tuple) else (m, m) for m in _m]
# every type that sum() cannot digest occurs once: the error names the first such member in sorted order
MIXED["summix"] = [("3", "3"), ("20", "20"), ("1.5", "1.5"), ("-4", "-4"), ("'fig'", "'fig'"), ("//k//", "//k//"),
                   ("date('20240101')", "20240101000000"), ("TRUE", "TRUE"), ("NULL", "NULL")]
SUM_TYPES = {"string": "'fig'", "pattern": "//k//", "date": "20240101000000", "boolean": "TRUE", "null": "NULL"}
# decimals of very different magnitude: their sum depends on the order of the additions.  The hash of a number does not
# follow the hash seed; most of these fall into the same slot of a small host set, so that the internal order follows the
# construction order
MIXED["decmag"] = [(x, x) for x in ("10000000000000000.0", "-10000000000000000.0", "32.0", "64.0", "0.5", "3.0", "0.1")]
assert all(len(v) <= 10 for v in MIXED.values())


# pools of members that are pairwise different but RENDER ALIKE (OrderOps!IsAlike): the order of their texts
# ties, so a sort by the texts alone leaves them in host-set order.  `elem` writes member number w (its word is
# KEYW[w - 1]); the members are created in ascending w in the list F, then put into S / M / L in construction
# order, so neither creation numbers nor contents depend on the construction order.  `idof` shows which member
# one has in hand.  Rank of member w in the model: ALIKE_BASE + w (plain members of a mixed pool: w).
ALIKE_BASE = 55          # OrderOps!AlikeBase
ALIKE = {
    # anonymous functions: all print <#lambda>; different functions are never equal
    "lambda": {"elem": lambda w: f"fn(z) '{w}'", "idof": "x(0)", "pre": ""},
    # objects that differ only in a hidden member: all print <*a=1*>
    "hidden": {"elem": lambda w: f"<*a = 1, _h = '{w}'*>", "idof": "x->_h", "pre": ""},
    # instances of one class whose _str_ prints the same for all
    "proto": {"elem": lambda w: f"<*_proto_ = C, w = '{w}'*>", "idof": "x->w",
              "pre": "def C = <*_str_ = fn(self) 'pt'*>;\n"},
    # sets / maps holding such members
    "nestset": {"elem": lambda w: f"<<fn(z) '{w}'>>", "idof": "list(x)[0](0)", "pre": ""},
    "nestmap": {"elem": lambda w: f"<<<'k' => <*_h = '{w}'*>>>>", "idof": "x['k']->_h", "pre": ""},
    # strings and anonymous functions in one set (a string's text sorts before <#lambda>)
    "lambdamix": {"elem": lambda w: f"fn(z) '{w}'", "idof": "if type(x) == 'func' then x(0) else x", "pre": "",
                  "mixed": True},
    # streams: all print <!input-stream>; reading consumes them, so one template only
    "stream": {"elem": lambda w: f"IO->str_input('{w}')", "idof": "IO->read_all(x)", "pre": "require IO;\n",
               "single": True},
}
assert ALIKE_BASE + 8 < 100


# LARGE collections (round 4): [kind, number of members].  The members are the elements OrderOps!BigBase + rank.
# Strings: a word and a number ('kiwi7340'); their host order follows the hash seed.  Sparse ints: the host order
# is the order of the slots (value modulo table size, collisions by construction order), far from ascending.
BIG_BASE = 1000          # OrderOps!BigBase
BIG_ABOVE = 2            # OrderOps!BigAbove: the model's scale of "big"
BIG = {"big120s": ("str", 120), "big1100s": ("str", 1100), "big120i": ("int", 120), "big1100i": ("int", 1100)}
BIGVALW = ["aleph"] + VALW                                                           # token 100..110
assert BIGVALW == sorted(BIGVALW)
_BIGMEM = {}


def big_members(pool):
    """-> [(source literal, rendering inside a list, rendering when printed alone)] in ascending order of the language"""
    if pool not in _BIGMEM:
        kind, n = BIG[pool]
        if kind == "str":
            ws = sorted({f"{KEYW[i % 8]}{(i * 7919 + 17) % 10007}" for i in range(n)})
            mem = [(f"'{w}'", w) for w in ws]
        else:
            xs = sorted({(i * 7919 + 13) % 100003 + 111 for i in range(n)})          # > 110: no value token among them
            mem = [(str(x), str(x)) for x in xs]
        assert len(mem) == n
        _BIGMEM[pool] = mem
    return _BIGMEM[pool]


def big_rankable(pool):
    """the ascending order assumed for the pool is the language's: every member is `<` its successor and not the
    other way round (asked of the interpreter in this process)"""
    if pool in _TOTAL:
        return _TOTAL[pool]
    import_ckl()
    from ckl.interpreter import Interpreter
    lits = [m[0] for m in big_members(pool)]
    try:
        it = Interpreter(True, False)
        src = "[" + ", ".join(lits) + "]"
        v = it.interpret(f"def q = {src}; [[q[i] < q[i + 1], q[i + 1] < q[i], q[i] == q[i + 1]] for i in range({len(lits) - 1})]", "c12")
        flat = str(v)
        ok = flat.count("[TRUE, FALSE, FALSE]") == len(lits) - 1
        if not ok:
            _WHY[pool] = "the members are not in ascending order of `<`"
    except Exception as e:
        ok = False
        _WHY[pool] = f"asking the interpreter failed: {type(e).__name__}"
    _TOTAL[pool] = ok
    return ok


def map_key(lit):
    """a bare word in front of => is the string of that name in a map literal (also NULL): write it as an expression"""
    return f"[{lit}][0]" if re.fullmatch(r"[A-Za-z_]\w*", lit) and lit not in ("TRUE", "FALSE") else lit


# ---------------------------------------------------------------- templates
class T:
    def __init__(self, tid, body, prog=None, site=None, pool="str", parse="tokens", n=None, solo=False,
                 elems="keys", oracle2=True):
        self.tid = tid          # template id (violation key)
        self.body = body        # source after the prelude
        self.prog = prog        # id of the model program (OrderOps!Programs) or None = oracle only
        self.site = site        # this template is a *direct* observation of that site
        self.pool = pool        # "str" | a key of MIXED
        self.parse = parse      # "tokens" | "int"
        self.n = n              # fixed number of elements (None: 6..8)
        self.solo = solo        # needs a script of its own (script result, uncaught error)
        self.elems = elems      # "keys": the model collection holds the key ranks; "values": the value tokens
        self.oracle2 = oracle2  # False: compared across runs only (names: the statement prescribes no order for them)


# round 5: two modules of the user, written beside every script (found through `-m .`).  Their text is the same for
# every construction order and hash seed: the names they define (some collide with symbols of the base environment
# and of bundled modules, one is private) and the order of the definitions are part of the program.
MODULE_FILES = {
    "zmod.ckl": ("def kiwi = 'kiwi!';\ndef _hidden = 5;\ndef apple(x) x + 1;\ndef quince = [1, 2];\ndef fig(a, b = 2) a * b;\n"
                 "def sqrt = 'zmod sqrt';\ndef first = 'zmod first';\ndef lemon = <<1>>;\ndef cherry = NULL;\n"
                 "def mango(x) _hidden + x;\ndef peach = <<<1 => 2>>>;\n"),
    # a module that binds the symbols of two others into its own name space: they become members of ITS module object
    "zouter.ckl": ("def own_first = 1;\nrequire zmod unqualified;\nrequire Set unqualified;\ndef own_last = 2;\n"
                   "def both() [kiwi, type(union), own_first, own_last];\n"),
}

PRELUDE = ("require List; require Set; require Stat; require String; require Random;\n"
           "def lg(x) do println(x); return x; end;\n"
           "def lg2(x, y) do println(x); return x; end;\n"
           "def f(args...) args...;\n")


def templates():
    ts = []
    a = ts.append
    # ---- for loops
    a(T("for-set", "for x in S do println(x); end;", "for.set", "for.set"))
    a(T("for-set-expr", "for x in S println(x);", "for.set"))
    a(T("for-map-default", "for x in M do println(x); end;", "for.map.values", "for.map"))
    a(T("for-map-keys", "for x in keys M do println(x); end;", "for.map.keys", "for.map"))
    a(T("for-map-values", "for x in values M do println(x); end;", "for.map.values", "for.map"))
    a(T("for-map-entries", "for x in entries M do println(x); end;", "for.map.entries", "for.map"))
    a(T("for-set-break", "for x in S do println(x); if x > 'k' then break; end;", None))
    # ---- comprehensions (all seven node kinds share getCollectionValue)
    a(T("lcompr-set", "println([x for x in S]);", "compr.set", "compr.set"))
    a(T("lcompr-set-if", "println([x for x in S if x != 'zz']);", "compr.set"))
    a(T("lcompr-map-default", "println([x for x in M]);", "compr.map.entries", "compr.map.entries"))
    a(T("lcompr-map-keys", "println([x for x in keys M]);", "compr.map.keys", "compr.map.keys"))
    a(T("lcompr-map-values", "println([x for x in values M]);", "compr.map.values", "compr.map.values"))
    a(T("lcompr-map-entries", "println([x for x in entries M]);", "compr.map.entries", "compr.map.entries"))
    a(T("lcompr-product-1", "def r = [lg2(x, y) for x in S for y in ['_']];", "compr.set"))
    a(T("lcompr-product-2", "def r = [lg2(x, y) for y in ['_'] for x in S];", "compr.set"))
    a(T("lcompr-product-keys", "def r = [lg2(x, y) for x in keys M for y in ['_']];", "compr.map.keys"))
    a(T("lcompr-parallel-1", "def r = [lg2(x, y) for x in S also for y in range(20)];", "compr.set"))
    a(T("lcompr-parallel-2", "def r = [lg2(x, y) for y in range(20) also for x in S];", "compr.set"))
    a(T("lcompr-parallel-entries", "def r = [lg2(x, y) for x in entries M also for y in range(20)];",
        "compr.map.entries"))
    a(T("scompr-set", "def r = <<lg(x) for x in S>>;", "compr.set"))
    a(T("scompr-map-keys", "def r = <<lg(x) for x in keys M>>;", "compr.map.keys"))
    a(T("scompr-map-values", "def r = <<lg(x) for x in values M>>;", "compr.map.values"))
    a(T("scompr-map-entries", "def r = <<lg(x) for x in entries M>>;", "compr.map.entries"))
    a(T("scompr-product", "def r = <<lg2(x, y) for x in S for y in ['_']>>;", "compr.set"))
    a(T("scompr-parallel", "def r = <<lg2(x, y) for x in S also for y in range(20)>>;", "compr.set"))
    a(T("scompr-result", "println(<<x + '_' for x in S>>);", None))
    a(T("mcompr-set", "def r = <<<lg(x) => 1 for x in S>>>;", "compr.set"))
    a(T("mcompr-map-keys", "def r = <<<lg(x) => 1 for x in keys M>>>;", "compr.map.keys"))
    a(T("mcompr-map-values", "def r = <<<lg(x) => 1 for x in values M>>>;", "compr.map.values"))
    a(T("mcompr-map-entries", "def r = <<<lg(x)[0] => 1 for x in entries M>>>;", "compr.map.entries"))
    a(T("mcompr-result", "println(<<<x => x + '_' for x in S>>>);", None))
    # ---- conversions
    a(T("list-of-set", "println(list(S));", "aslist.set", "aslist.set"))
    a(T("list-of-map", "println(list(M));", "aslist.map", "aslist.map"))
    a(T("set-of-map", "println(set(M));", "asset.map+render"))
    a(T("list-of-set-of-map", "println(list(set(M)));", "asset.map+aslist"))
    a(T("set-of-list-of-set", "println(set(list(S)));", "aslist.set+build+render"))
    a(T("object-of-map", "println(object(M));", "asobject.map", "asobject.map"))
    a(T("map-of-object-of-map", "println(map(object(M)));", "asobject.map+build+render"))
    a(T("map-of-entries", "println(map([e for e in entries M]));", "compr.map.entries+build+render"))
    a(T("set-of-set", "println(set(S));", "render.set"))
    a(T("map-of-map", "println(map(M));", "render.map"))
    a(T("list-plus-set", "println([] + S);", "aslist.set", "aslist.set"))
    # the same content arriving in construction order through a list, pairs, JSON text, append and put
    a(T("set-of-list", "println(set(L));", "render.set"))
    a(T("list-of-set-of-list", "println(list(set(L)));", "aslist.set"))
    a(T("spread-set-of-list", "def t = set(L); println([...t]);", "spread.list.set"))
    a(T("map-of-pairs", "println(map(P));", "render.map"))
    a(T("keys-of-map-of-pairs", "println([k for k in keys map(P)]);", "compr.map.keys"))
    a(T("object-of-map-of-pairs", "println(object(map(P)));", "asobject.map"))
    a(T("json-map", "println(parse_json(J));", "render.map"))
    a(T("json-map-for", "for k in keys parse_json(J) do println(k); end;", "for.map.keys"))
    a(T("json-map-spread", "def t = parse_json(J); println([...t]);", "spread.list.map"))
    a(T("append-loop", "def t = <<>>; for x in L do append(t, x); end; println(t); ", "render.set"))
    a(T("append-loop-for", "def t = <<>>; for x in L do append(t, x); end; for x in t do println(x); end;", "for.set"))
    a(T("put-loop", "def t = <<<>>>; for e in P do put(t, e[0], e[1]); end; println(t);", "render.map"))
    a(T("put-loop-for", "def t = <<<>>>; for e in P do put(t, e[0], e[1]); end; for e in entries t do println(e); end;",
        "for.map.entries"))
    a(T("zip-map-pairs", "println(zip_map([e[0] for e in P], [e[1] for e in P]));", "render.map"))
    a(T("list-minus-set", "println(list(S) - <<'zz'>>);", "aslist.set"))
    # ---- spread
    a(T("spread-call-set", "println(f(...S));", "spread.call.set", "spread.call.set"))
    a(T("spread-call-set-named", "def g(a, b, c, rest...) do println(a); println(b); println(c); println(rest...); end;\n"
        "g(...S);", "spread.call.set", "spread.call.set"))
    a(T("spread-list-set", "println([...S]);", "spread.list.set", "spread.list.set"))
    a(T("spread-list-set-mid", "println(['_', ...S, '_']);", "spread.list.set", "spread.list.set"))
    a(T("spread-method-set", "def o = <*g = fn(self, args...) args...*>; println(o->g(...S));", "spread.call.set"))
    a(T("spread-call-map-positional", "println(f(...MI));", "spread.call.map", "spread.call.map"))
    a(T("spread-call-map-error", "println(f(...M));", "spread.call.map.first", "spread.call.map", solo=True))
    a(T("spread-call-map-named",
        "def g(apple = '', cherry = '', fig = '', kiwi = '', lemon = '', mango = '', peach = '', quince = '') "
        "[apple, cherry, fig, kiwi, lemon, mango, peach, quince];\nprintln(g(...M));", None))
    a(T("spread-list-map", "println([...M]);", "spread.list.map", "spread.list.map"))
    a(T("spread-len", "println(length([...S]));", "spread.list.set+len", parse="int"))
    a(T("spread-set-again", "println(set([...S]));", "spread.list.set+build+render"))
    a(T("spread-set-spread", "def t = set([...S]); println([...t]);", "spread.list.set+build+spread"))
    a(T("spread-sorted", "println(sorted([...S]));", "spread.list.set+sort"))
    a(T("spread-first", "println([...S][0]);", "spread.list.set+first"))
    a(T("apply-set", "println(apply(f, S));", "spread.call.set"))
    # ---- destructuring
    a(T("destr-def-set", "def [a, b, c] = S; println(a); println(b); println(c);", "destr.def.set", "destr.def.set"))
    a(T("destr-assign-set", "def a = 0; def b = 0; def c = 0; [a, b, c] = S; println(a); println(b); println(c);",
        "destr.assign.set", "destr.assign.set"))
    a(T("destr-for-list-of-sets", "for [a, b, c] in [S] do println(a); println(b); println(c); end;",
        "destr.for.list", "destr.for.list"))
    a(T("destr-for-set-of-sets", "for [a, b, c] in <<S>> do println(a); println(b); println(c); end;",
        "destr.for.set", "destr.for.set"))
    a(T("destr-for-map-of-sets", "for [a, b, c] in values <<<1 => S>>> do println(a); println(b); println(c); end;",
        "destr.for.map", "destr.for.map"))
    a(T("destr-for-set-of-pairs", "for [a, b] in <<e for e in entries M>> do println(a + ' ' + b); end;",
        "compr.map.entries+build+for"))
    a(T("destr-for-entries", "for [k, v] in entries M do println(k + ' ' + v); end;", "for.map.entries", "for.map"))
    a(T("spread-call-map-stacktrace",
        "def g(apple = '', cherry = '', fig = '', kiwi = '', lemon = '', mango = '', peach = '', quince = '') "
        "error 'boom';\ng(...M);", None, solo=True))
    a(T("destr-def-more", "def [a, b, c, d, e, u, v, w, z] = S; println([a, b, c, d, e, u, v, w, z]);",
        "destr.def.set.all", "destr.def.set"))
    # ---- rendering
    a(T("println-set", "println(S);", "render.set", "render.set"))
    a(T("print-set", "print(S);", "render.set", "render.set"))
    a(T("string-set", "println(string(S));", "render.set", "render.set"))
    a(T("result-set", "S;", "render.set", "render.set", solo=True))
    a(T("println-map", "println(M);", "render.map", "render.map"))
    a(T("print-map", "print(M);", "render.map", "render.map"))
    a(T("string-map", "println(string(M));", "render.map", "render.map"))
    a(T("result-map", "M;", "render.map", "render.map", solo=True))
    a(T("concat-set", "println('' + string(S) + string(M));", None))
    a(T("interp-set", "println(s('{S} {M}'));", None))
    a(T("nested-list-of-set", "println([S, M]);", None))
    a(T("nested-set-of-sets", "println(<< <<x, 'z'>> for x in S>>);", None))
    a(T("nested-map-of-sets", "println(<<<x => <<x, 'z'>> for x in S>>>);", None))
    a(T("nested-map-set-keys", "println(<<< <<x, 'z'>> => x for x in S>>>);", None))
    a(T("nested-object", "println(<*a = S, b = M*>);", None))
    a(T("error-value-set", "error S;", None, solo=True))
    a(T("error-value-map", "error M;", None, solo=True))
    a(T("ls", "def [a, b] = [1, 2]; println(ls());", None))
    # ---- set arithmetic and natives
    a(T("set-plus-set", "println(S + <<'zz', 'aa'>>); println(list(S + <<'zz', 'aa'>>));", None))
    a(T("set-plus-list", "println(S + ['zz', 'aa']); println(list(S + ['zz', 'aa']));", None))
    a(T("set-plus-elem", "println(S + 'zz'); println(list(S + 'zz'));", None))
    a(T("elem-plus-set", "println('aa' + S); println(list('aa' + S));", None))
    a(T("list-plus-set-2", "println(['zz'] + S);", None))
    a(T("set-minus-set", "println(S - <<'fig', 'kiwi'>>); println(list(S - <<'fig', 'kiwi'>>));", None))
    a(T("set-minus-list", "println(S - ['fig', 'kiwi']); println(list(S - ['fig', 'kiwi']));", None))
    a(T("set-minus-elem", "println(S - 'fig'); println(list(S - 'fig'));", None))
    a(T("sum-values", "println(sum([x for x in values MN]));", "compr.map.values+sum", parse="int"))
    a(T("sum-list-of-map", "println(sum(list(MN)));", "aslist.map+sum", parse="int"))
    a(T("sum-set", "println(sum(set(list(MN))));", None))
    a(T("sorted-set", "println(sorted(S));", None))
    a(T("sorted-list-of-set", "println(sorted(list(S)));", "aslist.set+sort"))
    a(T("sorted-desc", "println(sorted(list(S), cmp = fn(a, b) compare(b, a)));", None))
    # ties under key / cmp: the stable sort keeps the order in which the set (map) was enumerated
    a(T("sorted-set-key-ties", "println(sorted(S, key = fn(x) length(x) % 2));", None))
    a(T("sorted-set-key-const", "println(sorted(S, key = fn(x) 0));", "native.set", "native.set"))
    a(T("sorted-set-cmp-ties", "println(sorted(S, cmp = fn(a, b) compare(length(a) % 3, length(b) % 3)));", None))
    a(T("sorted-map-key-ties", "println(sorted(M, key = fn(x) 0));", "aslist.map", "native.map"))
    a(T("sorted-setlist-key-ties", "println(sorted(list(S), key = fn(x) 0));", None))
    a(T("min-max-key-ties", "println([min(list(S), key = fn(x) 0), max(list(S), key = fn(x) 0)]);", None))
    # reductions that do not commute (OrderOps!Fold = reduce with fn(a, b) b - a), over a set of ints / the values of a map
    a(T("fold-set-of-values", "println(List->reduce(list(set(list(MN))), fn(a, b) b - a));", "aslist.set+fold", parse="int",
        elems="values"))
    a(T("fold-map-values", "println(List->reduce([v for v in values MN], fn(a, b) b - a));", None, parse="int"))
    a(T("fold-strings", "println(List->reduce(S, fn(a, b) a + '/' + b)); println(List->reduce(list(M), fn(a, b) b + '/' + a));",
        None))
    a(T("length-set", "println(length(S) + length(M));", None))
    a(T("append-remove", "def t = <<x for x in S>>; append(t, 'zz'); remove(t, 'fig'); println(t); println(list(t));", None))
    a(T("put-remove-map", "def t = <<<>>>; for e in entries M do put(t, e[0], e[1]); end; remove(t, 'fig'); "
        "println(t); println([k for k in keys t]);", None))
    a(T("zip-list", "println(zip(list(S), list(M)));", None))
    a(T("zip-map", "println(zip_map(list(S), list(M)));", None))
    a(T("equals-compare", "println([S == set(list(S)), compare(S, S), S < M, M == map(M)]);", None))
    a(T("in-set", "println(['fig' in S, 'zz' in S, 'fig' in M, contains(S, 'fig')]);", None))
    a(T("pipe-set", "S !> list() !> println();", "aslist.set"))
    # ---- bundled modules
    for name, call in [
        ("union", "Set->union(S, <<'zz', 'aa'>>)"), ("union-list", "Set->union(list(S), S)"),
        ("intersection", "Set->intersection(S, <<'fig', 'kiwi', 'zz'>>)"), ("diff", "Set->diff(S, <<'fig', 'kiwi'>>)"),
        ("symmetric-diff", "Set->symmetric_diff(S, <<'fig', 'kiwi', 'zz'>>)"),
    ]:
        a(T("set-" + name, f"println({call}); println(list({call}));", None))
    for name, call in [
        ("first", "List->first(S)"), ("first-list", "List->first(list(S))"), ("first-n", "List->first_n(list(S), 3)"),
        ("last", "List->last(list(S))"), ("last-n", "List->last_n(list(S), 3)"), ("rest", "List->rest(list(S))"),
        ("reverse", "List->reverse(S)"), ("reverse-list", "List->reverse(list(S))"),
        ("reduce", "List->reduce(S, fn(a, b) a + b)"), ("reduce-list", "List->reduce(list(S), fn(a, b) a + b)"),
        ("grep", "List->grep(S, //e//)"), ("map-list", "List->map_list(S, fn(x) x + '_')"), ("unique", "List->unique(S)"),
        ("unique-list", "List->unique(list(S) + list(S))"), ("filter", "List->filter(S, fn(x) x > 'c')"),
        ("append-all", "List->append_all([], S)"), ("append-all-set", "list(List->append_all(<<>>, S))"),
        ("append-all-map", "List->append_all([], M)"),
        ("grouped", "List->grouped(list(S), key = fn(x) length(x))"), ("for-each", "List->for_each(S, println)"),
        ("flatten", "List->flatten([S, [S]])"), ("flatten-set", "List->flatten(<<list(S), ['zz']>>)"),
        ("prod", "List->prod(list(MN))"), ("contains", "List->contains(S, 'fig')"), ("find", "List->find(list(S), 'fig')"),
    ]:
        a(T("list-" + name, f"println({call});", None))
    a(T("list-permutations", "println(List->permutations(list(S)));", None, n=3))
    for name, call in [
        ("min", "min(list(S))"), ("max", "max(list(S))"), ("min-set", "min(S)"), ("max-key", "max(list(S), key = fn(x) length(x))"),
        ("any", "any(S, fn(x) x == 'fig')"), ("all", "all(S, fn(x) x > 'a')"), ("pairs", "pairs(list(S))"),
        ("enumerate-map", "enumerate(M)"), ("enumerate-set", "enumerate(S)"), ("enumerate-list", "enumerate(list(S))"),
        ("enumerate-object", "enumerate(object(M))"),
        ("count", "count(M, 'alpha')"), ("count-set", "count(S, 'fig')"), ("chunks", "chunks(list(S), 3)"),
        ("label-data", "label_data(list(S), list(M))"),
        ("map-get", "map_get(M, 'fig', 'none')"), ("map-get-pattern", "map_get_pattern(M, 'xfigx', 'none')"),
        ("sprintf", "sprintf('{0} {1}', S, M)"), ("unwords", "unwords(list(S))"), ("unlines", "unlines(list(S))"),
        ("substitute", "substitute(list(S), 1, S)"), ("if-empty", "if_empty(S, M)"), ("type", "[type(S), type(M)]"),
        ("range-len", "[list(S)[i] for i in range(length(S))]"),
    ]:
        a(T("core-" + name, f"println({call});", None))
    a(T("string-join", "println(String->join(S, ','));", None))
    a(T("string-join-list", "println(String->join(list(S), ','));", "aslist.set"))
    a(T("string-q", "println(String->q(list(S)));", None))
    for name, call in [("mean", "Stat->mean(list(MN))"), ("median", "Stat->median(list(MN))"),
                       ("median-set", "Stat->median(set(list(MN)))"), ("median-low", "Stat->median_low(list(MN))"),
                       ("median-high", "Stat->median_high(list(MN))")]:
        a(T("stat-" + name, f"println({call});", None))
    # ---- random numbers: same seed, same sequence, in every process
    # the numbers themselves are printed (an observation must not be a constant function of what it observes)
    a(T("random-seeded", "Random->set_seed(7); println([Random->random(1000) for i in range(10)]); "
        "println([Random->random() for i in range(5)]); println([Random->random(5, 50) for i in range(5)]);", None))
    # numbers drawn before set_seed differ from process to process by design; what follows set_seed must not
    a(T("random-seed-after-draws", "println([Random->random() < 2, Random->random(10) < 10, Random->random(5, 9) < 9]); "
        "Random->set_seed(7); println([Random->random(1000), Random->random(), Random->random(5, 50), Random->random()]); "
        "Random->set_seed(7); println([Random->random(1000), Random->random()]);", None))
    a(T("random-choice-one", "Random->set_seed(11); println(Random->choice(S));", "aslist.set+choice"))
    a(T("random-choice", "Random->set_seed(11); println([Random->choice(S) for i in range(6)]); "
        "println(Random->choices(S, 4)); println(Random->sample(S, 4)); println(Random->sample(list(M), 3));", None))
    # ---- mixed scalars (strings hash by seed, ints and NULL do not; the order is the language's own `<`)
    for p in MIXED:
        a(T(p + "-println-set", "println(S);", "render.set", pool=p))
        a(T(p + "-for-set", "for x in S do println([x]); end;", "for.set", pool=p))
        a(T(p + "-list-of-set", "println(list(S));", "aslist.set", pool=p))
        a(T(p + "-spread-list-set", "println([...S]);", "spread.list.set", pool=p))
        a(T(p + "-spread-call-set", "println(f(...S));", "spread.call.set", pool=p))
        a(T(p + "-destr-def-set", "def [a, b, c] = S; println([a, b, c]);", "destr.def.set", pool=p))
        a(T(p + "-lcompr-set", "println([x for x in S]);", "compr.set", pool=p))
        a(T(p + "-map-keys", "def t = <<<x => 1 for x in S>>>; println(t); println([k for k in keys t]); "
            "for k in keys t do println([k]); end;", None, pool=p))
        a(T(p + "-sorted", "println(sorted(list(S)));", None, pool=p))
        a(T(p + "-set-plus", "println(S + <<'zz'>>); println(S - <<'fig'>>);", None, pool=p))
        a(T(p + "-println-map", "println(M);", "render.map", pool=p))
        a(T(p + "-for-map-keys", "for k in keys M do println([k]); end;", "for.map.keys", pool=p))
        a(T(p + "-lcompr-map-entries", "println([e for e in entries M]);", "compr.map.entries", pool=p))
        a(T(p + "-spread-list-map", "println([...M]);", "spread.list.map", pool=p))
        a(T(p + "-native-sorted-const", "println(sorted(S, key = fn(x) 0));", "native.set", pool=p))
        a(T(p + "-destr-for", "for [a, b, c] in [S] do println([a, b, c]); end;", "destr.for.list", pool=p))
    # ---- members that render alike (anonymous functions, objects differing in hidden members, ...): the same
    # enumeration paths, the member identified through idof()
    for p, spec in ALIKE.items():
        if spec.get("single"):
            a(T(p + "-lcompr-set", "println([idof(x) for x in S]);", "compr.set", "compr.set", pool=p))
            continue
        a(T(p + "-for-set", "for x in S do println(idof(x)); end;", "for.set", "for.set", pool=p))
        a(T(p + "-lcompr-set", "println([idof(x) for x in S]);", "compr.set", "compr.set", pool=p))
        a(T(p + "-list-of-set", "println([idof(x) for x in list(S)]);", "aslist.set", "aslist.set", pool=p))
        a(T(p + "-spread-list-set", "println([idof(x) for x in [...S]]);", "spread.list.set", "spread.list.set", pool=p))
        a(T(p + "-spread-call-set", "println([idof(x) for x in f(...S)]);", "spread.call.set", "spread.call.set", pool=p))
        a(T(p + "-for-map-keys", "for k in keys M do println(idof(k)); end;", "for.map.keys", "for.map", pool=p))
        a(T(p + "-for-map-values", "for v in values M do println(v); end;", "for.map.values", "for.map", pool=p))
        a(T(p + "-lcompr-map-keys", "println([idof(k) for k in keys M]);", "compr.map.keys", "compr.map.keys", pool=p))
        a(T(p + "-lcompr-map-values", "println([v for v in values M]);", "compr.map.values", "compr.map.values", pool=p))
        a(T(p + "-lcompr-map-entries", "println([[idof(e[0]), e[1]] for e in entries M]);", "compr.map.entries",
            "compr.map.entries", pool=p))
        a(T(p + "-spread-list-map", "println([idof(k) for k in [...M]]);", "spread.list.map", "spread.list.map", pool=p))
        a(T(p + "-set-of-list", "println([idof(x) for x in set(L)]);", "compr.set", pool=p))
        a(T(p + "-sorted-list-of-set", "println([idof(x) for x in sorted(list(S))]);", "aslist.set+sort", pool=p))
        a(T(p + "-spread-set-again", "def t = set([...S]); println([idof(x) for x in [...t]]);",
            "spread.list.set+build+spread", pool=p))
        a(T(p + "-set-ops", "println([idof(x) for x in S + <<F[0]>>]); println([idof(x) for x in S - <<F[0]>>]); "
            "println([idof(x) for x in [F[0]] + S]);", None, pool=p))
        a(T(p + "-natives", "println([idof(x) for x in List->reverse(S)]); println(idof(List->first(S))); "
            "println(idof(min(list(S)))); println(idof(max(list(S)))); println([[e[0], idof(e[1])] for e in enumerate(S)]); "
            "println([idof(x) for x in List->filter(S, fn(y) TRUE)]);", None, pool=p))
        a(T(p + "-random-choice", "Random->set_seed(5); println([idof(Random->choice(S)) for i in range(6)]);", None, pool=p))
        a(T(p + "-twins-set", "println(length(<<S, SR>>));", "member.set.twins", "member.set", pool=p, parse="int"))
        a(T(p + "-twins-map", "def t = map(); t[M] = 1; t[MR] = 2; println(length(t));", "member.map.twins", "member.map",
            pool=p, parse="int"))
        a(T(p + "-destr-assign-set", "def a = 0; def b = 0; def c = 0; [a, b, c] = S; println([idof(a), idof(b), idof(c)]);",
            "destr.assign.set", "destr.assign.set", pool=p))
        a(T(p + "-destr-for-set-of-sets", "for [a, b, c] in [S] do println([idof(a), idof(b), idof(c)]); end;",
            "destr.for.list", "destr.for.list", pool=p))
        # last: def [a, b, c] = S names anonymous functions a, b, c; from then on they no longer render alike
        a(T(p + "-destr-def-set", "def [a, b, c] = S; println([idof(a), idof(b), idof(c)]);", "destr.def.set",
            "destr.def.set", pool=p))
        # def names an anonymous function; a member of a set / key of a map must still be found afterwards
        a(T(p + "-keys-after-def", "def [a, b, c] = S; println([idof(k) for k in keys M]); println([a in S, b in S, c in S]); "
            "for k in keys M do println(M[k]); end;", None, pool=p))
    # ---- round 5: equal collections built in two construction orders (S / SR, M / MR) as members of a set and
    # keys of a map.  Every template prints the number of members the two make (1).
    def twin_forms(a_, b_, short):
        return [
            ("length", f"println(length(<<{a_}, {b_}>>));"),
            ("key", f"def t = map(); t[{a_}] = 1; t[{b_}] = 2; println(length(t));"),
            ("key-literal", f"println(length(<<<[{a_}][0] => 1, [{b_}][0] => 2>>>));"),
            ("in", f"println(if {b_} in <<{a_}>> then 1 else 2);"),
            ("in-map", f"println(if {b_} in <<<[{a_}][0] => 1>>> then 1 else 2);"),
            ("lookup", f"def t = map(); t[{a_}] = 7; println(if t[{b_}, 0] == 7 then 1 else 2);"),
            ("map-get", f"println(if map_get(<<<[{a_}][0] => 7>>>, {b_}, 0) == 7 then 1 else 2);"),
            ("minus", f"println(1 + length(<<{a_}>> - <<{b_}>>));"),
            ("remove", f"def t = <<{a_}>>; remove(t, {b_}); println(1 + length(t));"),
            ("remove-key", f"def t = <<<[{a_}][0] => 1>>>; remove(t, {b_}); println(1 + length(t));"),
            ("unique", f"println(length(List->unique([{a_}, {b_}])));"),
            ("plus", f"println(length(<<{a_}, {b_}>> + <<{b_}>>));"),
            ("union", f"println(length(Set->union(<<{a_}>>, <<{b_}>>)));"),
            ("intersection", f"println(2 - length(Set->intersection(<<{a_}>>, <<{b_}>>)));"),
            ("append", f"def t = <<>>; append(t, {a_}); append(t, {b_}); println(length(t));"),
            ("convert", f"println(length(set([{a_}, {b_}])));"),
            ("scompr", f"println(length(<<x for x in [{a_}, {b_}]>>));"),
            ("mcompr", f"println(length(<<<x => 1 for x in [{a_}, {b_}]>>>));"),
            ("zip-map", f"println(length(zip_map([{a_}, {b_}], [1, 2])));"),
            ("counts", f"def t = map(); for x in [{a_}, {b_}, {a_}] do t[x] = t[x, 0] + 1; end; println(length(t));"),
            ("inside-list", f"println(length(<<[{a_}], [{b_}]>>));"),
            ("inside-map", f"println(length(<< <<<1 => {a_}>>>, <<<1 => {b_}>>> >>));"),
            ("inside-set", f"println(length(<< <<{a_}>>, <<{b_}>> >>));"),
            ("inside-object", f"println(length(<< <*a = {a_}*>, <*a = {b_}*> >>));"),
        ]
    for kind, a_, b_ in (("set", "S", "SR"), ("map", "M", "MR")):
        for name, body in twin_forms(a_, b_, kind):
            a(T(f"twins-{kind}-{name}", body, f"member.{kind}.twins", f"member.{kind}", parse="int"))
    a(T("twins-rendered", "println(<<S, SR>>); println(<<<[M][0] => 1, [MR][0] => 2>>>); println([S == SR, M == MR, compare(S, SR), "
        "compare(M, MR)]);", None))
    for p in MIXED:
        a(T(p + "-twins-set", "println(length(<<S, SR>>));", "member.set.twins", pool=p, parse="int"))
        a(T(p + "-twins-set-in", "println(if SR in <<<[S][0] => 1>>> then 1 else 2);", "member.set.twins", pool=p, parse="int"))
        a(T(p + "-twins-map", "def t = map(); t[M] = 1; t[MR] = 2; println(length(t));", "member.map.twins", pool=p, parse="int"))
    # ---- round 5: enumerations of NAMES (module objects, import lists, ls, object members).  Oracle 1 only.
    for name, body, prog, site in [
        ("module-string", "require Set as X; println(string(X)); println(X);", "names.module", "names.module"),
        ("module-ls", "require List as X; println(ls(X)); println(ls('X'));", "names.module", "names.module"),
        ("module-keys", "require String as X; for name in keys X do println(name); end; println([n for n in keys X]); "
                        "println([e[0] for e in entries X]); println([string(v) for v in values X]);", "names.module",
         "names.module"),
        ("module-default-name", "require Math; println(ls(Math)); println(length(Math));", "names.module", "names.module"),
        ("module-natives", "require Stat as X; println(enumerate(X)); println(map(X)); println(list(X)); println(set(X)); "
                           "println(object(map(X)));", "names.module", "names.module"),
        ("module-of-user", "require zmod as Z; println(Z); println(ls(Z)); println([k for k in keys Z]); println(Z->mango(1)); "
                           "require zmod; println(zmod);", "names.module", "names.module"),
        ("module-of-user-nested", "require zouter as Z; println(Z); println(ls(Z)); println(Z->both());", "names.module", None),
        ("module-as-proto", "require zmod as Z; def c = <*_proto_ = Z, own = 1*>; println([c->kiwi, c->quince]); println(c); "
                            "println(new(Z));", None, None),
        ("import-one-alias", "require Math import [sin as f, cos as f, sqrt as g, abs as g]; println([f(0), g(0 - 4)]);",
         "names.import.last", "names.import"),
        ("import-one-alias-many", "require List import [first as h, last as h, rest as h, reverse as h, unique as h, "
                                  "flatten as h]; println(h([3, 1, 2, 1]));", "names.import.last", "names.import"),
        ("import-one-alias-user", "require zmod import [kiwi as w, quince as w, cherry as w, peach as w, lemon as w, sqrt as w, "
                                  "first as w]; println(w);", "names.import.last", "names.import"),
        ("import-distinct-ls", "require zmod import [kiwi, quince as q2, peach, lemon as l2]; "
                               "println([n for n in ls() if n in ['kiwi', 'q2', 'peach', 'l2', 'quince', 'lemon']]);",
         "names.import+ls", None),
        ("unqualified-over-existing", "def first = 'mine'; def sqrt = 'mine'; require List unqualified; require Math unqualified; "
                                      "println([first([7, 8]), sqrt(16), type(last)]);", "names.import.last", "names.import"),
        ("unqualified-over-existing-user", "def sqrt = 'outer'; def kiwi = 'outer'; require Math unqualified; "
                                           "require zmod unqualified; println([sqrt, kiwi, first, apple(1)]);",
         "names.import.last", "names.import"),
        ("unqualified-three", "require zmod unqualified; require List unqualified; require Math unqualified; "
                              "println([type(sqrt), type(first), kiwi]);", "names.import.last", "names.import"),
        ("unqualified-ls", "require Set unqualified; require zmod unqualified; println(ls());", "names.import+ls", None),
        ("ls-local", "def zz = 1; def aa = 2; def [mm, bb] = [3, 4]; def ff(x) x; println(ls());", "names.ls", "names.ls"),
        ("object-members", "def o = <*zeta = 1, alpha = 2, kiwi = 3, fig = 4, mango = 5, beta = 6*>; println(o); "
                           "println([k for k in keys o]); for k in keys o do println(k); end; println(ls(o)); "
                           "println([e for e in entries o]); println(map(o)); println(enumerate(o));", "names.object",
         "names.object"),
        ("object-inherited", "def o = <*zeta = 1, alpha = 2, kiwi = 3*>; def c = <*_proto_ = o, own = 1, alpha = 7*>; println(c); "
                             "println(ls(c)); println([k for k in keys c]); println([c->zeta, c->alpha]);", "names.object",
         "names.object"),
        ("object-of-map", "def o = object(M); println(ls(o)); println([k for k in keys o]); println(o);", "names.object", None),
    ]:
        a(T("names-" + name, body, prog, site, oracle2=False))
    # ---- large collections (round 4): a site that switches to the host order above a size threshold
    for p in BIG:
        for name, body, prog, site in [
            ("println-set", "println(S);", "render.set", "render.set"),
            ("string-set", "println('' + string(S));", "render.set", "render.set"),
            ("for-set", "for x in S do println([x]); end;", "for.set", "for.set"),
            ("list-of-set", "println(list(S));", "aslist.set", "aslist.set"),
            ("list-plus-set", "println([] + S);", "aslist.set", "aslist.set"),
            ("spread-list-set", "println([...S]);", "spread.list.set", "spread.list.set"),
            ("spread-call-set", "println(f(...S));", "spread.call.set", "spread.call.set"),
            ("destr-def-set", "def [a, b, c] = S; println([a, b, c]);", "destr.def.set", "destr.def.set"),
            ("destr-assign-set", "def a = 0; def b = 0; def c = 0; [a, b, c] = S; println([a, b, c]);", "destr.assign.set",
             "destr.assign.set"),
            ("destr-for", "for [a, b, c] in [S] do println([a, b, c]); end;", "destr.for.list", "destr.for.list"),
            ("lcompr-set", "println([x for x in S]);", "compr.set", "compr.set"),
            ("scompr-set", "def r = <<lg([x]) for x in S>>;", "compr.set", None),
            ("first-of-spread", "println([...S][0]);", "spread.list.set+first", None),
            ("native-sorted-const", "println(sorted(S, key = fn(x) 0));", "native.set", "native.set"),
            ("println-map", "println(M);", "render.map", "render.map"),
            ("for-map-keys", "for k in keys M do println([k]); end;", "for.map.keys", "for.map"),
            ("for-map-values", "for v in values M do println(v); end;", "for.map.values", "for.map"),
            ("for-map-entries", "for e in entries M do println(e); end;", "for.map.entries", "for.map"),
            ("lcompr-map-keys", "println([k for k in keys M]);", "compr.map.keys", "compr.map.keys"),
            ("lcompr-map-values", "println([v for v in values M]);", "compr.map.values", "compr.map.values"),
            ("lcompr-map-entries", "println([e for e in entries M]);", "compr.map.entries", "compr.map.entries"),
            ("spread-list-map", "println([...M]);", "spread.list.map", "spread.list.map"),
            ("list-of-map", "println(list(M));", "aslist.map", "aslist.map"),
            ("set-of-map", "println(set(M));", "asset.map+render", None),
            ("object-of-map", "println(object(M));", "asobject.map", "asobject.map"),
            ("native-sorted-map", "println(sorted(M, key = fn(x) 0));", "aslist.map", "native.map"),
            ("nested", "println([<<S>>, [M], <<<1 => S>>>, <*a = S*>]);", None, None),
            ("set-ops", "println(S + <<0>>); println(S - <<0>>); println(list(S + [0]));", None, None),
            ("natives", "println([List->first(S), min(S), max(S), List->first(List->reverse(S)), length(S), "
                        "List->first(enumerate(S)), List->first(List->filter(S, fn(y) TRUE))]); "
                        "Random->set_seed(5); println([Random->choice(S) for i in range(4)]);", None, None),
            ("join", "println(String->join([string(x) for x in S], ','));", None, None),
            ("twins-set", "println(length(<<S, SR>>));", "member.set.twins", "member.set"),
            ("twins-map", "def t = map(); t[M] = 1; t[MR] = 2; println(length(t));", "member.map.twins", "member.map"),
        ]:
            a(T(f"{p}-{name}", body, prog, site, pool=p, parse="int" if name.startswith("twins-") else "tokens"))
    # an uncaught error below a call that was handed the large set and map: what ckl.run prints (stack-trace lines)
    a(T("big120s-uncaught-trace", "def g(group, m, limit) do if length(group) > limit then error 'boom'; return TRUE; end;\n"
        "g(S, M, 100);", None, None, pool="big120s", solo=True))
    a(T("big1100i-uncaught-trace", "def g(group, m, limit) do if length(group) > limit then error 'boom'; return TRUE; end;\n"
        "g(S, M, 100);", None, None, pool="big1100i", solo=True))
    # two members only (the smallest case)
    a(T("lambda-two-lcompr-set", "println([idof(x) for x in S]);", "compr.set", "compr.set", pool="lambda", n=2))
    a(T("hidden-two-for-set", "for x in S do println(idof(x)); end;", "for.set", "for.set", pool="hidden", n=2))
    a(T("hidden-two-destr-def-set", "def [a, b] = S; println([idof(a), idof(b)]);", "destr.def.set.all", "destr.def.set",
        pool="hidden", n=2))
    ids = [t.tid for t in ts]
    assert len(ids) == len(set(ids)), [i for i in ids if ids.count(i) > 1]
    return ts


# ---------------------------------------------------------------- batches
class Batch:
    """Templates that share one script: the same elements, the same
    construction orders, one process per (order, hash seed, mode)."""

    def __init__(self, bid, ts, pool, elems, orders, tokens, rankable, solo=False):
        self.bid = bid
        self.ts = ts
        self.pool = pool
        self.elems = elems          # ranks of the base elements
        self.orders = orders        # [(name, [rank or pool index, ...])] construction orders
        self.tokens = tokens        # rendered text -> int token
        self.rankable = rankable    # False: the language's `<` is not a strict total order on this pool
        self.solo = solo
        self.words = {}             # mixed pools: pool index -> the word stored under that member in M

    def prelude(self, order):
        lines = [PRELUDE.rstrip("\n")]
        rev = list(reversed(order))      # round 5: SR / MR = the same set / map, built in the reverse order
        if self.pool == "str":
            lines.append("def S = <<" + ", ".join(f"'{KEYW[r - 1]}'" for r in order) + ">>;")
            lines.append("def M = <<<" + ", ".join(f"'{KEYW[r - 1]}' => '{VALW[val_of(r) - 101]}'" for r in order) + ">>>;")
            lines.append("def SR = <<" + ", ".join(f"'{KEYW[r - 1]}'" for r in rev) + ">>;")
            lines.append("def MR = <<<" + ", ".join(f"'{KEYW[r - 1]}' => '{VALW[val_of(r) - 101]}'" for r in rev) + ">>>;")
            lines.append("def MI = <<<" + ", ".join(f"{r * 10} => '{VALW[val_of(r) - 101]}'" for r in order) + ">>>;")
            lines.append("def MN = <<<" + ", ".join(f"'{KEYW[r - 1]}' => {val_of(r)}" for r in order) + ">>>;")
            lines.append("def L = [" + ", ".join(f"'{KEYW[r - 1]}'" for r in order) + "];")
            lines.append("def P = [" + ", ".join(f"['{KEYW[r - 1]}', '{VALW[val_of(r) - 101]}']" for r in order) + "];")
            lines.append("def J = '{" + ", ".join(f'"{KEYW[r - 1]}": "{VALW[val_of(r) - 101]}"' for r in order) + "}';")
        elif self.pool in ALIKE:
            spec = ALIKE[self.pool]
            ranks = sorted(self.elems)                       # creation order = rank order, whatever `order` is
            at = {r: i for i, r in enumerate(ranks)}
            word = lambda r: KEYW[(r - ALIKE_BASE if r > ALIKE_BASE else r) - 1]  # noqa: E731
            src = lambda r: spec["elem"](word(r)) if r > ALIKE_BASE else f"'{word(r)}'"  # noqa: E731
            if spec["pre"]:
                lines.append(spec["pre"].rstrip("\n"))
            lines.append("def F = [" + ", ".join(src(r) for r in ranks) + "];")
            lines.append(f"def idof(x) {spec['idof']};")
            lines.append("def S = <<" + ", ".join(f"F[{at[r]}]" for r in order) + ">>;")
            if not spec.get("single"):
                lines.append("def M = <<<" + ", ".join(f"F[{at[r]}] => '{VALW[val_of(r) - 101]}'" for r in order) + ">>>;")
                lines.append("def L = [" + ", ".join(f"F[{at[r]}]" for r in order) + "];")
                lines.append("def SR = <<" + ", ".join(f"F[{at[r]}]" for r in rev) + ">>;")
                lines.append("def MR = <<<" + ", ".join(f"F[{at[r]}] => '{VALW[val_of(r) - 101]}'" for r in rev) + ">>>;")
        elif self.pool in BIG:
            mem = big_members(self.pool)
            lines.append("def S = <<" + ", ".join(mem[r][0] for r in order) + ">>;")
            lines.append("def M = <<<" + ", ".join(f"{mem[r][0]} => '{self.words[r]}'" for r in order) + ">>>;")
            lines.append("def SR = <<" + ", ".join(mem[r][0] for r in rev) + ">>;")
            lines.append("def MR = <<<" + ", ".join(f"{mem[r][0]} => '{self.words[r]}'" for r in rev) + ">>>;")
        else:
            pool = MIXED[self.pool]
            lines.append("def S = <<" + ", ".join(pool[r][0] for r in order) + ">>;")
            lines.append("def M = <<<" + ", ".join(f"{map_key(pool[r][0])} => '{self.words[r]}'" for r in order) + ">>>;")
            lines.append("def SR = <<" + ", ".join(pool[r][0] for r in rev) + ">>;")
            lines.append("def MR = <<<" + ", ".join(f"{map_key(pool[r][0])} => '{self.words[r]}'" for r in rev) + ">>>;")
        return "\n".join(lines) + "\n"

    def script(self, order):
        out = [self.prelude(order)]
        if self.solo:
            out.append(self.ts[0].body + "\n")
        else:
            for t in self.ts:
                out.append(f"println(''); println('@@T {t.tid}');\ndo\n{t.body}\ncatch all println('@@CAUGHT');\nend;\n")
            out.append(END_MARK)
        return "".join(out)

    def solo_of(self, t):
        b = Batch(f"{self.bid}/{t.tid}", [t], self.pool, self.elems, self.orders, self.tokens, self.rankable, t.solo)
        b.words = self.words
        b.light = getattr(self, "light", False)
        return b


END_MARK = "println(''); println('@@END');\n"


class Carrier:
    """Several batches run in one process, their scripts one after the other
    (every batch defines its own F, S, M, L ... again; a top-level def may be
    repeated).  Saves interpreter starts; a crash inside one section cuts off
    the later ones, which are then re-run alone like within a batch."""

    def __init__(self, bid, members):
        self.bid = bid
        self.members = members
        self.solo = False
        names = []
        for m in members:
            for on, _ in m.orders:
                if on not in names:
                    names.append(on)
        self.orders = [(on, on) for on in names]

    def script(self, oname):
        out = [PRELUDE]
        for m in self.members:
            order = dict(m.orders).get(oname)
            if order is None:
                continue                     # a two-member batch has two construction orders only
            text = m.script(order)
            assert text.startswith(PRELUDE) and text.endswith(END_MARK)
            out.append(text[len(PRELUDE):-len(END_MARK)])
        out.append(END_MARK)
        return "".join(out)


def carriers(batches):
    """group the batches into processes"""
    alike = [b for b in batches if b.pool in ALIKE and not b.solo]
    misc = [b for b in batches if not b.solo and (b.pool in MIXED or (b.pool == "str" and len(b.ts) == 1))]
    units = [b for b in batches if b not in alike and b not in misc]
    for name, group in (("alike", alike), ("misc", misc)):
        by_rep = {}
        for b in group:                      # a template occurs once per repetition: one carrier per repetition
            m = re.match(r"r\d+", b.bid)
            by_rep.setdefault(m.group(0) if m else b.bid, []).append(b)
        for rep, members in sorted(by_rep.items()):
            tids = [t.tid for b in members for t in b.ts]
            if len(members) > 1 and len(tids) == len(set(tids)):
                units.append(Carrier(f"carrier-{name}-{rep}", members))
            else:
                units += members
    return units


_TOTAL = {}
_WHY = {}


def mixed_ranks(pool):
    """Rank the pool by the language's own `<`, asked of the interpreter in
    this process (no sets involved); None if `<` is not a strict total order
    on the pool."""
    if pool in _TOTAL:
        return _TOTAL[pool]
    import_ckl()
    from ckl.interpreter import Interpreter
    it = Interpreter(True, False)
    lits = [x[0] for x in MIXED[pool]]
    n = len(lits)
    res = None
    try:
        lt = [[bool(it.interpret(f"{lits[i]} < {lits[j]}", "c12").value) for j in range(n)] for i in range(n)]
        eq = [[bool(it.interpret(f"{lits[i]} == {lits[j]}", "c12").value) for j in range(n)] for i in range(n)]
        shown = [str(it.interpret(f"[{lits[i]}]", "c12"))[1:-1] in (MIXED[pool][i][1], "'" + MIXED[pool][i][1] + "'")
                 for i in range(n)]
    except Exception as e:          # the order cannot even be asked: no ranks, the runs are still compared with each other
        _WHY[pool] = f"asking the interpreter failed: {type(e).__name__}"
        _TOTAL[pool] = None
        return None
    ok = all(not lt[i][i] for i in range(n))
    ok = ok and all(lt[i][j] != lt[j][i] for i in range(n) for j in range(n) if i != j)
    ok = ok and all(not (lt[i][j] and lt[j][k]) or lt[i][k] for i in range(n) for j in range(n) for k in range(n))
    if not ok:
        ties = [f"{lits[i]} ~ {lits[j]}" for i in range(n) for j in range(i + 1, n) if lt[i][j] == lt[j][i]]
        _WHY[pool] = "`<` is not a strict total order" + (f"; neither or both less: {ties[:4]}" if ties else " (a cycle)")
    elif any(eq[i][j] for i in range(n) for j in range(n) if i != j):
        ok = False                  # two members are equal: the sets would differ in size with the construction order
        _WHY[pool] = "two different literals are equal"
    elif not all(shown):
        ok = False                  # the tokens would not be found in the output
        _WHY[pool] = "a member is not rendered as expected"
    if ok:
        res = [sum(1 for j in range(n) if lt[j][i]) + 1 for i in range(n)]     # rank of pool[i]
    _TOTAL[pool] = res
    return res


def alike_tokens(elems):
    tokens = {KEYW[(r - ALIKE_BASE if r > ALIKE_BASE else r) - 1]: r for r in elems}
    tokens.update({VALW[val_of(r) - 101]: val_of(r) for r in elems})
    return tokens


def orders_of(base, rng, norders):
    orders = [("asc", sorted(base)), ("desc", sorted(base, reverse=True))]
    seen = {tuple(o) for _, o in orders}
    k = 0
    norders = min(norders, math.factorial(len(base)))
    while len(orders) < norders:
        o = list(base)
        rng.shuffle(o)
        if tuple(o) not in seen:
            seen.add(tuple(o))
            orders.append((f"shuf{k}", o))
            k += 1
    return orders[:norders]


def make_batch(bid, ts, pool, rng, norders, n=None):
    if pool == "str":
        n = n or rng.choice([6, 7, 8])
        elems = sorted(rng.sample(range(1, 9), n))
        tokens = {KEYW[r - 1]: r for r in elems}
        tokens.update({VALW[val_of(r) - 101]: val_of(r) for r in elems})
        return Batch(bid, ts, pool, elems, orders_of(elems, rng, norders), tokens, True)
    if pool in ALIKE:
        n = n or rng.choice([3, 4, 5, 6])
        words = sorted(rng.sample(range(1, 9), n))
        nplain = rng.randint(1, n - 2) if ALIKE[pool].get("mixed") else 0
        plain = set(rng.sample(words, nplain))
        elems = sorted(w if w in plain else ALIKE_BASE + w for w in words)
        return Batch(bid, ts, pool, elems, orders_of(elems, rng, norders), alike_tokens(elems), True)
    if pool in BIG:
        mem = big_members(pool)
        base = list(range(len(mem)))                  # index r = member of rank r + 1 = element BIG_BASE + r + 1
        tokens = {m[1]: BIG_BASE + r + 1 for r, m in enumerate(mem)}
        tokens.update({w: 100 + i for i, w in enumerate(BIGVALW)})
        b = Batch(bid, ts, pool, [BIG_BASE + r + 1 for r in base], orders_of(base, rng, norders), tokens, big_rankable(pool))
        b.light = len(mem) > 500
        b.words = {r: BIGVALW[val_of(BIG_BASE + r + 1) - 100] for r in base}
        return b
    pl = MIXED[pool]
    ranks = mixed_ranks(pool)
    base = list(range(len(pl)))                       # indices into the pool
    if n and n < len(base):                           # a subset (call channel: 6 members keep permutations() small)
        if pool == "summix":                          # two numbers, four members sum() cannot digest
            base = sorted(rng.sample(base[:4], 2) + rng.sample(base[4:], n - 2))
        else:
            base = sorted(rng.sample(base, n))
    band = NEAR_BASE if pool in NEAR else 0           # near-duplicates are the elements above OrderOps!NearBase
    elem = {i: band + (ranks[i] if ranks else i + 1) for i in base}
    tokens = {pl[i][1]: elem[i] for i in base}
    tokens.update({VALW[val_of(e) - 101]: val_of(e) for e in elem.values()})
    b = Batch(bid, ts, pool, sorted(elem.values()), orders_of(base, rng, norders), tokens, ranks is not None)
    b.words = {i: VALW[val_of(elem[i]) - 101] for i in base}
    return b


def make_batches(ts, rng, norders, nstr, reps):
    """Group the templates: string-pool templates into nstr scripts per
    repetition (each with its own element subset), one script per mixed pool,
    solo templates alone."""
    out = []
    for rep in range(reps):
        strs = [t for t in ts if t.pool == "str" and not t.solo and not t.n]
        groups = [strs[i::nstr] for i in range(nstr)]
        for gi, g in enumerate(groups):
            out.append(make_batch(f"r{rep}b{gi}", g, "str", rng, norders, n=(6, 7, 8)[(gi + rep) % 3]))
        for t in ts:
            if t.pool == "str" and (t.solo or t.n):
                b = make_batch(f"r{rep}s-{t.tid}", [t], "str", rng, norders, n=t.n)
                b.solo = t.solo
                out.append(b)
        if rep == 0:
            for p in MIXED:
                g = [t for t in ts if t.pool == p]
                out.append(make_batch(f"r{rep}m-{p}", g, p, rng, norders))
        if rep == 0:
            for p in BIG:
                g = [t for t in ts if t.pool == p and not t.solo]
                out.append(make_batch(f"r{rep}g-{p}", g, p, rng, norders))
                for t in ts:
                    if t.pool == p and t.solo:
                        b = make_batch(f"r{rep}g-{t.tid}", [t], p, rng, norders)
                        b.solo = True
                        out.append(b)
        for pi, p in enumerate(ALIKE):
            g = [t for t in ts if t.pool == p and not t.n]
            out.append(make_batch(f"r{rep}a-{p}", g, p, rng, norders, n=(3, 4, 5, 6)[(pi + rep) % 4]))
            for t in ts:
                if t.pool == p and t.n:
                    out.append(make_batch(f"r{rep}a-{t.tid}", [t], p, rng, norders, n=t.n))
    return out


_TOKEN_RE = {}


_WORD = re.compile(r"[A-Za-z0-9_]+")


def tokenize(tokens, text):
    if len(tokens) > 100:            # the large pools: members are single words / numbers
        return [tokens[w] for w in _WORD.findall(text) if w in tokens]
    key = tuple(sorted(tokens))
    rx = _TOKEN_RE.get(key)
    if rx is None:
        alts = sorted(tokens, key=lambda s: (-len(s), s))
        rx = re.compile(r"(?<![\w.\-])(?:" + "|".join(re.escape(a_) for a_ in alts) + r")(?![\w.])")
        _TOKEN_RE[key] = rx
    return [tokens[m.group(0)] for m in rx.finditer(text)]


# ---------------------------------------------------------------- execution
def run_script(workdir, seed, legacy, timeout=300):
    env = dict(os.environ)
    env["PYTHONPATH"] = os.path.join(REPO, "src")
    env["PYTHONHASHSEED"] = str(seed)
    env.pop("PYTHONSTARTUP", None)
    cmd = [PY, "-m", "ckl.run", "-s", "-m", "."] + (["-l"] if legacy else []) + ["t.ckl"]
    for attempt in (0, 1):
        try:
            p = subprocess.run(cmd, cwd=workdir, env=env, stdout=subprocess.PIPE, stderr=subprocess.PIPE,
                               timeout=timeout, text=True, encoding="utf-8", errors="replace")
            return (p.returncode, p.stdout, p.stderr)
        except subprocess.TimeoutExpired:
            if attempt == 1:
                raise MachineryError(f"script timed out twice in {workdir}")
    return None


def execute(batches, seeds, legacy_seeds, workers=16):
    """-> {(bid, legacy): {(order name, seed): (rc, out, err)}}, number of processes"""
    root = tempfile.mkdtemp(prefix="c12-")
    try:
        jobs = []
        for bi, b in enumerate(batches):
            for oname, order in b.orders:
                d = os.path.join(root, str(bi), oname)
                os.makedirs(d)
                with open(os.path.join(d, "t.ckl"), "w", encoding="utf-8") as f:
                    f.write(b.script(order))
                for fname, text in MODULE_FILES.items():
                    with open(os.path.join(d, fname), "w", encoding="utf-8") as f:
                        f.write(text)
                oi = [on for on, _ in b.orders].index(oname)
                light = getattr(b, "light", False)     # 1 100 members: every seed on one order, the other orders once
                for sd in (seeds if not light or oi == 0 else seeds[oi:oi + 1]):
                    jobs.append((b.bid, False, oname, sd, d))
                for sd in (legacy_seeds if not light else legacy_seeds[:1] if oi == 1 else []):
                    jobs.append((b.bid, True, oname, sd, d))
        res = {}
        with ThreadPoolExecutor(max_workers=workers) as ex:
            outs = ex.map(lambda j: run_script(j[4], j[3], j[1]), jobs)
            for j, o in zip(jobs, outs):
                res.setdefault((j[0], j[1]), {})[(j[2], j[3])] = o
        return res, len(jobs)
    finally:
        shutil.rmtree(root, ignore_errors=True)


_MARK = re.compile(r"^@@(T [^\n]*|END)\n", re.M)


def split_sections(b, o):
    """One run of a batch -> {tid: (text, stderr, rc)} for the templates whose
    section is complete or ended the process; the others are missing."""
    rc, out, err = o
    if b.solo:
        return {b.ts[0].tid: (out, err, rc)}
    marks = list(_MARK.finditer(out))
    res = {}
    for i, m in enumerate(marks):
        name = m.group(1)
        if name == "END":
            continue
        tid = name[2:]
        last = i + 1 >= len(marks)
        text = out[m.end():] if last else out[m.end():marks[i + 1].start()]
        if not last:
            if text.endswith("\n"):
                text = text[:-1]            # the println('') in front of the next marker
            res[tid] = (text, "", 0)
        else:
            res[tid] = (text, err, rc)      # the process ended inside this section
    return res


def _collect(units, results, obs):
    """sort the sections of every run to their templates; -> {(tid, bid): batch} of the templates whose section
    is missing in some run (cut off by a crash of an earlier section)"""
    by_unit = {u.bid: u for u in units}
    missing = {}
    for (ubid, legacy), runs in results.items():
        u = by_unit[ubid]
        for b in (u.members if isinstance(u, Carrier) else [u]):
            names = {on for on, _ in b.orders}
            want = [t.tid for t in b.ts]
            for rk, o in runs.items():
                if rk[0] not in names:
                    continue
                secs = split_sections(b, o)
                for tid in want:
                    if tid in secs:
                        obs.setdefault((tid, b.bid, legacy), {})[rk] = secs[tid]
                    elif len(b.ts) == 1 and not isinstance(u, Carrier):
                        # alone in its process and not even the marker: the script as a whole failed
                        obs.setdefault((tid, b.bid, legacy), {})[rk] = (o[1], o[2], o[0])
                    else:
                        missing[(tid, b.bid)] = b
    for (tid, bid) in missing:
        for legacy in (False, True):
            obs.pop((tid, bid, legacy), None)
    return missing


def observe(batches, seeds, legacy_seeds):
    """Run everything; -> {(tid, bid, legacy): {(order, seed): (text, err, rc)}},
    {(tid, bid): batch}, processes.  Templates hidden by a crash of an earlier
    one are run again: first together with the others of their batch that
    were cut off, what is still hidden after that alone."""
    obs = {}
    owner = {}
    nproc = 0
    cut = set()
    units = carriers(batches)
    for rnd in (0, 1, 2):
        results, n = execute(units, seeds, legacy_seeds)
        nproc += n
        missing = _collect(units, results, obs)
        for u in units:
            for b in (u.members if isinstance(u, Carrier) else [u]):
                for t in b.ts:
                    if (t.tid, b.bid) not in missing:
                        owner[(t.tid, b.bid)] = b
        if not missing:
            break
        cut |= {tid for tid, _ in missing}
        if rnd == 2:
            raise MachineryError(f"templates still cut off when run alone: {sorted(missing)[:5]}")
        units = []
        by_batch = {}
        for (tid, bid), b in sorted(missing.items()):
            by_batch.setdefault(bid, (b, []))
        for bid, (b, ts) in by_batch.items():           # in the order of the batch (def renames functions: order matters)
            ts += [t for t in b.ts if (t.tid, bid) in missing]
        for bid, (b, ts) in sorted(by_batch.items()):
            if rnd == 0 and len(ts) > 1:
                rest = Batch(bid + "/rest", ts, b.pool, b.elems, b.orders, b.tokens, b.rankable, False)
                rest.words = b.words
                rest.light = getattr(b, "light", False)
                units.append(rest)
            else:
                units += [b.solo_of(t) for t in ts]
    return obs, owner, nproc, sorted(cut)


# ---------------------------------------------------------------- the model
def tlc_programs(run, res):
    """Order.tla with the table the property states (every site sorted):
    OrderIndependence must hold; exports the program table."""
    run.add_tlc(res, "Order: every site sorted, total relation, exact strings; OrderIndependence over all permutations of <= 4 "
                     "of the elements of " + res.cfg + " (near-duplicate strings, which are plain elements under this table, "
                     "3 that render alike; thorough: 2 plain ones more)")
    progs = res.records("PROGS")
    if not progs:
        raise MachineryError("Order.tla exported no program table")
    if res.records("VARY"):
        raise MachineryError("Order.tla: an observation varies although every site is sorted")
    return {p["id"]: p for p in progs[0]}


def tlc_predict(run, table, label):
    """Order.tla with a given Site table -> {program id: witness} for the
    programs whose observation can differ from the sorted one."""
    d = tempfile.mkdtemp(prefix="c12-site-")
    path = os.path.join(d, "site.json")
    try:
        with open(path, "w") as f:
            json.dump(table, f)
        res = run_tlc("Order", "Order_observed", env={"SITE_FILE": path}, coverage=False, timeout=1800)
    finally:
        shutil.rmtree(d, ignore_errors=True)
    return vary_of(run, res, label)


def vary_of(run, res, label):
    run.add_tlc(res, label)
    vary = {"plain": {}, "alike": {}, "near": {}, "big": {}}
    for v in res.records("VARY"):
        # a witness whose collection holds two members that render alike (two near-duplicate strings) says nothing
        # about plain collections
        folds = [NEAR_BASE + 1 + 2 * ((e - NEAR_BASE - 1) // 2) for e in v["ord"] if NEAR_BASE < e <= ALIKE_BASE]
        cls = ("alike" if sum(1 for e in v["ord"] if ALIKE_BASE < e < 100) >= 2
               else "near" if len(folds) != len(set(folds)) else "plain")
        if cls == "plain" and len(v["ord"]) > BIG_ABOVE:
            # a collection of plain members above the model's size threshold (OrderOps!BigAbove)
            cls = "big"
        if v["prog"] not in vary[cls] or len(v["ord"]) < len(vary[cls][v["prog"]]["ord"]):
            vary[cls][v["prog"]] = v
    return vary


def validate_traces(run, lines):
    d = tempfile.mkdtemp(prefix="c12-trace-")
    path = os.path.join(d, "trace.ndjson")
    try:
        with open(path, "w") as f:
            for e in lines:
                f.write(json.dumps(e) + "\n")
        res = run_tlc("Order_Trace", workers=1, env={"TRACE_FILE": path}, timeout=1800)
    finally:
        shutil.rmtree(d, ignore_errors=True)
    run.add_tlc(res, "Order_Trace validation of recorded observations")
    done = res.records("DONE")
    if not done or done[-1]["n"] != len(lines):
        raise MachineryError("trace validation did not consume the whole trace")
    return {b["l"] - 1: b for b in res.records("BAD")}


# ---------------------------------------------------------------- verdicts
def to_ints(b, t, o):
    """(text, stderr, rc) -> int sequence for the trace spec."""
    text = o[0]
    if t.parse == "int":
        s = text.strip()
        return [int(s)] if re.fullmatch(r"-?\d{1,9}", s) else [-999999]
    return tokenize(b.tokens, text)


def model_elems(b, t):
    """the content of the model collection the template enumerates"""
    if t.elems == "values":
        return sorted(val_of(r) for r in b.elems)
    return b.elems


def judge(run, obs, owner, extra=()):
    """Apply both oracles (identical outcomes; sorted enumeration).  extra: trace lines of the call channel
    [(line, ...)], validated in the same TLC run; the rejected ones are returned with the model's expectation."""
    varying = {}          # tid -> [(bid, legacy, distinct)]
    trace_lines = []
    trace_meta = []
    big_lines = {}        # large collections: the same observation of the same template (legacy mode) is validated once
    for (tid, bid, legacy), runs in sorted(obs.items()):
        b = owner[(tid, bid)]
        t = [t for t in b.ts if t.tid == tid][0]
        distinct = {}
        for rk, o in sorted(runs.items()):
            distinct.setdefault(o, []).append(rk)
        if len(distinct) > 1:
            varying.setdefault(tid, []).append((b, legacy, distinct))
        if t.prog is not None and b.rankable and t.oracle2:
            for o, where in distinct.items():
                if o[1].strip() or o[2] != 0:
                    # the interpreter itself failed (host exception): not an enumeration order; C13's subject
                    run.drift("template-ends-in-host-exception", {"template": tid, "stderr": o[1].strip().splitlines()[-1:]})
                    continue
                line = {"prog": t.prog, "elems": model_elems(b, t), "obs": to_ints(b, t, o), "n": len(where)}
                if b.pool in BIG:
                    k = (tid, bid, tuple(line["obs"]))
                    if k in big_lines:
                        big_lines[k]["n"] += len(where)
                        continue
                    big_lines[k] = line
                trace_lines.append(line)
                trace_meta.append((tid, b, legacy, o, where))
    n_own = len(trace_lines)
    trace_lines += [ex[0] for ex in extra]
    bad = validate_traces(run, trace_lines) if trace_lines else {}
    bad_extra = [(extra[k - n_own], bd) for k, bd in sorted(bad.items()) if k >= n_own]
    unsorted = {}
    for k, bd in sorted(bad.items()):
        if k >= n_own:
            continue
        tid, b, legacy, o, where = trace_meta[k]
        unsorted.setdefault(tid, []).append((b, legacy, o, where, bd, trace_lines[k]))
    for tid in sorted(set(varying) | set(unsorted)):
        b = (varying.get(tid) or unsorted.get(tid))[0][0]
        t = [t for t in b.ts if t.tid == tid][0]
        parts = []
        case = {"kind": "template", "tid": tid, "pool": b.pool, "elems": b.elems, "orders": b.orders,
                "body": t.body, "prog": t.prog, "parse": t.parse, "oracle2": t.oracle2, "runs": []}
        cat = "varies" if tid in varying else "unsorted"
        if tid in varying:
            b, legacy, distinct = varying[tid][0]
            ex = sorted(distinct.items(), key=lambda kv: (-len(kv[1]), kv[1]))
            x, y = ex[0], ex[1]
            parts.append(f"{len(distinct)} different outcomes in {sum(len(w) for w in distinct.values())} runs"
                         f"{' (legacy)' if legacy else ''}: order={x[1][0][0]} PYTHONHASHSEED={x[1][0][1]} -> "
                         f"{_short(x[0])} but order={y[1][0][0]} PYTHONHASHSEED={y[1][0][1]} -> {_short(y[0])}")
            case["runs"] += [{"legacy": legacy, "order": x[1][0][0], "seed": x[1][0][1]},
                             {"legacy": legacy, "order": y[1][0][0], "seed": y[1][0][1]}]
        if tid in unsorted:
            b, legacy, o, where, bd, line = unsorted[tid][0]
            if (t.prog or "").startswith("member."):
                cat = cat if tid in varying else "splits"
                parts.append(f"equal collections built in two construction orders make {line['obs']} members / keys, not "
                             f"{bd['want']} (program {t.prog}): order={where[0][0]} PYTHONHASHSEED={where[0][1]} -> {_short(o)}")
            else:
                parts.append(f"observation {line['obs']} is not the sorted enumeration {bd['want']} (program {t.prog}): "
                             f"order={where[0][0]} PYTHONHASHSEED={where[0][1]} -> {_short(o)}")
            case["runs"].append({"legacy": legacy, "order": where[0][0], "seed": where[0][1]})
        case["scripts"] = {on: b.solo_of(t).script(o) for on, o in b.orders}
        run.violation(tid, f"{cat}: `{t.body.splitlines()[-1]}` " + "; ".join(parts), case)
    return varying, unsorted, len(trace_lines), bad_extra


def _short(o):
    text, err, rc = o
    s = text.strip().replace("\n", " | ")
    if len(s) > 140:
        s = s[:140] + "..."
    if err.strip():
        s += " [stderr: " + err.strip().splitlines()[-1][:100] + "]"
    return repr(s)


# ---------------------------------------------------------------- the call channel (harness/c12_calls.py)
CALL_POOLS = ("str", "summix", "decmag")
RNG_SEEDS = (1, 7, 11, 4711, 233279)
RNG_DRAWS = [(0, 1000), (0, 0), (5, 50), (0, 0), (0, 9000), (0, 7)]          # (0, 0): the decimal form
RNG_KINDS = {"int1": "Random->random(1000)", "int2": "Random->random(5, 50)", "dec": "Random->random()",
             # spans beyond the number of states of the seeded generator (233280): still the seeded generator
             "wide1": "Random->random(1000000)", "wide2": "Random->random(-500000, 500000)", "wide3": "Random->random(233281)",
             "wide4": "Random->random(1000000000000)", "edge": "Random->random(233280)"}


def _draw_src(d):
    return "Random->random()" if d == (0, 0) else (f"Random->random({d[1]})" if d[0] == 0 else f"Random->random({d[0]}, {d[1]})")


def directed_calls(pool):
    """[(call id, source, model program or None, how to read the observation)]"""
    if pool == "summix":
        return [
            ("d:sum-set", "sum(S)", "native.set+firstbad", "sumtype"),
            ("d:sum-list-of-set", "sum(list(S))", "aslist.set+firstbad", "sumtype"),
            ("d:sum-compr", "sum([x for x in S])", None, None),
            ("d:sum-spread", "sum([...S])", None, None),
            ("d:sum-keys", "sum([k for k in keys M])", None, None),
            ("d:sum-ignore", "sum(list(S), ignore = [NULL, 'fig'])", None, None),
            ("d:prod", "List->prod(list(S))", None, None),
            ("d:mean", "Stat->mean(list(S))", None, None),
            ("d:reduce-set", "List->reduce(S, fn(a, b) string(a) + '/' + string(b))", None, None),
            ("d:join", "String->join([string(x) for x in S], '/')", None, None),
            ("d:min-max", "[min(S), max(S)]", None, None),
            ("d:compare-all", "[compare(a, b) for a in S for b in S]", None, None),
            ("d:trace-set-long", "do def g(s, m) error 'boom'; g(S, M); end", None, None),
        ]
    if pool == "decmag":
        return [
            ("d:sum-set", "sum(S)", None, None),
            ("d:sum-list-of-set", "sum(list(S))", None, None),
            ("d:sum-compr", "sum([x for x in S])", None, None),
            ("d:sum-spread", "sum([...S])", None, None),
            ("d:sum-map-values", "sum(list(M))", None, None),
            ("d:sum-compr-values", "sum([v for v in values M])", None, None),
            ("d:reduce-add", "List->reduce(S, fn(a, b) a + b)", None, None),
            ("d:reduce-list-sub", "List->reduce(list(S), fn(a, b) b - a)", None, None),
            ("d:prod", "List->prod(list(S))", None, None),
            ("d:mean", "Stat->mean(list(S))", None, None),
            ("d:median", "Stat->median(list(S))", None, None),
            ("d:running", "do def t = 0.0; for x in S do t += x; end; t; end", None, None),
        ]
    out = [
        # errors below calls that were handed a set / a map: the stack-trace lines show the arguments, abbreviated
        # when long (Args.toStringAbbrev); T3 is a set of three members (shown in full)
        ("d:trace-set", "do def g(s) error 'boom'; g(T3); end", "trace.set.all", "trace3"),
        ("d:trace-set-long", "do def g(s, n) error 'boom'; g(S, 1); end", None, None),
        ("d:trace-map", "do def g(m) error 'boom'; g(M); end", None, None),
        ("d:trace-nested", "do def g3(s, m, rest...) sum(s); def g2(s, m) g3(s, m, s, [m], <<s>>); "
                           "def g1(s) do def r = g2(s, M); return r; end; g1(S); end", None, None),
        ("d:trace-method", "do def o = <*g = fn(self, s, m = NULL) error s*>; o->g(S, m = M); end", None, None),
        ("d:reduce-set", "List->reduce(S, fn(a, b) a + '/' + b)", None, None),
        ("d:reduce-values", "List->reduce(list(M), fn(a, b) b + '/' + a)", None, None),
        ("d:string-concat", "do def t = ''; for x in S do t += x; end; t; end", None, None),
    ]
    for sd in RNG_SEEDS:
        out.append((f"d:rng-{sd}", f"Random->set_seed({sd}); [" + ", ".join(_draw_src(d) for d in RNG_DRAWS) + "]", "@rng", sd))
    for kind, src in RNG_KINDS.items():
        out.append((f"d:rng-kind-{kind}", f"Random->set_seed(7); [{src} for i in range(4)]", None, None))
    out.append(("d:rng-choices", "Random->set_seed(3); [Random->choice(S), Random->choices(S, 3), Random->sample(S, 3), "
                                 "Random->choice(list(M))]", None, None))
    out.append(("d:rng-reseed", "do def a = [Random->random(), Random->random(100)]; Random->set_seed(1); "
                                "a == [Random->random(), Random->random(100)]; end", None, None))
    return out


# never applied to the large collections: the number of results grows faster than any bound
BIG_SKIP = {"permutations"}


def directed_calls_big():
    """stack-trace lines (and error values) of calls that were handed a LARGE set / map"""
    return [
        # head3: the first three members (key, word, key) are complete within the 50 characters of the excerpt
        ("d:trace-set", "do def g(s) error 'boom'; g(S); end", "trace.set.head", "head3"),
        ("d:trace-set-2", "do def g(s, n) error 'boom'; g(S, 1); end", None, None),
        ("d:trace-map", "do def g(m) error 'boom'; g(M); end", "trace.map.head", "head3"),
        ("d:trace-nested", "do def g3(s, m, rest...) sum(s); def g2(s, m) g3(s, m, s, [m], <<s>>); "
                           "def g1(s) do def r = g2(s, M); return r; end; g1(S); end", None, None),
        ("d:trace-method", "do def o = <*g = fn(self, s, m = NULL) error 'boom'*>; o->g(S, m = M); end", None, None),
        ("d:trace-inside", "do def g(a, b, c, d) error 'boom'; g([S], <<S>>, <<<1 => M>>>, <*a = S, b = M*>); end", None, None),
        ("d:trace-spread", "do def g(args...) error 'boom'; g(...S); end", None, None),
        ("d:trace-lambda", "(fn(s, m) error 'boom')(S, M)", None, None),
        ("d:error-value", "error S", None, None),
        ("d:error-value-map", "error M", None, None),
        ("d:reduce-set", "List->reduce(S, fn(a, b) string(a) + '/' + string(b))", None, None),
        ("d:reduce-list-of-set", "List->reduce(list(S), fn(a, b) string(a) + '/' + string(b))", None, None),
        ("d:string-concat", "do def t = ''; for x in S do t += string(x); end; t; end", None, None),
        ("d:rng-choices", "Random->set_seed(3); [Random->choice(S), Random->choices(S, 3), Random->sample(S, 3), "
                          "Random->choice(list(M))]", None, None),
    ]


TRACE_SET_CALLS = ("d:trace-set", "d:trace-set-2", "d:trace-set-long", "d:trace-nested", "d:trace-method", "d:trace-inside",
                   "d:trace-spread", "d:trace-lambda")
TRACE_MAP_CALLS = ("d:trace-map", "d:trace-nested", "d:trace-method", "d:trace-inside", "d:trace-lambda")


def call_prelude(b, order):
    lines = ["require " + "; require ".join(calls_mod.MODULES) + ";"]
    if b.pool in BIG:
        mem = big_members(b.pool)
        lines.append("def mkS() <<" + ", ".join(mem[r][0] for r in order) + ">>;")
        lines.append("def mkM() <<<" + ", ".join(f"{mem[r][0]} => '{b.words[r]}'" for r in order) + ">>>;")
    elif b.pool == "str":
        t3 = set(sorted(b.elems)[1:4])
        lines.append("def mkT() <<" + ", ".join(f"'{KEYW[r - 1]}'" for r in order if r in t3) + ">>;")
        lines.append("def mkS() <<" + ", ".join(f"'{KEYW[r - 1]}'" for r in order) + ">>;")
        lines.append("def mkM() <<<" + ", ".join(f"'{KEYW[r - 1]}' => '{VALW[val_of(r) - 101]}'" for r in order) + ">>>;")
    else:
        pool = MIXED[b.pool]
        lines.append("def mkS() <<" + ", ".join(pool[r][0] for r in order) + ">>;")
        if b.pool == "decmag":              # decimals as values, too
            n = len(pool)
            lines.append("def mkM() <<<" + ", ".join(f"{pool[r][0]} => {pool[n - 1 - r][0]}" for r in order) + ">>>;")
        else:
            lines.append("def mkM() <<<" + ", ".join(f"{map_key(pool[r][0])} => '{b.words[r]}'" for r in order) + ">>>;")
    return "\n".join(lines) + "\n"


CALL_FRESH = "def S = mkS(); def M = mkM(); Random->set_seed(1);\n"
CALL_FRESH_STR = "def S = mkS(); def M = mkM(); def T3 = mkT(); Random->set_seed(1);\n"


def call_groups(rng, quick, funcs):
    """One group per pool: the sweep (full for the string pool and the pool of mixed types, one-argument calls
    for the decimals) plus the directed calls.  Runs: every hash seed on the ascending construction order, the
    other orders and the legacy mode on a few."""
    groups = []
    for pool in CALL_POOLS:
        # the hash of a decimal does not follow the seed: more construction orders for that pool, all seven members
        b = make_batch("calls-" + pool, [], pool, rng, 6 if pool == "decmag" or not quick else 3, n=7 if pool == "decmag" else 6)
        sweep = calls_mod.sweep_calls(funcs, max_args={"str": 3, "summix": 2, "decmag": 1}[pool])
        directed = directed_calls(pool)
        cl = [(cid, src) for cid, src, _ in sweep] + [(cid, src) for cid, src, _, _ in directed]
        names = [on for on, _ in b.orders]
        if quick:
            runs = [(names[0], sd, False) for sd in range(8)]
            runs += [(on, 2 + 3 * i, False) for i, on in enumerate(names[1:])]
            runs += [(names[0], 1, True), (names[1], 6, True)] if pool == "str" else [(names[1], 6, True)]
            runs = sorted(set(runs))
        else:
            runs = [(names[0], sd, False) for sd in range(32)]
            runs += [(on, 4 * i + j, False) for i, on in enumerate(names[1:]) for j in range(4)]
            runs += [(on, sd, True) for on in names[:2] for sd in range(4)]
        groups.append({"gid": "calls-" + pool, "pool": pool, "batch": b,
                       "prelude": {on: call_prelude(b, o) for on, o in b.orders},
                       "fresh": CALL_FRESH_STR if pool == "str" else CALL_FRESH, "calls": cl,
                       "runs": runs, "limit": 10,
                       "fname": {cid: f for cid, _, f in sweep}, "directed": {d[0]: d for d in directed}})
    # round 4: the large collections: every function with one argument (S, M, [S], [M]: whatever the native does, an
    # error it raises shows the argument in its stack-trace line), the directed calls
    for pool in BIG:
        b = make_batch("calls-" + pool, [], pool, rng, 3 if quick else 6)
        # quick tier: the sweep over 1 100 members with the strings only (for the ints the directed calls)
        sweep = ([] if quick and pool == "big1100i" else
                 calls_mod.sweep_calls([f for f in funcs if f[0].split("->")[-1] not in BIG_SKIP], max_args=1))
        directed = directed_calls_big()
        cl = [(cid, src) for cid, src, _ in sweep] + [(cid, src) for cid, src, _, _ in directed]
        names = [on for on, _ in b.orders]
        nseeds = (4 if b.light else 8) if quick else (8 if b.light else 32)
        runs = [(names[0], sd, False) for sd in range(nseeds)]
        runs += [(on, 2 + 3 * i, False) for i, on in enumerate(names[1:])]
        runs += [(names[1], 6, True)]
        groups.append({"gid": "calls-" + pool, "pool": pool, "batch": b,
                       "prelude": {on: call_prelude(b, o) for on, o in b.orders},
                       "fresh": CALL_FRESH, "calls": cl, "runs": sorted(set(runs)), "limit": 10,
                       "fname": {cid: f for cid, _, f in sweep}, "directed": {d[0]: d for d in directed}})
    groups.append(names_group(rng, quick, funcs))
    return groups


# round 5: NAMES in the call channel: a module object (X: bundled module Set, Y: String), an object O and a pair of
# equal sets / maps built in opposite orders (TW, TWM) handed to every function; `require` runs before every call
NAMES_FRESH = ("require Set as X; require String as Y; def O = <*zeta = 1, alpha = 'a', kiwi = [3], fig = 4, mango = 5, beta = 6*>; "
               "def TW = [mkS(), mkSR()]; def TWM = [mkM(), mkMR()]; Random->set_seed(1);\n")


def directed_calls_names():
    return [
        ("d:names-import-one-alias", "do require Math import [sin as f, cos as f, sqrt as g, abs as g]; [f(0), g(0 - 4)]; end", None, None),
        ("d:names-import-many", "do require List import [first as h, last as h, rest as h, reverse as h, unique as h, flatten as h]; "
                                "h([3, 1, 2, 1]); end", None, None),
        ("d:names-unqualified", "do def first = 'mine'; def sqrt = 'mine'; require List unqualified; require Math unqualified; "
                                "[first([7, 8]), sqrt(16), type(last)]; end", None, None),
        ("d:names-trace-module", "do def g(m, o) error 'boom'; g(X, O); end", None, None),
        ("d:names-trace-method", "do require List as Z; Z->first(X, Y); end", None, None),
        ("d:names-error-value", "error Y", None, None),
        ("d:names-strings", "[string(X), string(Y), ls(X), ls(Y), ls(O), [k for k in keys Y]]", None, None),
        ("d:names-every-module", "do def r = []; for mod in " + repr(list(calls_mod.MODULES)).replace('"', "'") + " do "
                                 "r !> append(ls(mod)); end; r; end", None, None),
        ("d:twins-sets", "[length(set(TW)), length(set(TWM)), length(List->unique(TW)), length(List->unique(TWM))]", None, None),
    ]


def names_group(rng, quick, funcs):
    b = make_batch("calls-names", [], "str", rng, 2, n=6)
    order = b.orders[0][1]
    rev = list(reversed(order))
    pre = ["require " + "; require ".join(calls_mod.MODULES) + ";"]
    for name, od in (("mkS", order), ("mkSR", rev)):
        pre.append(f"def {name}() <<" + ", ".join(f"'{KEYW[r - 1]}'" for r in od) + ">>;")
    for name, od in (("mkM", order), ("mkMR", rev)):
        pre.append(f"def {name}() <<<" + ", ".join(f"'{KEYW[r - 1]}' => '{VALW[val_of(r) - 101]}'" for r in od) + ">>>;")
    sweep = calls_mod.sweep_calls([f for f in funcs if f[0].split("->")[-1] not in BIG_SKIP],
                                  subjects=("X", "O", "set(TW)", "TWM"), max_args=1)
    directed = directed_calls_names()
    cl = [(cid, src) for cid, src, _ in sweep] + [(cid, src) for cid, src, _, _ in directed]
    nseeds = 8 if quick else 32
    runs = [("asc", sd, False) for sd in range(nseeds)] + [("asc", 1, True), ("asc", 6, True)]
    return {"gid": "calls-names", "pool": "names", "batch": b, "prelude": {"asc": "\n".join(pre) + "\n"},
            "fresh": NAMES_FRESH, "calls": cl, "runs": runs, "limit": 10,
            "fname": {cid: f for cid, _, f in sweep}, "directed": {d[0]: d for d in directed}}


_NUM = re.compile(r"-?\d+(?:\.\d+)?(?:[eE][-+]?\d+)?")


def call_trace_line(g, cid, outcome):
    """the observation of a directed call as a line for Order_Trace, or None when it is not such an observation"""
    _, src, prog, how = g["directed"][cid]
    kind, text, printed = outcome
    b = g["batch"]
    if prog == "@rng":
        if kind != "val":
            return None
        nums = _NUM.findall(text)
        if len(nums) != len(RNG_DRAWS):
            return None
        obs = []
        for d, x in zip(RNG_DRAWS, nums):
            if d == (0, 0):
                v = float(x) * 233280
                obs.append(int(round(v)) if abs(v - round(v)) < 1e-6 else -1)
            else:
                obs.append(int(x) if re.fullmatch(r"-?\d{1,9}", x) else -1)
        return {"prog": "@rng", "seed": how, "draws": [list(d) for d in RNG_DRAWS], "obs": obs, "elems": [], "n": 0}
    if how == "head3":
        lines = [ln for ln in text.split("\n")[1:] if ln.startswith("g(")] if kind == "err" else []
        if len(lines) != 1 or "... " not in lines[0]:
            return None                      # no stack-trace line of g, or the argument is not abbreviated
        return {"prog": prog, "elems": b.elems, "obs": tokenize(b.tokens, lines[0].split("... ")[0])[:3], "n": 0}
    if how == "trace3":
        if kind != "err":
            return None
        t3 = sorted(b.elems)[1:4]
        return {"prog": prog, "elems": t3, "obs": tokenize(b.tokens, text), "n": 0}
    if how == "sumtype" and b.rankable:
        m = re.search(r"Cannot sum (\w+)", text) if kind == "err" else None
        if not m or SUM_TYPES.get(m.group(1)) not in b.tokens:
            return None                      # not an enumeration (today sum(S) is "List required but got set")
        # model: the numbers are the members up to 1, every other member is above; the error names the first of them
        bad = sorted(b.tokens[r] for r in SUM_TYPES.values() if r in b.tokens)
        return {"prog": prog, "elems": [1] + [10 + e for e in bad], "obs": [10 + b.tokens[SUM_TYPES[m.group(1)]]], "n": 0}
    return None


def judge_calls(run, groups, results):
    """Oracle 1 for every call; -> ({gid: {cid}} varying, extra trace lines [(line, gid, cid, outcome, run keys)], stats)"""
    flagged = {}
    extra = []
    stats = {"calls": 0, "evaluations": 0, "varying_calls": 0, "not_judged_timeout": 0, "outcomes": {}}
    for g in groups:
        runs = results[g["gid"]]
        varying, skipped, n = calls_mod.compare(g, runs)
        stats["calls"] += len(g["calls"])
        stats["evaluations"] += n
        stats["varying_calls"] += len(varying)
        stats["not_judged_timeout"] += len(skipped)
        for cid in skipped[:5]:
            run.drift("call-timed-out-not-judged", {"pool": g["pool"], "call": cid})
        first = sorted(runs.items())[0][1]
        for o in first[1].values():
            stats["outcomes"][o[0]] = stats["outcomes"].get(o[0], 0) + 1
        if first[0][0] != "val":
            run.drift("call-prelude-failed", {"pool": g["pool"], "outcome": list(first[0])[:2]})
        flagged[g["gid"]] = set(varying)
        src_of = dict(g["calls"])
        # one violation per function (sweep) / per directed call
        by_key = {}
        for cid in sorted(varying):
            name = g["fname"].get(cid) or cid
            outs = list(varying[cid][0][1])
            if cid in g["fname"] and len({(o[0], o[2], o[1].split("\n")[0]) for o in outs}) == 1:
                # value, printed text and error message agree; only the stack-trace lines (the arguments shown
                # there) differ: one finding for all functions of the sweep, not one per function
                name = "@stack-trace-lines"
            by_key.setdefault(name, []).append(cid)
        for name, cids in sorted(by_key.items()):
            cid = cids[0]
            legacy, distinct = varying[cid][0]
            ex = sorted(distinct.items(), key=lambda kv: (-len(kv[1]), kv[1]))
            x, y = ex[0], ex[1]
            what = (f"varies{' (stack-trace lines)' if name == '@stack-trace-lines' else ''}: "
                    f"`{src_of.get(cid, cid)}` (pool {g['pool']}) {len(distinct)} different outcomes in "
                    f"{sum(len(w) for w in distinct.values())} processes{' (legacy)' if legacy else ''}: order={x[1][0][0]} "
                    f"PYTHONHASHSEED={x[1][0][1]} -> {_short_call(x[0])} but order={y[1][0][0]} PYTHONHASHSEED={y[1][0][1]} "
                    f"-> {_short_call(y[0])}" + (f"; {len(cids) - 1} more calls ({name}) vary" if len(cids) > 1 else ""))
            case = {"kind": "call", "pool": g["pool"], "cid": cid, "src": src_of.get(cid, ""), "fresh": g["fresh"], "elems": g["batch"].elems,
                    "function": g["fname"].get(cid),
                    "prelude": g["prelude"], "directed": list(g["directed"].get(cid, ())),
                    "runs": [{"order": x[1][0][0], "seed": x[1][0][1], "legacy": legacy},
                             {"order": y[1][0][0], "seed": y[1][0][1], "legacy": legacy}]}
            run.violation(f"call:{g['pool']}:{name}", what, case)
        # oracle 2 for the directed calls the model covers
        for cid in g["directed"]:
            distinct = {}
            for rk, (pre, res) in sorted(runs.items()):
                if cid in res:
                    distinct.setdefault(calls_mod.norm(res[cid]), []).append(rk)
            for o, where in distinct.items():
                line = call_trace_line(g, cid, o)
                if line is not None:
                    line["n"] = len(where)
                    extra.append((line, g, cid, o, where))
    return flagged, extra, stats


def _short_call(o):
    kind, text, printed = o
    s = (printed.strip() + " " if printed.strip() else "") + f"{kind}: {text.strip()}"
    s = s.replace("\n", " | ")
    return repr(s[:200] + ("..." if len(s) > 200 else ""))


def report_bad_calls(run, bad_extra):
    """a directed call whose observation is not the model's (after validation by Order_Trace)"""
    for (line, g, cid, o, where), bd in bad_extra:
        if line["prog"] == "@rng":
            # the statement fixes no generator: numbers that differ from the model's are a difference of the model
            run.drift("seeded-numbers-differ-from-the-generator-of-the-model",
                      {"seed": line["seed"], "printed": line["obs"], "model": bd["want"]})
            continue
        src = dict(g["calls"]).get(cid, cid)
        what = (f"unsorted: `{src}` (pool {g['pool']}) observation {line['obs']} is not what the sorted enumeration gives "
                f"{bd['want']} (program {line['prog']}): order={where[0][0]} PYTHONHASHSEED={where[0][1]} -> {_short_call(o)}")
        case = {"kind": "call", "pool": g["pool"], "cid": cid, "src": src, "fresh": g["fresh"], "prelude": g["prelude"],
                "elems": g["batch"].elems,
                "directed": list(g["directed"].get(cid, ())),
                "runs": [{"order": where[0][0], "seed": where[0][1], "legacy": where[0][2]}]}
        run.violation(f"call:{g['pool']}:{cid}", what, case)



# ---------------------------------------------------------------------------------------------------------------
# maps whose VALUES tie.  Keys of a map and members of a set are pairwise different, so a sorted enumeration of
# them has one answer; the values of a map may be equal and still tell each other apart (1 and 1.0, [1] and
# [1.0]).  Wherever the values are put in order, a tie must be settled by something the map's contents determine
# (Order!OrderIndependence: the result is a function of the collection, not of how it was built) - if it is left
# to the internal order, equal maps give different texts.  In-process: the internal order of a host map is its
# construction order, whatever the hash seed.
TIE_ENTRIES = [("'a'", "1"), ("'b'", "1.0"), ("'c'", "[1]"), ("'d'", "[1.0]"), ("'e'", "1")]
TIE_FORMS = ["list(m)", "[v for v in values m]", "[e for e in entries m]", "string(m)", "set(list(m))", "sorted(list(m))",
             "do def r = []; for v in m append(r, v); r end", "do def [p, q, t...] = list(m); [p, q] end", "[...list(m)]",
             "string(object(m))"]


# round 5: the map m (built in 24 construction orders) next to m0, the same entries in the first of these orders:
# they are equal, so wherever the two meet in a set, as keys of a map or in a function that looks members up, the
# result must not depend on the order in which m was built
TWIN_FORMS = ["length(<<m0, m>>)", "m in <<m0>>", "<<m0>> - <<m>>", "do def t = map(); t[m0] = 1; t[m] = 2; t end",
              "do def t = map(); t[m0] = 7; t[m, 0] end", "do def t = <<m0>>; remove(t, m); t end", "List->unique([m0, m])",
              "length(<<[m0], [m]>>)", "length(<< <<m0>>, <<m>> >>)", "length(<< <*a = m0*>, <*a = m*> >>)",
              "length(<< <<<1 => m0>>>, <<<1 => m>>> >>)", "set([m0, m])", "<<x for x in [m0, m]>>", "Set->union(<<m0>>, <<m>>)",
              "[m == m0, compare(m, m0), m0 in [m], List->find([m0], m)]",
              "do def t = <<<'p' => m0>>>; def u = <<<'p' => m>>>; length(<<t, u>>) end"]


def value_ties(run, functions):
    import itertools
    from ckl.interpreter import Interpreter
    from . import absval
    from ckl.values import StringOutput
    it = Interpreter(True, False)
    it.setStandardOutput(StringOutput())             # print / println are among the functions
    for mod in calls_mod.MODULES:
        absval.outcome(lambda: it.interpret(f"require {mod}", "c12"))
    orders = list(itertools.permutations(range(len(TIE_ENTRIES))))
    orders = orders[::5]                     # 24 of the 120 construction orders, the identity first
    forms = list(TIE_FORMS) + [f"{call}(m)" for call, _ in functions] + [f"{call}(list(m))" for call, _ in functions]
    # the functions handed m and its equal twin m0 together (6 construction orders)
    twin_sweep = [f"{call}({arg})" for call, _ in functions if call.split("->")[-1] not in calls_mod.BY_DESIGN
                  for arg in ("<<m0, m>>", "[m0, m]")]
    forms += TWIN_FORMS + twin_sweep
    few = set(twin_sweep)
    lit0 = "<<<" + ", ".join(f"{k} => {v}" for k, v in TIE_ENTRIES) + ">>>"
    n = 0
    for form in forms:
        texts = {}
        for od in (orders[::4] if form in few else orders):
            lit = "<<<" + ", ".join(f"{TIE_ENTRIES[i][0]} => {TIE_ENTRIES[i][1]}" for i in od) + ">>>"
            o = absval.outcome(lambda: it.interpret(f"def m0 = {lit0}; def m = {lit}; string({form})", "c12"), limit=20)
            n += 1
            if o[0] == "val":
                t = "val " + str(o[1])
            elif o[0] == "err":
                t = "err " + str(getattr(o[2], "msg", ""))[:120]
            else:
                t = None                    # a host exception or a hang is C13's business
            if t is not None:
                texts.setdefault(t, od)
        if len(texts) > 1 and not any(w in form for w in ("random", "shuffle", "sample", "choice", "uuid", "timestamp")):
            (ta, oa), (tb, ob) = sorted(texts.items())[:2]
            run.violation("value-ties:" + form,
                          f"varies (value ties): {form} of a map with the entries {TIE_ENTRIES} gives {ta[:100]} when they are put "
                          f"in in the order {list(oa)} and {tb[:100]} in the order {list(ob)}",
                          {"kind": "value-ties", "form": form})
    return n, len(forms)


def run(run):
    quick = run.tier == "quick"
    rng = random.Random(run.seed)
    seeds = list(range(8)) if quick else list(range(32))
    legacy_seeds = [0, 5] if quick else list(range(8))
    norders = 3 if quick else 6
    reps = 1 if quick else 3           # repetitions with other element subsets
    # the three model runs that do not depend on the observations go on beside the interpreter processes
    tlc_pool = ThreadPoolExecutor(max_workers=7)
    f_spec = tlc_pool.submit(run_tlc, "Order", "Order" if quick else "Order_thorough", coverage=True, timeout=1800, workers=8)
    f_raw = tlc_pool.submit(run_tlc, "Order", "Order_allraw", coverage=False, timeout=1800, workers=3)
    f_render = tlc_pool.submit(run_tlc, "Order", "Order_byrender", coverage=False, timeout=1800, workers=3)
    f_fold = tlc_pool.submit(run_tlc, "Order", "Order_byfold", coverage=False, timeout=1800, workers=3)
    f_rng = tlc_pool.submit(run_tlc, "Order_Rng", "Order_Rng", coverage=True, timeout=1800, workers=2)
    f_big = tlc_pool.submit(run_tlc, "Order", "Order_bigraw", coverage=False, timeout=1800, workers=3)
    ts = templates()
    batches = make_batches(ts, rng, norders, 6, reps)
    functions = calls_mod.functions_of_tree()
    cgroups = call_groups(rng, quick, functions)
    f_calls = tlc_pool.submit(calls_mod.execute, cgroups, 8)          # the driver processes run beside the scripts
    try:
        obs, owner, nproc, cut = observe(batches, seeds, legacy_seeds)
        call_results, ncallproc = f_calls.result()
        progs = tlc_programs(run, f_spec.result())
        res_raw, res_render, res_fold, res_rng = f_raw.result(), f_render.result(), f_fold.result(), f_rng.result()
        res_big = f_big.result()
    finally:
        tlc_pool.shutdown(wait=True)
    for t in ts:
        if t.prog is not None and t.prog not in progs:
            raise MachineryError(f"template {t.tid} names program {t.prog} that OrderOps.tla does not define")
    call_flagged, extra, call_stats = judge_calls(run, cgroups, call_results)
    for ex in extra:
        if ex[0]["prog"] != "@rng" and ex[0]["prog"] not in progs:
            raise MachineryError(f"call {ex[2]} names program {ex[0]['prog']} that OrderOps.tla does not define")
    varying, unsorted, ntrace, bad_extra = judge(run, obs, owner, extra)
    report_bad_calls(run, bad_extra)
    flagged = set(varying) | set(unsorted)
    sweep_str = call_flagged.get("calls-str", set())

    # ---- the Site table, derived from what was observed: a site is raw iff a direct template over plain
    # members (strings) was flagged; the relation is "render" iff a site that sorts plain members shows the
    # internal order of members that render alike
    sites = sorted({s for p in progs.values() for s in p["sites"]})
    direct = {}
    direct_alike = {}
    direct_big = {}
    for t in ts:
        if t.site:
            (direct_alike if t.pool in ALIKE else direct_big if t.pool in BIG else direct).setdefault(t.site, []).append(t.tid)
    near_at = {}                     # site -> templates over near-duplicate strings that go through it
    for t in ts:
        if t.pool in NEAR and t.prog in progs:
            for st in progs[t.prog]["sites"]:
                near_at.setdefault(st, []).append(t.tid)
    table = {}
    unobservable = []
    for s in sites:
        if s in direct:
            table[s] = "raw" if any(tid in flagged for tid in direct[s]) else "sorted"
        else:
            table[s] = "raw"
            unobservable.append(s)
    # natives handed the container itself: also every call of the sweep over the string pool
    if any(re.search(r"\bS\b", c) for c in sweep_str if not c.startswith("d:")):
        table["native.set"] = "raw"
    if any(re.search(r"\bM\b", c) for c in sweep_str if not c.startswith("d:")):
        table["native.map"] = "raw"
    # the stack-trace lines are observed through the call channel
    for site, cids in (("trace.set", ("d:trace-set", "d:trace-set-long", "d:trace-nested", "d:trace-method")),
                       ("trace.map", ("d:trace-map", "d:trace-nested", "d:trace-method"))):
        if site in table:
            table[site] = "raw" if any(c in sweep_str for c in cids) else "sorted"
            if site in unobservable:
                unobservable.remove(site)
    # round 4: a site that looks sorted on the small pools and shows the internal order of a LARGE collection
    # switches with the size: "rawbig"
    sweep_big = set().union(*[call_flagged.get("calls-" + p, set()) for p in BIG])
    big_seen = {s: [tid for tid in direct_big.get(s, []) if tid in flagged] for s in sites}
    big_seen["trace.set"] = sorted(c for c in TRACE_SET_CALLS if c in sweep_big) + [
        t for t in flagged if t.endswith("-uncaught-trace")]
    big_seen["trace.map"] = sorted(c for c in TRACE_MAP_CALLS if c in sweep_big) + [
        t for t in flagged if t.endswith("-uncaught-trace")]
    switches_at = sorted(s for s in sites if table[s] == "sorted" and big_seen.get(s))
    table_small = dict(table)
    for s in switches_at:
        table[s] = "rawbig"
    ties_leak_at = sorted(s for s in sites if table[s] == "sorted"
                          and any(tid in flagged for tid in direct_alike.get(s, [])))
    table["relation"] = table_small["relation"] = "render" if ties_leak_at else "total"
    folds_leak_at = sorted(s for s in sites if table[s] == "sorted" and any(tid in flagged for tid in near_at.get(s, [])))
    table["strings"] = table_small["strings"] = "folded" if folds_leak_at else "exact"
    # the pools of members that render alike / near-duplicates hold <= 9 members, in the model's scale they are not
    # big: they are compared with the prediction for the table without the size switch
    predicted = tlc_predict(run, table_small, "Order: Site table derived from the observations; which programs can vary")
    if switches_at:
        predicted["big"] = tlc_predict(run, table, "Order: the table with the sites that switch above a size threshold "
                                                   "(rawbig); which programs can vary on big collections")["big"]
    seen_by_prog = {}
    for t in ts:
        if t.prog is not None and (t.pool == "str" or t.pool in ALIKE or t.pool in NEAR or t.pool in BIG):
            cls = "alike" if t.pool in ALIKE else "near" if t.pool in NEAR else "big" if t.pool in BIG else "plain"
            seen_by_prog.setdefault((t.prog, cls), []).append(t.tid in flagged)
    # the stack-trace lines of calls handed a large set / map (call channel) are the programs trace.set / trace.map
    seen_by_prog[("trace.set", "big")] = [bool(big_seen["trace.set"])]
    seen_by_prog[("trace.map", "big")] = [bool(big_seen["trace.map"])]
    agree = 0
    for (pid, cls), flags in sorted(seen_by_prog.items()):
        # a collection of alike members (of near-duplicates) also shows whatever plain collections show
        says = pid in predicted[cls] or (cls not in ("plain", "big") and pid in predicted["plain"])
        if says == any(flags):
            agree += 1
        else:
            run.drift("model-prediction-differs", {"prog": pid, "members": cls, "model_says_can_vary": says,
                                                   "observed_varying": any(flags)})
    # which programs let a raw order through at all (every site raw)
    allraw = vary_of(run, res_raw, "Order: every site raw; which programs let the order through")["plain"]
    masked = sorted(p for p in progs if p not in allraw)
    for s in sites:
        if not any(s in progs[p]["sites"] for p in allraw):
            run.drift("site-never-observable", s)
    # every site switching to the host order above the size threshold: nothing shows up to that size (SmallBlind,
    # BigOnly are invariants of that configuration), the same programs leak above it
    bigraw = vary_of(run, res_big, "Order: every site raw above the size threshold only (rawbig); SmallBlind, BigOnly; "
                                   "which programs let the order of a big collection through")
    if bigraw["plain"]:
        raise MachineryError("Order.tla: a collection below the size threshold varies under the rawbig table")
    if set(bigraw["big"]) != set(allraw):
        run.drift("model-programs-leaking-above-the-threshold-differ-from-all-raw",
                  sorted(set(bigraw["big"]) ^ set(allraw)))
    # which programs show the internal order when every site sorts, but by the renderings alone
    byrender = vary_of(run, res_render, "Order: every site sorted by the renderings alone; where do ties leak")
    if byrender["plain"] or byrender["big"]:
        raise MachineryError("Order.tla: a collection without two alike members varies although every site sorts")
    tie_masked = sorted(p for p in progs if p not in byrender["alike"])
    # ... and when strings are compared after folding
    byfold = vary_of(run, res_fold, "Order: every site sorted, strings compared after folding; where do near-duplicates leak")
    if byfold["plain"] or byfold["alike"] or byfold["big"]:
        raise MachineryError("Order.tla: a collection without two near-duplicate strings varies although every site sorts")
    fold_masked = sorted(p for p in progs if p not in byfold["near"])
    # ---- the seeded generator: the table Source (kind of draw -> "seeded" | "host"), derived like the sites
    run.add_tlc(res_rng, "Order_Rng: every kind of draw from the module-level seed; Determinism after set_seed")
    if res_rng.records("RNGVARY"):
        raise MachineryError("Order_Rng.tla: numbers vary although every draw is seeded")
    source = {k: ("host" if f"d:rng-kind-{k}" in sweep_str else "seeded") for k in RNG_KINDS}
    rng_seen = sorted(c for c in sweep_str if c.startswith("d:rng")) + sorted(
        t for t in flagged if t.startswith("random-"))
    if "host" in source.values():
        d = tempfile.mkdtemp(prefix="c12-src-")
        try:
            with open(os.path.join(d, "source.json"), "w") as f:
                json.dump(source, f)
            res_src = run_tlc("Order_Rng", "Order_Rng_observed", env={"SOURCE_FILE": os.path.join(d, "source.json")},
                              coverage=False, timeout=1800, workers=2)
        finally:
            shutil.rmtree(d, ignore_errors=True)
        run.add_tlc(res_src, "Order_Rng: Source table derived from the observations; which sequences vary")
        run.sample({"rng_source_observed": source, "model_counterexamples": res_src.records("RNGVARY")[:3]})
    elif rng_seen:
        run.drift("model-prediction-differs", {"rng": "every kind of draw looks seeded, but seeded programs vary",
                                               "observed_varying": rng_seen[:5]})
    for tid in cut:
        run.drift("template-cut-off-by-crash-of-an-earlier-one-rerun-alone", tid)
    for p in MIXED:
        if mixed_ranks(p) is None:
            run.drift("language-order-not-total-on-pool", {"pool": p, "why": _WHY.get(p, "")})
    for p in BIG:
        if not big_rankable(p):
            run.drift("language-order-not-total-on-pool", {"pool": p, "why": _WHY.get(p, "")})

    k0 = next(k for k in sorted(obs) if k[2] is False and k[0] == batches[0].ts[0].tid)
    b0 = owner[(k0[0], k0[1])]
    t0 = [t for t in b0.ts if t.tid == k0[0]][0]
    run.sample({"script": b0.solo_of(t0).script(b0.orders[-1][1]),
                "observation": obs[k0][(b0.orders[-1][0], seeds[1])][0],
                "as_ints": to_ints(b0, t0, obs[k0][(b0.orders[-1][0], seeds[1])])})
    ka = next((k for k in sorted(obs) if k[2] is False and k[0] == "lambda-lcompr-set"), None)
    if ka:
        ba = owner[(ka[0], ka[1])]
        ta = [t for t in ba.ts if t.tid == ka[0]][0]
        run.sample({"script_alike_members": ba.solo_of(ta).script(ba.orders[-1][1]).replace(PRELUDE, ""),
                    "observation": obs[ka][(ba.orders[-1][0], seeds[1])][0],
                    "as_ints": to_ints(ba, ta, obs[ka][(ba.orders[-1][0], seeds[1])])})
    run.sample({"site_table_observed": table, "assumed_raw_because_not_directly_observable": unobservable})
    run.sample({"programs_where_a_raw_order_is_masked": masked,
                "programs_where_ties_between_alike_members_are_masked": tie_masked,
                "programs_where_ties_between_near_duplicate_strings_are_masked": fold_masked,
                "sites_where_ties_leak": ties_leak_at, "sites_where_near_duplicates_leak": folds_leak_at,
                "sites_that_switch_above_a_size_threshold": {s: big_seen[s][:4] for s in switches_at}})
    g0 = cgroups[1]
    r0 = sorted(call_results[g0["gid"]].items())[0]
    run.sample({"call_channel": {"prelude": g0["prelude"][r0[0][0]], "fresh": g0["fresh"],
                                 "calls": [[c, list(r0[1][1].get(c, ()))] for c in
                                           ("sum(S)", "d:sum-list-of-set", "any(S, fn(x) do println([x]); FALSE; end)")]}})
    if predicted["plain"] or predicted["alike"]:
        run.sample({"model_counterexamples_for_observed_table":
                    (list(predicted["plain"].values()) + list(predicted["alike"].values()))[:4]})
    covered = sorted({t.prog for t in ts if t.prog} | {d[2] for g in cgroups for d in g["directed"].values()
                                                        if d[2] and d[2] != "@rng"})
    run.cov["traces_validated_against_impl"] = ntrace
    ntie, ntieforms = value_ties(run, functions)
    run.cov["value_ties"] = {"forms": ntieforms, "construction_orders": 24, "evaluations": ntie, "entries": TIE_ENTRIES}
    run.cov["evaluations"] = sum(len(r) for r in obs.values()) + call_stats["evaluations"] + ntie
    run.cov["distinct_nontrivial"] = len({(tid, bid) for tid, bid, _ in obs}) + call_stats["calls"]
    run.cov["rule"] = ("distinct_nontrivial = template instances (enumeration path x element subset) + calls of the "
                       "call channel (function x argument shape x pool); evaluations = template executions (instance x "
                       "construction order x hash seed x mode) + call executions; traces = distinct observations of "
                       "model-covered templates and directed calls checked by Order_Trace")
    run.cov["exhaustive"] = False
    run.cov["processes"] = nproc + ncallproc
    run.cov["call_channel"] = dict(call_stats, processes=ncallproc, functions=len({f for g in cgroups for f in g["fname"].values()}),
                                   runs_per_pool=len(cgroups[0]["runs"]))
    run.cov["rng_source"] = source
    run.cov["large_collections"] = {p: {"members": BIG[p][1], "kind": BIG[p][0],
                                        "templates": sum(1 for t in ts if t.pool == p),
                                        "calls": sum(len(g["calls"]) for g in cgroups if g["pool"] == p),
                                        "call_processes": sum(len(g["runs"]) for g in cgroups if g["pool"] == p)} for p in BIG}
    run.cov["templates"] = len(ts)
    run.cov["round5"] = {"twin_templates": sum(1 for t in ts if "twins-" in t.tid),
                         "name_templates": sum(1 for t in ts if t.tid.startswith("names-")),
                         "names_call_group_calls": sum(len(g["calls"]) for g in cgroups if g["pool"] == "names"),
                         "value_ties_twin_forms": len(TWIN_FORMS)}
    run.cov["model_programs"] = len(progs)
    run.cov["model_programs_with_template"] = len(covered)
    run.cov["model_programs_without_template"] = sorted(set(progs) - set(covered))
    run.cov["sites"] = table
    run.cov["prediction_agreement"] = {"programs": len(seen_by_prog), "agree": agree}
    run.cov["bounds"] = {"hash_seeds": len(seeds), "legacy_hash_seeds": len(legacy_seeds),
                         "construction_orders": norders, "scripts": len(batches), "repetitions": reps,
                         "call_channel_runs": {g["pool"]: [list(r) for r in g["runs"]] for g in cgroups},
                         "call_channel_calls": {g["pool"]: len(g["calls"]) for g in cgroups}}
    run.assumptions += [
        "observation = the text a template printed (results and error messages are rendered into it); for the "
        "template that ended the process also stderr and the exit status of ckl.run",
        "a map's `values` are enumerated by ascending key (for, comprehensions); list(m) sorts the values themselves; both count as sorted order",
        "sorted order of mixed scalars = the language's own `<`; pools on which `<` is not a strict total order are "
        "checked for identical outcomes only",
        "objects keep insertion order by design; only object(map) (an enumeration of a map) is in scope",
        "random numbers: only set_seed-seeded sequences are compared (the statement fixes the random seed); that they are the "
        "numbers of the congruential generator of OrderOps is checked, but a difference is drift, not a violation",
        "the call channel drives the interpreter through its public API (Interpreter(secure, legacy), setStandardOutput, "
        "interpret) and formats an error as ckl.run does (value, msg, pos, stacktrace)",
        "functions whose result is the clock or the machine (now, timestamp, get_env, which, checkerlang_version/platform) "
        "are not in the sweep; a call that exceeds 10 s in some process is not judged (drift)",
        "pools whose members the language's `==` identifies or whose `<` is not a strict total order are compared across "
        "runs only (no ranks)",
        "members that render alike: the expected order is the creation order of functions and streams (they are "
        "created in rank order before the set is built, in every construction order) and the order of the hidden "
        "member for objects; the oracle proper is that all runs agree",
        "an object whose _str_ imitates the rendering of a value of another type is not generated",
        "size thresholds: collections of 120 and 1 100 members (strings; sparse ints, whose host order follows the "
        "construction order only); a switch above 1 100 members is not reached; List->permutations is not applied to them",
        "equal collections built in two construction orders are ONE member of a set / ONE key of a map (the language's == says "
        "they are equal; a count of 2 depends on their internal orders): checked as a number of members, directly and inside "
        "lists / maps / sets / objects",
        "names (module objects, import lists, ls, object members): the statement prescribes no order for them, only that every "
        "process shows the same; the text of the module, including the order of its definitions, is part of the program",
    ]


def replay_call(run, case):
    """a call of the call channel alone, under every recorded construction order and 8 hash seeds"""
    seeds = sorted({r["seed"] for r in case["runs"]} | set(range(8)))
    legacy = any(r["legacy"] for r in case["runs"])
    pool = case["pool"]
    if pool == "str":
        tokens = {KEYW[r - 1]: r for r in case["elems"]}
        tokens.update({VALW[val_of(r) - 101]: val_of(r) for r in case["elems"]})
        b = Batch("replay", [], "str", case["elems"], [], tokens, True)
    elif pool == "names":
        b = Batch("replay", [], "str", case["elems"], [], {}, True)
    else:
        b = make_batch("replay", [], pool, random.Random(0), 2)
    directed = {case["cid"]: tuple(case["directed"])} if case.get("directed") else {}
    g = {"gid": "replay", "pool": pool, "batch": b, "prelude": case["prelude"], "fresh": case["fresh"],
         "calls": [(case["cid"], case["src"])],
         "runs": [(on, sd, lg) for on in case["prelude"] for sd in seeds for lg in ([False, True] if legacy else [False])],
         "limit": 10, "fname": {case["cid"]: case["function"]} if case.get("function") else {}, "directed": directed}
    results, nproc = calls_mod.execute([g], 16)
    flagged, extra, stats = judge_calls(run, [g], results)
    bad = validate_traces(run, [ex[0] for ex in extra]) if extra else {}
    report_bad_calls(run, [(extra[k], bd) for k, bd in sorted(bad.items())])
    run.cov["evaluations"] = stats["evaluations"]


def replay(run, case):
    if case.get("kind") == "call":
        return replay_call(run, case)
    if case.get("kind") == "value-ties":
        n, _ = value_ties(run, [(case["form"][:-3], None)] if case["form"].endswith("(m)") else [])
        run.cov["evaluations"] = n
        return
    t = T(case["tid"], case["body"], case.get("prog"), None, case.get("pool", "str"), case.get("parse", "tokens"),
          oracle2=case.get("oracle2", True))
    orders = [(o[0], list(o[1])) for o in case["orders"]]
    if t.pool == "str":
        elems = case["elems"]
        tokens = {KEYW[r - 1]: r for r in elems}
        tokens.update({VALW[val_of(r) - 101]: val_of(r) for r in elems})
        b = Batch("replay", [t], "str", elems, orders, tokens, True, True)
    elif t.pool in ALIKE:
        b = Batch("replay", [t], t.pool, case["elems"], orders, alike_tokens(case["elems"]), True, True)
    else:
        b = make_batch("replay", [t], t.pool, random.Random(0), 2)
        b.orders = orders
        b.solo = True
    seeds = sorted({r["seed"] for r in case["runs"]} | set(range(8)))
    legacy = any(r["legacy"] for r in case["runs"])
    obs, owner, nproc, _ = observe([b], seeds, seeds if legacy else [])
    judge(run, obs, owner)
    run.cov["evaluations"] = nproc
