"""C12 - results do not depend on hash seed, process or construction order.

Spec: spec/OrderOps.tla (enumeration operators EnumSorted/EnumRaw, the stage
pipelines that stand for programs, the reference evaluation), spec/Order.tla
(state machine: a collection is built element by element, its internal order
`ord` is re-chosen nondeterministically, a program's stages run over it;
invariant OrderIndependence), spec/Order_Trace.tla (validation of recorded
observations).

Binding A (deciding observations, the property's own oracle): every template
(one per enumeration path of the code) is instantiated with 6-8 string
elements (and mixed scalars), written to a script and executed in fresh
processes `python -m ckl.run -s [-l] t.ckl` under 8 (thorough 32) values of
PYTHONHASHSEED and 3 (thorough 6) construction orders of the same set/map.
stdout (which includes the rendered result and the error text), stderr and
exit status must be identical in all runs of a template.

The table Site (site -> "sorted" | "raw") of the model is *derived from these
observations* (a site is raw iff its direct template varied; a site that has
no direct template is assumed raw, the worst case).  TLC then predicts, from
the table, which programs (including composite ones where a raw site is
masked by set(), sum, sorted ...) can vary; the prediction is compared with
what was seen (disagreement = drift, never a violation).

Binding B: every distinct observation of a template that the model covers is
turned into a sequence of small ints (string -> rank table) and validated by
TLC against Order_Trace.tla: accepted iff it equals the model's EnumSorted
prediction ("... all enumerate them in sorted order").
"""
import json
import os
import random
import re
import shutil
import subprocess
import tempfile
from concurrent.futures import ThreadPoolExecutor

from .common import import_ckl, MachineryError, REPO
from .tla import run_tlc

PY = "/venv/bin/python"

# ---------------------------------------------------------------- elements
KEYW = ["apple", "cherry", "fig", "kiwi", "lemon", "mango", "peach", "quince"]      # rank 1..8
VALW = ["alpha", "beta", "delta", "epsilon", "gamma", "iota", "kappa", "sigma",
        "theta", "zeta"]                                                             # token 101..110
assert KEYW == sorted(KEYW) and VALW == sorted(VALW)


def val_of(k):
    """OrderOps!ValOf: the value token stored under key rank k."""
    return 100 + ((k * 4) % 11)


assert len({val_of(k) for k in range(1, 9)}) == 8 and all(101 <= val_of(k) <= 110 for k in range(1, 9))

# mixed-scalar pools: (name, [source literal], [rendering in output])
MIXED = {
    "mixed": [("'fig'", "fig"), ("'apple'", "apple"), ("'kiwi'", "kiwi"), ("3", "3"), ("20", "20"),
              ("100", "100"), ("1.5", "1.5"), ("-4", "-4"), ("NULL", "NULL")],
    "bool": [("TRUE", "TRUE"), ("FALSE", "FALSE"), ("'fig'", "fig"), ("'apple'", "apple"),
             ("'kiwi'", "kiwi"), ("'lemon'", "lemon"), ("'mango'", "mango")],
    "dateint": [("3", "3"), ("100", "100"), ("date('20240101')", "20240101000000"), ("'fig'", "fig"),
                ("'apple'", "apple"), ("'kiwi'", "kiwi"), ("'lemon'", "lemon"), ("'mango'", "mango")],
}


# ---------------------------------------------------------------- templates
class T:
    def __init__(self, tid, body, prog=None, site=None, pool="str", req=(), parse="tokens", n=None):
        self.tid = tid          # template id (violation key)
        self.body = body        # source after the prelude
        self.prog = prog        # id of the model program (OrderOps!Programs) or None = oracle only
        self.site = site        # this template is the *direct* observation of that site
        self.pool = pool        # "str" | a key of MIXED
        self.req = req          # modules required unqualified
        self.parse = parse      # "tokens" | "int"
        self.n = n              # fixed number of elements (None: 6..8)


LG = "def lg(x) do println(x); return x; end;\n"
LG2 = "def lg2(x, y) do println(x); return x; end;\n"
F = "def f(args...) args...;\n"


def templates():
    ts = []
    a = ts.append
    # ---- for loops
    a(T("for-set", "for x in s do println(x); end;", "for.set", "for.set"))
    a(T("for-set-expr", "for x in s println(x);", "for.set"))
    a(T("for-map-default", "for x in m do println(x); end;", "for.map.values", "for.map.values"))
    a(T("for-map-keys", "for x in keys m do println(x); end;", "for.map.keys", "for.map.keys"))
    a(T("for-map-values", "for x in values m do println(x); end;", "for.map.values"))
    a(T("for-map-entries", "for x in entries m do println(x); end;", "for.map.entries", "for.map.entries"))
    a(T("for-set-break", "for x in s do println(x); if x > 'k' then break; end;", None))
    # ---- comprehensions (all seven node kinds share getCollectionValue)
    a(T("lcompr-set", "println([x for x in s]);", "compr.set", "compr.set"))
    a(T("lcompr-set-if", "println([x for x in s if x != 'zz']);", "compr.set"))
    a(T("lcompr-map-default", "println([x for x in m]);", "compr.map.entries", "compr.map.entries"))
    a(T("lcompr-map-keys", "println([x for x in keys m]);", "compr.map.keys", "compr.map.keys"))
    a(T("lcompr-map-values", "println([x for x in values m]);", "compr.map.values", "compr.map.values"))
    a(T("lcompr-map-entries", "println([x for x in entries m]);", "compr.map.entries"))
    a(T("lcompr-product-1", LG2 + "def r = [lg2(x, y) for x in s for y in ['_']];", "compr.set"))
    a(T("lcompr-product-2", LG2 + "def r = [lg2(x, y) for y in ['_'] for x in s];", "compr.set"))
    a(T("lcompr-product-keys", LG2 + "def r = [lg2(x, y) for x in keys m for y in ['_']];", "compr.map.keys"))
    a(T("lcompr-parallel-1", LG2 + "def r = [lg2(x, y) for x in s also for y in range(20)];", "compr.set"))
    a(T("lcompr-parallel-2", LG2 + "def r = [lg2(x, y) for y in range(20) also for x in s];", "compr.set"))
    a(T("lcompr-parallel-entries", LG2 + "def r = [lg2(x, y) for x in entries m also for y in range(20)];",
        "compr.map.entries"))
    a(T("scompr-set", LG + "def r = <<lg(x) for x in s>>;", "compr.set"))
    a(T("scompr-map-keys", LG + "def r = <<lg(x) for x in keys m>>;", "compr.map.keys"))
    a(T("scompr-map-values", LG + "def r = <<lg(x) for x in values m>>;", "compr.map.values"))
    a(T("scompr-map-entries", LG + "def r = <<lg(x) for x in entries m>>;", "compr.map.entries"))
    a(T("scompr-product", LG2 + "def r = <<lg2(x, y) for x in s for y in ['_']>>;", "compr.set"))
    a(T("scompr-parallel", LG2 + "def r = <<lg2(x, y) for x in s also for y in range(20)>>;", "compr.set"))
    a(T("scompr-result", "println(<<x + '_' for x in s>>);", None))
    a(T("mcompr-set", LG + "def r = <<<lg(x) => 1 for x in s>>>;", "compr.set"))
    a(T("mcompr-map-keys", LG + "def r = <<<lg(x) => 1 for x in keys m>>>;", "compr.map.keys"))
    a(T("mcompr-map-values", LG + "def r = <<<lg(x) => 1 for x in values m>>>;", "compr.map.values"))
    a(T("mcompr-map-entries", LG + "def r = <<<lg(x) => 1 for x in entries m>>>;", "compr.map.entries"))
    a(T("mcompr-result", "println(<<<x => x + '_' for x in s>>>);", None))
    # ---- conversions
    a(T("list-of-set", "println(list(s));", "aslist.set", "aslist.set"))
    a(T("list-of-map", "println(list(m));", "aslist.map", "aslist.map"))
    a(T("set-of-map", "println(set(m));", "asset.map+render"))
    a(T("list-of-set-of-map", "println(list(set(m)));", "asset.map+aslist"))
    a(T("set-of-list-of-set", "println(set(list(s)));", "aslist.set+build+render"))
    a(T("object-of-map", "println(object(m));", "asobject.map", "asobject.map"))
    a(T("map-of-object-of-map", "println(map(object(m)));", "asobject.map+build+render"))
    a(T("map-of-entries", "println(map([e for e in entries m]));", "compr.map.entries+build+render"))
    a(T("set-of-set", "println(set(s));", "render.set"))
    a(T("map-of-map", "println(map(m));", "render.map"))
    a(T("list-plus-set", "println([] + s);", "aslist.set"))
    a(T("list-minus-set", "println(list(s) - <<'zz'>>);", "aslist.set"))
    # ---- spread
    a(T("spread-call-set", F + "println(f(...s));", "spread.call.set", "spread.call.set"))
    a(T("spread-call-set-named", "def g(a, b, c, rest...) do println(a); println(b); println(c); println(rest...); end;\n"
        "g(...s);", "spread.call.set"))
    a(T("spread-list-set", "println([...s]);", "spread.list.set", "spread.list.set"))
    a(T("spread-list-set-mid", "println(['_', ...s, '_']);", "spread.list.set"))
    a(T("spread-method-set", "def o = <*g = fn(self, args...) args...*>; println(o->g(...s));", "spread.call.set"))
    a(T("spread-call-map-positional", F + "println(f(...mi));", "spread.call.map", "spread.call.map"))
    a(T("spread-call-map-error", F + "println(f(...m));", "spread.call.map.first"))
    a(T("spread-call-map-named",
        "def g(apple = '', cherry = '', fig = '', kiwi = '', lemon = '', mango = '', peach = '', quince = '') "
        "[apple, cherry, fig, kiwi, lemon, mango, peach, quince];\nprintln(g(...m));", None))
    a(T("spread-list-map", "println([...m]);", "spread.list.map", "spread.list.map"))
    a(T("spread-len", "println(length([...s]));", "spread.list.set+len", parse="int"))
    a(T("spread-set-again", "println(set([...s]));", "spread.list.set+build+render"))
    a(T("spread-sorted", "println(sorted([...s]));", "spread.list.set+sort"))
    a(T("apply-set", F + "println(apply(f, s));", None))
    # ---- destructuring
    a(T("destr-def-set", "def [a, b, c] = s; println(a); println(b); println(c);", "destr.def.set", "destr.def.set"))
    a(T("destr-assign-set", "def a = 0; def b = 0; def c = 0; [a, b, c] = s; println(a); println(b); println(c);",
        "destr.assign.set", "destr.assign.set"))
    a(T("destr-for-list-of-sets", "for [a, b, c] in [s] do println(a); println(b); println(c); end;",
        "destr.for.list", "destr.for.list"))
    a(T("destr-for-set-of-sets", "for [a, b, c] in <<s>> do println(a); println(b); println(c); end;",
        "destr.for.set", "destr.for.set"))
    a(T("destr-for-map-of-sets", "for [a, b, c] in values <<<1 => s>>> do println(a); println(b); println(c); end;",
        "destr.for.map", "destr.for.map"))
    a(T("destr-for-set-of-pairs", "for [a, b] in <<e for e in entries m>> do println(a + ' ' + b); end;",
        "compr.map.entries+build+for"))
    a(T("destr-def-more", "def [a, b, c, d, e, f, g, h, i] = s; println([a, b, c, d, e, f, g, h, i]);",
        "destr.def.set.all"))
    # ---- rendering
    a(T("println-set", "println(s);", "render.set", "render.set"))
    a(T("print-set", "print(s);", "render.set"))
    a(T("string-set", "println(string(s));", "render.set"))
    a(T("result-set", "s;", "render.set"))
    a(T("println-map", "println(m);", "render.map", "render.map"))
    a(T("print-map", "print(m);", "render.map"))
    a(T("string-map", "println(string(m));", "render.map"))
    a(T("result-map", "m;", "render.map"))
    a(T("concat-set", "println('' + string(s) + string(m));", None))
    a(T("interp-set", "println(s('{s}'));", None))
    a(T("nested-list-of-set", "println([s, m]);", None))
    a(T("nested-set-of-sets", "println(<< <<x, 'z'>> for x in s>>);", None))
    a(T("nested-map-of-sets", "println(<<<x => <<x, 'z'>> for x in s>>>);", None))
    a(T("nested-map-set-keys", "println(<<< <<x, 'z'>> => x for x in s>>>);", None))
    a(T("nested-object", "println(<*a = s, b = m*>);", None))
    a(T("error-value-set", "error s;", None))
    a(T("error-value-map", "do error m; catch e println(e); end;", None))
    a(T("ls", "def [a, b] = [1, 2]; println(ls());", None))
    # ---- set arithmetic and natives
    a(T("set-plus-set", "println(s + <<'zz', 'aa'>>);", None))
    a(T("set-plus-list", "println(s + ['zz', 'aa']);", None))
    a(T("set-plus-elem", "println(s + 'zz');", None))
    a(T("elem-plus-set", "println('aa' + s);", None))
    a(T("list-plus-set-2", "println(['zz'] + s);", None))
    a(T("set-minus-set", "println(s - <<'fig', 'kiwi'>>);", None))
    a(T("set-minus-list", "println(s - ['fig', 'kiwi']);", None))
    a(T("set-minus-elem", "println(s - 'fig');", None))
    a(T("list-of-sum-set", "println(list(s + <<'zz'>>));", None))
    a(T("sum-values", "println(sum([x for x in values mn]));", "compr.map.values+sum", parse="int"))
    a(T("sum-list-of-map", "println(sum(list(mn)));", "aslist.map+sum", parse="int"))
    a(T("sum-set", "println(sum(set(list(mn))));", None))
    a(T("sorted-set", "println(sorted(s));", None))
    a(T("sorted-list-of-set", "println(sorted(list(s)));", "aslist.set+sort"))
    a(T("sorted-desc", "println(sorted(list(s), cmp = fn(a, b) compare(b, a)));", None))
    a(T("length-set", "println(length(s) + length(m));", None))
    a(T("append-remove", "def t = set(s); append(t, 'zz'); remove(t, 'fig'); println(t); println(list(t));", None))
    a(T("put-remove-map", "def t = <<<>>>; for e in entries m do put(t, e[0], e[1]); end; remove(t, 'fig'); "
        "println(t); println([k for k in keys t]);", None))
    a(T("zip-list", "println(zip(list(s), list(m)));", None))
    a(T("zip-map", "println(zip_map(list(s), list(m)));", None))
    a(T("equals-compare", "println([s == set(list(s)), compare(s, s), s < m, m == map(m)]);", None))
    a(T("in-set", "println(['fig' in s, 'zz' in s, 'fig' in m, contains(s, 'fig')]);", None))
    a(T("first-index", "println(list(s)[0]); println([...s][0]);", "spread.list.set+first2"))
    a(T("pipe-set", "s !> list() !> println();", "aslist.set"))
    # ---- bundled modules
    for fn_, arg in [("union", "s, <<'zz', 'aa'>>"), ("union", "list(s), s"), ("intersection", "s, <<'fig', 'kiwi', 'zz'>>"),
                     ("diff", "s, <<'fig', 'kiwi'>>"), ("symmetric_diff", "s, <<'fig', 'kiwi', 'zz'>>")]:
        k = "set-" + fn_ + ("-list" if "list(" in arg else "")
        a(T(k, f"println({fn_}({arg})); println(list({fn_}({arg})));", None, req=("Set",)))
    for name, call in [
        ("first", "first(s)"), ("first-n", "first_n(s, 3)"), ("last", "last(s)"), ("last-n", "last_n(s, 3)"),
        ("rest", "rest(s)"), ("reverse", "reverse(s)"), ("reverse-list", "reverse(list(s))"),
        ("reduce", "reduce(s, fn(a, b) a + b)"), ("reduce-list", "reduce(list(s), fn(a, b) a + b)"),
        ("grep", "grep(s, //e//)"), ("map-list", "map_list(s, fn(x) x + '_')"), ("unique", "unique(s)"),
        ("unique-list", "unique(list(s) + list(s))"), ("filter", "filter(s, fn(x) x > 'c')"),
        ("append-all", "append_all([], s)"), ("append-all-set", "list(append_all(<<>>, s))"),
        ("append-all-map", "append_all([], m)"),
        ("grouped", "grouped(list(s), key = fn(x) length(x))"), ("for-each", "for_each(s, println)"),
        ("flatten", "flatten([s, [s]])"), ("flatten-set", "flatten(<<list(s), ['zz']>>)"),
        ("prod", "prod(list(mn))"),
    ]:
        a(T("list-" + name, f"println({call});", None, req=("List",)))
    a(T("list-permutations", "println(permutations(list(s)));", None, req=("List",), n=3))
    for name, call in [
        ("min", "min(list(s))"), ("max", "max(list(s))"), ("min-set", "min(s)"), ("max-key", "max(list(s), key = fn(x) length(x))"),
        ("any", "any(s, fn(x) x == 'fig')"), ("all", "all(s, fn(x) x > 'a')"), ("pairs", "pairs(list(s))"),
        ("enumerate-map", "enumerate(m)"), ("enumerate-set", "enumerate(s)"), ("enumerate-list", "enumerate(list(s))"),
        ("count", "count(m, 'alpha')"), ("chunks", "chunks(list(s), 3)"), ("label-data", "label_data(list(s), list(m))"),
        ("map-get", "map_get(m, 'fig', 'none')"), ("map-get-pattern", "map_get_pattern(m, 'xfigx', 'none')"),
        ("sprintf", "sprintf('{0} {1}', s, m)"), ("unwords", "unwords(list(s))"), ("unlines", "unlines(list(s))"),
    ]:
        a(T("core-" + name, f"println({call});", None))
    a(T("string-join", "println(join(s, ','));", None, req=("String",)))
    a(T("string-join-list", "println(join(list(s), ','));", "aslist.set", req=("String",)))
    a(T("string-q", "println(q(list(s)));", None, req=("String",)))
    for name, call in [("mean", "mean(list(mn))"), ("median", "median(list(mn))"), ("median-set", "median(set(list(mn)))"),
                       ("median-low", "median_low(list(mn))"), ("median-high", "median_high(list(mn))")]:
        a(T("stat-" + name, f"println({call});", None, req=("Stat",)))
    # ---- random numbers: same seed, same sequence, in every process
    a(T("random-seeded", "set_seed(7); println([random(1000) for i in range(10)]); println(random() < 2);", None,
        req=("Random",)))
    a(T("random-choice", "set_seed(11); println([choice(s) for i in range(6)]); println(choices(s, 4)); "
        "println(sample(s, 4)); println(sample(list(m), 3));", None, req=("Random",)))
    # ---- mixed scalars (strings hash by seed, ints and NULL do not; the order is the language's own `<`)
    for pool in MIXED:
        p = pool
        a(T(p + "-println-set", "println(s);", "render.set", pool=p))
        a(T(p + "-for-set", "for x in s do println(x); end;", "for.set", pool=p))
        a(T(p + "-list-of-set", "println(list(s));", "aslist.set", pool=p))
        a(T(p + "-spread-list-set", "println([...s]);", "spread.list.set", pool=p))
        a(T(p + "-destr-def-set", "def [a, b, c] = s; println(a); println(b); println(c);", "destr.def.set", pool=p))
        a(T(p + "-lcompr-set", "println([x for x in s]);", "compr.set", pool=p))
        a(T(p + "-map-keys", "def t = <<<x => 1 for x in s>>>; println(t); println([k for k in keys t]);", None, pool=p))
        a(T(p + "-sorted", "println(sorted(list(s)));", None, pool=p))
    ids = [t.tid for t in ts]
    assert len(ids) == len(set(ids)), [i for i in ids if ids.count(i) > 1]
    return ts


# ---------------------------------------------------------------- instances
class Instance:
    """One template with concrete elements and its construction orders."""

    def __init__(self, t, elems, orders, tokens, rankable):
        self.t = t
        self.elems = elems          # ranks of the base elements
        self.orders = orders        # list of (name, [rank, ...]) construction orders
        self.tokens = tokens        # rendered text -> int token
        self.rankable = rankable    # False: the language's order on this pool is not a strict total order

    def script(self, order):
        t = self.t
        lines = []
        for mod in t.req:
            lines.append(f"require {mod} unqualified;")
        if t.pool == "str":
            ks = [KEYW[r - 1] for r in order]
            lines.append("def s = <<" + ", ".join(f"'{k}'" for k in ks) + ">>;")
            lines.append("def m = <<<" + ", ".join(f"'{KEYW[r - 1]}' => '{VALW[val_of(r) - 101]}'" for r in order) + ">>>;")
            lines.append("def mi = <<<" + ", ".join(f"{r * 10} => '{VALW[val_of(r) - 101]}'" for r in order) + ">>>;")
            lines.append("def mn = <<<" + ", ".join(f"'{KEYW[r - 1]}' => {val_of(r)}" for r in order) + ">>>;")
        else:
            pool = MIXED[t.pool]
            lines.append("def s = <<" + ", ".join(pool[r][0] for r in order) + ">>;")
        lines.append(t.body)
        return "\n".join(lines) + "\n"


_TOTAL = {}


def mixed_ranks(pool):
    """Rank the pool by the language's own `<`, asked of the interpreter in
    this process (no sets involved); None if `<` is not a strict total order
    on the pool."""
    if pool in _TOTAL:
        return _TOTAL[pool]
    import_ckl()
    from ckl.interpreter import Interpreter
    it = Interpreter(True, False)
    lits = [x[0] for x in MIXED[pool]]
    n = len(lits)
    lt = [[it.interpret(f"{lits[i]} < {lits[j]}", "c12").value for j in range(n)] for i in range(n)]
    ok = all(not lt[i][i] for i in range(n))
    ok = ok and all(lt[i][j] != lt[j][i] for i in range(n) for j in range(n) if i != j)
    ok = ok and all(not (lt[i][j] and lt[j][k]) or lt[i][k] for i in range(n) for j in range(n) for k in range(n))
    res = None
    if ok:
        res = [sum(1 for j in range(n) if lt[j][i]) + 1 for i in range(n)]     # rank of pool[i]
    _TOTAL[pool] = res
    return res


def instantiate(t, rng, norders):
    if t.pool == "str":
        n = t.n or rng.choice([6, 7, 8])
        elems = sorted(rng.sample(range(1, 9), n))
        tokens = {KEYW[r - 1]: r for r in elems}
        tokens.update({VALW[val_of(r) - 101]: val_of(r) for r in elems})
        base = elems
        rankable = True
    else:
        pool = MIXED[t.pool]
        ranks = mixed_ranks(t.pool)
        base = list(range(len(pool)))           # indices into the pool
        rankable = ranks is not None
        tokens = {pool[i][1]: (ranks[i] if ranks else i + 1) for i in base}
        elems = sorted(tokens.values())
    orders = [("asc", sorted(base)), ("desc", sorted(base, reverse=True))]
    seen = {tuple(o) for _, o in orders}
    k = 0
    while len(orders) < norders:
        o = base[:]
        rng.shuffle(o)
        if tuple(o) not in seen:
            seen.add(tuple(o))
            orders.append((f"shuf{k}", o))
            k += 1
    return Instance(t, elems, orders, tokens, rankable)


_TOKEN_RE = {}


def tokenize(inst, text):
    key = tuple(sorted(inst.tokens))
    rx = _TOKEN_RE.get(key)
    if rx is None:
        alts = sorted(inst.tokens, key=lambda s: (-len(s), s))
        rx = re.compile(r"(?<![\w.\-])(?:" + "|".join(re.escape(a_) for a_ in alts) + r")(?![\w.])")
        _TOKEN_RE[key] = rx
    return [inst.tokens[m.group(0)] for m in rx.finditer(text)]


# ---------------------------------------------------------------- execution
def run_script(workdir, seed, legacy, repo=REPO, timeout=120):
    env = dict(os.environ)
    env["PYTHONPATH"] = os.path.join(repo, "src")
    env["PYTHONHASHSEED"] = str(seed)
    env.pop("PYTHONSTARTUP", None)
    cmd = [PY, "-m", "ckl.run", "-s"] + (["-l"] if legacy else []) + ["t.ckl"]
    for attempt in (0, 1):
        try:
            p = subprocess.run(cmd, cwd=workdir, env=env, stdout=subprocess.PIPE, stderr=subprocess.PIPE,
                               timeout=timeout, text=True, encoding="utf-8", errors="replace")
            return (p.returncode, p.stdout, p.stderr)
        except subprocess.TimeoutExpired:
            if attempt == 1:
                raise MachineryError(f"script timed out twice in {workdir}")
    return None


def execute(instances, seeds, legacy_seeds, workers=16):
    """-> {(tid, legacy): {(order name, seed): (rc, out, err)}}"""
    root = tempfile.mkdtemp(prefix="c12-")
    try:
        jobs = []
        for inst in instances:
            for oname, order in inst.orders:
                d = os.path.join(root, inst.t.tid, oname)
                os.makedirs(d)
                with open(os.path.join(d, "t.ckl"), "w", encoding="utf-8") as f:
                    f.write(inst.script(order))
                for sd in seeds:
                    jobs.append((inst.t.tid, False, oname, sd, d))
                for sd in legacy_seeds:
                    jobs.append((inst.t.tid, True, oname, sd, d))
        res = {}
        with ThreadPoolExecutor(max_workers=workers) as ex:
            outs = ex.map(lambda j: run_script(j[4], j[3], j[1]), jobs)
            for j, o in zip(jobs, outs):
                res.setdefault((j[0], j[1]), {})[(j[2], j[3])] = o
        return res, len(jobs)
    finally:
        shutil.rmtree(root, ignore_errors=True)


# ---------------------------------------------------------------- the model
def tlc_programs(run):
    """Order.tla with the table the property states (every site sorted):
    OrderIndependence must hold; exports the program table."""
    res = run_tlc("Order", "Order", coverage=True, timeout=1800)
    run.add_tlc(res, "Order: every site sorted, OrderIndependence over all permutations of <= 4 elements")
    progs = res.records("PROGS")
    if not progs:
        raise MachineryError("Order.tla exported no program table")
    return {p["id"]: p for p in progs[0]}


def tlc_predict(run, table, label):
    """Order.tla with a given Site table -> set of program ids whose
    observation can differ from the sorted one, with a witness each."""
    d = tempfile.mkdtemp(prefix="c12-site-")
    path = os.path.join(d, "site.json")
    try:
        with open(path, "w") as f:
            json.dump(table, f)
        res = run_tlc("Order", "Order_observed", env={"SITE_FILE": path}, coverage=True, timeout=1800)
    finally:
        shutil.rmtree(d, ignore_errors=True)
    run.add_tlc(res, label)
    vary = {}
    for v in res.records("VARY"):
        vary.setdefault(v["prog"], v)
    return vary


def validate_traces(run, lines):
    d = tempfile.mkdtemp(prefix="c12-trace-")
    path = os.path.join(d, "trace.ndjson")
    try:
        with open(path, "w") as f:
            for e in lines:
                f.write(json.dumps(e) + "\n")
        res = run_tlc("Order_Trace", workers=1, env={"TRACE_FILE": path}, timeout=1800)
    finally:
        shutil.rmtree(d, ignore_errors=True)
    run.add_tlc(res, "Order_Trace validation of recorded observations")
    done = res.records("DONE")
    if not done or done[-1]["n"] != len(lines):
        raise MachineryError("trace validation did not consume the whole trace")
    return {b["l"] - 1: b for b in res.records("BAD")}


# ---------------------------------------------------------------- verdicts
def observation(inst, o):
    """(rc, stdout, stderr) -> int sequence for the trace spec, or None."""
    rc, out, err = o
    if inst.t.parse == "int":
        s = out.strip()
        return [int(s)] if re.fullmatch(r"-?\d+", s) else None
    return tokenize(inst, out)


def judge(run, instances, results, progs, seeds_desc):
    """Apply both oracles; returns statistics."""
    by_tid = {i.t.tid: i for i in instances}
    varying = {}          # tid -> {legacy: n distinct}
    trace_lines = []
    trace_meta = []
    for (tid, legacy), obs in sorted(results.items()):
        inst = by_tid[tid]
        distinct = {}
        for (oname, sd), o in sorted(obs.items()):
            distinct.setdefault(o, []).append((oname, sd))
        if len(distinct) > 1:
            varying.setdefault(tid, {})[legacy] = distinct
        if inst.t.prog is not None and inst.rankable:
            for o, where in distinct.items():
                seq = observation(inst, o)
                trace_lines.append({"prog": inst.t.prog, "elems": inst.elems,
                                    "obs": seq if seq is not None else [-1], "n": len(where)})
                trace_meta.append((tid, legacy, o, where))
    bad = validate_traces(run, trace_lines) if trace_lines else {}
    unsorted = {}
    for k, b in bad.items():
        tid, legacy, o, where = trace_meta[k]
        unsorted.setdefault(tid, []).append((legacy, o, where, b, trace_lines[k]))
    for tid in sorted(set(varying) | set(unsorted)):
        inst = by_tid[tid]
        parts = []
        case = {"kind": "template", "tid": tid, "pool": inst.t.pool, "elems": inst.elems,
                "orders": inst.orders, "body": inst.t.body, "scripts": {on: inst.script(o) for on, o in inst.orders},
                "runs": []}
        cat = "varies" if tid in varying else "unsorted"
        if tid in varying:
            for legacy, distinct in varying[tid].items():
                ex = sorted(distinct.items(), key=lambda kv: -len(kv[1]))
                a_, b_ = ex[0], ex[1]
                parts.append(f"{len(distinct)} different outcomes over {sum(len(w) for w in distinct.values())} runs"
                             f"{' (legacy)' if legacy else ''}: order={a_[1][0][0]} PYTHONHASHSEED={a_[1][0][1]} -> "
                             f"{_short(a_[0])} but order={b_[1][0][0]} PYTHONHASHSEED={b_[1][0][1]} -> {_short(b_[0])}")
                case["runs"] += [{"legacy": legacy, "order": a_[1][0][0], "seed": a_[1][0][1]},
                                 {"legacy": legacy, "order": b_[1][0][0], "seed": b_[1][0][1]}]
        if tid in unsorted:
            legacy, o, where, b, line = unsorted[tid][0]
            parts.append(f"observation {line['obs']} is not the sorted enumeration the model predicts "
                         f"({b['want']}) for program {inst.t.prog}: order={where[0][0]} PYTHONHASHSEED={where[0][1]} -> {_short(o)}")
            case["runs"].append({"legacy": legacy, "order": where[0][0], "seed": where[0][1]})
        run.violation(tid, f"{cat}: `{inst.t.body.splitlines()[-1]}` " + "; ".join(parts), case)
    return varying, unsorted, len(trace_lines)


def _short(o):
    rc, out, err = o
    s = out.strip().replace("\n", " | ")
    if len(s) > 150:
        s = s[:150] + "..."
    if err.strip():
        s += " [stderr: " + err.strip().splitlines()[-1][:100] + "]"
    return repr(s)


def run(run):
    quick = run.tier == "quick"
    rng = random.Random(run.seed)
    seeds = list(range(8)) if quick else list(range(32))
    legacy_seeds = [0, 5] if quick else list(range(8))
    norders = 3 if quick else 6
    reps = 1 if quick else 3           # instantiations (different element subsets) per template
    progs = tlc_programs(run)
    ts = templates()
    for t in ts:
        if t.prog is not None and t.prog not in progs:
            raise MachineryError(f"template {t.tid} names program {t.prog} that OrderOps.tla does not define")
    instances = []
    for rep in range(reps):
        for t in ts:
            inst = instantiate(t, rng, norders)
            if rep:
                if t.pool != "str" or t.n:
                    continue
                t2 = T(f"{t.tid}#{rep}", t.body, t.prog, None, t.pool, t.req, t.parse, t.n)
                inst = Instance(t2, inst.elems, inst.orders, inst.tokens, inst.rankable)
            instances.append(inst)
    results, nproc = execute(instances, seeds, legacy_seeds)
    varying, unsorted, ntrace = judge(run, instances, results, progs, None)

    # ---- the Site table, derived from what was observed
    sites = sorted({s for p in progs.values() for s in p["sites"]})
    direct = {}
    for t in ts:
        if t.site:
            direct.setdefault(t.site, []).append(t.tid)
    table = {}
    unobservable = []
    for s in sites:
        if s in direct:
            table[s] = "raw" if any(tid in varying or tid in unsorted for tid in direct[s]) else "sorted"
        else:
            table[s] = "raw"
            unobservable.append(s)
    predicted = tlc_predict(run, table, "Order: Site table derived from the observations; which programs can vary")
    # prediction against observation, per program (drift only)
    seen_by_prog = {}
    for inst in instances:
        if inst.t.prog is not None and inst.t.pool == "str":
            seen_by_prog.setdefault(inst.t.prog, []).append(inst.t.tid in varying or inst.t.tid in unsorted)
    agree = 0
    for pid, flags in sorted(seen_by_prog.items()):
        if (pid in predicted) == any(flags):
            agree += 1
        else:
            run.drift("model-prediction-differs", {"prog": pid, "model_says_can_vary": pid in predicted,
                                                   "observed_varying": any(flags)})
    # which sites can reach an observable at all (every site raw)
    allraw = tlc_predict(run, {s: "raw" for s in sites}, "Order: every site raw; which programs let the order through")
    masked = sorted(p for p in progs if p not in allraw)
    for s in sites:
        if not any(s in progs[p]["sites"] for p in allraw):
            run.drift("site-never-observable", s)

    run.sample({"template": instances[0].t.tid, "script": instances[0].script(instances[0].orders[2][1]),
                "observation": results[(instances[0].t.tid, False)][(instances[0].orders[2][0], seeds[1])][1]})
    run.sample({"site_table_observed": table, "assumed_raw_because_not_directly_observable": unobservable})
    run.sample({"programs_where_raw_order_is_masked": masked})
    if predicted:
        run.sample({"model_counterexamples": list(predicted.values())[:4]})
    covered = sorted({i.t.prog for i in instances if i.t.prog})
    run.cov["traces_validated_against_impl"] = ntrace
    run.cov["evaluations"] = nproc
    run.cov["distinct_nontrivial"] = len(instances)
    run.cov["rule"] = ("one per template instance (enumeration path x element pool); evaluations = fresh interpreter "
                       "processes; traces = distinct observations of model-covered templates checked by Order_Trace")
    run.cov["exhaustive"] = False
    run.cov["templates"] = len(ts)
    run.cov["model_programs"] = len(progs)
    run.cov["model_programs_with_template"] = len(covered)
    run.cov["model_programs_without_template"] = sorted(set(progs) - set(covered))
    run.cov["sites"] = table
    run.cov["prediction_agreement"] = {"programs": len(seen_by_prog), "agree": agree}
    run.cov["bounds"] = {"hash_seeds": len(seeds), "legacy_hash_seeds": len(legacy_seeds),
                         "construction_orders": norders, "instances": len(instances), "processes": nproc}
    run.assumptions += [
        "observation = stdout (printed text, rendered result, error message), stderr and exit status of ckl.run",
        "a map's `values` enumerated by sorted key (for) or as sorted values (comprehensions, list(m)) both count as sorted order",
        "sorted order of mixed scalars = the language's own `<`; pools on which `<` is not a strict total order are "
        "checked for identical outcomes only",
        "objects keep insertion order by design; only object(map) (an enumeration of a map) is in scope",
        "random numbers: only set_seed-seeded sequences are compared (the statement fixes the random seed)",
    ]


def replay(run, case):
    ts = {t.tid: t for t in templates()}
    tid = case["tid"].split("#")[0]
    t = ts.get(tid) or T(case["tid"], case["body"], None, None, case.get("pool", "str"))
    orders = [(o[0], o[1]) for o in case["orders"]]
    if t.pool == "str":
        elems = case["elems"]
        tokens = {KEYW[r - 1]: r for r in elems}
        tokens.update({VALW[val_of(r) - 101]: val_of(r) for r in elems})
        inst = Instance(t, elems, orders, tokens, True)
    else:
        inst = instantiate(t, random.Random(0), 2)
        inst.orders = orders
    progs = tlc_programs(run)
    seeds = sorted({r["seed"] for r in case["runs"]} | {0, 1, 2, 3})
    legacy = any(r["legacy"] for r in case["runs"])
    results, nproc = execute([inst], seeds, seeds if legacy else [])
    judge(run, [inst], results, progs, None)
    run.cov["evaluations"] = nproc
