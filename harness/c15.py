"""C15 - indexing, slicing and sub-sequence functions follow the sequence model.

Spec: spec/SeqOps.tla (reference operators), spec/Seq.tla (list object state
machine, laws as invariants), spec/Seq_Trace.tla (trace validation).

Binding A: TLC explores Seq.tla and prints, per reachable list, the expected
result of every read for every argument (READ) and every mutator transition
(EDGE); both are replayed on the interpreter, for lists and for strings.
Binding B: random longer objects are driven through random call sequences on
the interpreter, every call is logged with what it returned / left behind and
the log is validated by TLC against Seq_Trace.tla.
"""
import json
import os
import random
import tempfile

from .common import import_ckl, MachineryError
from .tla import run_tlc
from . import absval

import_ckl()
from ckl.interpreter import Interpreter  # noqa: E402

NOVAL = -1000
CH = {1: "a", 2: "b", 3: "c", 4: "d", 5: "e"}


def sstr(seq):
    return "".join(CH[x] for x in seq)


def expr_outcome(it, src):
    o = absval.outcome(lambda: it.interpret(src, "c15"))
    if o[0] == "val":
        return ("val", absval.to_py(o[1]))
    if o[0] == "err":
        return ("err",)
    return ("host", o[1])


def want_seq(kind, seq):
    if kind == "str":
        return ("val", ("str", sstr(seq)))
    return ("val", ("list", tuple(seq)))


def want_elem(kind, x):
    if kind == "str":
        return ("val", ("str", CH[x]))
    return ("val", x)


def lit(kind, seq):
    if kind == "str":
        return "'" + sstr(seq) + "'"
    return "[" + ", ".join(str(x) for x in seq) + "]"


class Shape(Exception):
    def __init__(self, got):
        Exception.__init__(self, repr(got))
        self.got = got


class Checker:
    def __init__(self, run):
        self.run = run
        self.it = Interpreter(True, False)
        self.n = 0

    def expect(self, src, want, what):
        self.n += 1
        got = expr_outcome(self.it, src)
        if not absval.strict_eq(got, want):       # (a plain != cannot tell TRUE from 1)
            self.run.violation(src, f"{what}: expected {want!r} got {got!r}",
                               {"kind": "expr", "src": src, "want": want, "what": what})
        return got


def check_read_record(ck, rec, kinds=("str", "list")):
    s = rec["s"]
    lo = rec["lo"]
    n = len(s)
    w = len(rec["index"])
    for kind in kinds:
        L = lit(kind, s)
        for k in range(w):
            i = lo + k
            exp = rec["index"][k]
            want = ("err",) if exp == NOVAL else want_elem(kind, exp)
            ck.expect(f"{L}[{i}]", want, "index")
            te = want_seq(kind, rec["toend"][k])
            ck.expect(f"{L}[{i} to *]", te, "slice-to-end")
            fn = "substr" if kind == "str" else "sublist"
            ck.expect(f"{fn}({L}, {i})", te, fn + "-to-end")
            for kb in range(w):
                j = lo + kb
                ws = want_seq(kind, rec["slice"][k][kb])
                ck.expect(f"{L}[{i} to {j}]", ws, "slice")
                ck.expect(f"{fn}({L}, {i}, {j})", ws, fn)
            # identity s[0 to k] + s[k to *] == s
            ck.expect(f"{L}[0 to {i}] + {L}[{i} to *] == {L}", ("val", True), "split-identity")
        ck.expect(f"length({L})", ("val", n), "length")
        # the same read through a variable index, evaluated twice, and through one function applied to two
        # sequences: a position is a value, reading does not change it and the second read gives the same answer
        for k in range(w):
            i = lo + k
            exp = rec["index"][k]
            one = "'#E'" if exp == NOVAL else (str(exp) if kind == "list" else "'" + CH[exp] + "'")
            ck.expect(f"def k = {i}; def o = {L}; [do o[k] catch all '#E' end, do o[k] catch all '#E' end, k] == [{one}, {one}, {i}]",
                      ("val", True), "index-twice")
            te = lit(kind, rec["toend"][k])
            ck.expect(f"def k = {i}; def o = {L}; [o[k to *], o[k to *], {'substr' if kind == 'str' else 'sublist'}(o, k), k] == [{te}, {te}, {te}, {i}]",
                      ("val", True), "slice-twice")
        if kind == "list":
            # a slice / sublist is a NEW sequence also when it covers the whole list: editing it in place changes
            # exactly one position of IT and leaves the list it was cut from as it was (and the other way round)
            for a, b in ((0, "*"), (0, n), (0, n + 3), (-n - 2, "*"), (1, "*"), (0, max(n - 1, 0))):
                ck.expect(f"def o = {L}; def t = o[{a} to {b}]; append(t, 9); insert_at(t, 0, 8); [o, length(t) - length(o[{a} to {b}])] == [{L}, 2]",
                          ("val", True), "slice-result-independent")
                ck.expect(f"def o = {L}; def t = o[{a} to {b}]; def u = o[{a} to {b}]; append(o, 7); [t == u, length(o)] == [TRUE, {n + 1}]",
                          ("val", True), "slice-result-independent")
            ck.expect(f"def o = {L}; def t = sublist(o, 0); append(t, 9); def u = sublist(o, 0, {n}); append(u, 9); o == {L}",
                      ("val", True), "slice-result-independent")
        if kind == "str" and n:
            # what a read hands out is the element, not a handle on a shared object: changing it afterwards
            # does not change what the next read (of this or of an equal literal) returns
            f1 = "'" + CH[s[0]] + "'"
            ck.expect(f"def o = {L}; def c = o[0]; c[0] = 'e'; [o[0], o, {L}[0]] == [{f1}, {L}, {f1}]", ("val", True), "read-result-independent")
        other = lit(kind, list(s) + [1])
        for i in (-1, 0, n - 1, -n):
            if n == 0:
                break
            k = i - lo
            if not (0 <= k < w) or rec["index"][k] == NOVAL:
                continue
            e1 = rec["index"][k]
            e2 = 1 if i == -1 else (s[i] if i >= 0 else (s[i + 1] if i + 1 < 0 else s[0]))
            # `at` applied first to s, then to s + [1]: for i = -1 the second answer is the appended element
            if i == -n:
                e2 = 1 if n + 1 == 1 else (list(s) + [1])[-n]
            w1 = str(e1) if kind == "list" else "'" + CH[e1] + "'"
            w2 = str(e2) if kind == "list" else "'" + CH[e2] + "'"
            ck.expect(f"def at(o) o[{i}]; [at({L}), at({other}), at({L})] == [{w1}, {w2}, {w1}]", ("val", True), "index-in-function")
        if kind == "list" and n:
            # elements spelled as decimals at the odd positions: equal values, so find / find_last / in
            # answer as for the int spelling (equality across int and decimal is C06's statement)
            M = "[" + ", ".join((str(x) + ".0") if p % 2 else str(x) for p, x in enumerate(s)) + "]"
            M2 = "[" + ", ".join(str(x) if p % 2 else (str(x) + ".0") for p, x in enumerate(s)) + "]"
            for pi, part in enumerate(rec["parts"]):
                if len(part) != 1:
                    continue
                f0 = rec["find"][pi][0][0]
                fl = rec["findlast_default"][pi]
                for LL in (M, M2):
                    for P in (str(part[0]), str(part[0]) + ".0"):
                        ck.expect(f"find({LL}, {P})", ("val", f0), "find-mixed-numerals")
                        ck.expect(f"find_last({LL}, {P})", ("val", fl), "find_last-mixed-numerals")
                        ck.expect(f"{P} in {LL}", ("val", f0 >= 0), "in-vs-find")
        for pi, part in enumerate(rec["parts"]):
            if kind == "list" and len(part) != 1:
                continue
            P = lit("str", part) if kind == "str" else str(part[0])
            fl = rec["findlast_default"][pi]
            ck.expect(f"find_last({L}, {P})", ("val", fl), "find_last")
            f0 = rec["find"][pi][0][0]
            ck.expect(f"find({L}, {P})", ("val", f0), "find")
            ck.expect(f"{P} in {L}", ("val", f0 >= 0), "in-vs-find")      # (C18 also covers strings)
            # the position does not depend on what the caller calls its own things: names the library uses for
            # its defaults and helpers (identity, compare, key, equals ...) bound by the program, in the frame of the call
            ck.expect(f"def c15f_(identity, part) do def compare = 7; def key = [1]; def equals(a, b) FALSE; "
                      f"[find({L}, {P}), find_last({L}, {P})] end; c15f_(fn(x) 2 * x, 4)", ("val", ("list", (f0, fl))), "find-under-bound-names")
            if kind == "str":
                for st in range(0, n + 1):
                    f, g = rec["find"][pi][st]
                    ck.expect(f"find({L}, {P}, start={st})", ("val", f), "find-start")
                    if st < n:
                        ck.expect(f"find_last({L}, {P}, start={st})", ("val", g), "find_last-start")
            else:
                for st in range(0, n + 1):
                    f, g = rec["find"][pi][st]
                    ck.expect(f"find({L}, {P}, start={st})", ("val", f), "find-start")
                    if st < n:
                        ck.expect(f"find_last({L}, {P}, start={st})", ("val", g), "find_last-start")


def check_edge(ck, e):
    pre, post, op, i, v = e["pre"], e["post"], e["op"], e["i"], e["v"]
    L = lit("list", pre)
    if op == "insert_at":
        src = f"def l = {L}; def r = insert_at(l, {i}, {v}); [l, r]"
        want = ("val", ("list", (("list", tuple(post)), ("list", tuple(post)))))
        ck.expect(src, want, "insert_at")
    elif op == "delete_at":
        r = None if e["r"] == NOVAL else e["r"]
        src = f"def l = {L}; def r = delete_at(l, {i}); [l, r]"
        want = ("val", ("list", (("list", tuple(post)), r)))
        ck.expect(src, want, "delete_at")
    elif op == "assign":
        for kind in ("list", "str"):
            LL = lit(kind, pre)
            V = str(v) if kind == "list" else "'" + CH[v] + "'"
            src = f"def l = {LL}; l[{i}] = {V}; l"
            if e["ok"]:
                want = want_seq(kind, post)
            else:
                want = ("err",)
            ck.expect(src, want, "element-assign")
            if not e["ok"]:
                # the failed assignment must leave the object alone
                src2 = f"def l = {LL}; do l[{i}] = {V} catch all 0 end; l"
                ck.expect(src2, want_seq(kind, pre), "element-assign-error-leaves-object")


# ---------------------------------------------------------------- binding B
def record_traces(run, rng, ntraces, maxlen, maxidx, ksym):
    """Drive the interpreter with random call sequences on one object per
    trace and log every call with its observation (ints only: strings are
    logged as their code-point-like symbol numbers)."""
    events = []
    meta = []

    def ev(e, src):
        events.append(e)
        meta.append(src)

    for _ in range(ntraces):
        kind = rng.choice(["list", "str"])
        n0 = rng.randint(0, maxlen)
        cur = [rng.randint(1, ksym) for _ in range(n0)]
        it = Interpreter(True, False)
        it.interpret(f"def o = {lit(kind, cur)}", "c15")
        ev({"op": "new", "s": list(cur)}, f"def o = {lit(kind, cur)}")

        def val(x):
            return str(x) if kind == "list" else "'" + CH[x] + "'"

        def read_obj():
            o = absval.to_py(it.interpret("o", "c15"))
            try:
                if kind == "list":
                    return [x for x in o[1]]
                inv = {c: k for k, c in CH.items()}
                return [inv[c] for c in o[1]]
            except (KeyError, TypeError, IndexError):
                raise Shape(o)

        def unseq(p):
            # a result the sequence model has no place for (not a sequence, an element that is not one of
            # the symbols) is a finding in itself: Shape carries it to the end of the step
            try:
                if p[0] == "list":
                    out = list(p[1])
                    if not all(isinstance(x, int) and not isinstance(x, bool) for x in out):
                        raise Shape(p)
                    return out
                if p[0] != "str":
                    raise Shape(p)
                inv = {c: k for k, c in CH.items()}
                return [inv[c] for c in p[1]]
            except (KeyError, TypeError, IndexError):
                raise Shape(p)

        try:
            for _step in range(rng.randint(4, 12)):
                ri = lambda: rng.randint(-maxidx, maxidx)  # noqa: E731
                ops = ["index", "slice", "toend", "find", "find_last", "length", "concat_split",
                       "slice", "assign"]
                if kind == "list":
                    ops += ["insert_at", "delete_at", "insert_at", "delete_at"]
                op = rng.choice(ops)
                if op == "index":
                    i = ri()
                    src = f"o[{i}]"
                    o = expr_outcome(it, src)
                    e = {"op": op, "i": i, "ok": o[0] == "val", "r": 0}
                    if o[0] == "val":
                        got = unseq(("list", (o[1],)) if kind == "list" else o[1])
                        if len(got) != 1:
                            raise Shape(o[1])
                        e["r"] = got[0]
                elif op == "slice":
                    a, b = ri(), ri()
                    form = rng.choice(["to", "fn"])
                    fn = "substr" if kind == "str" else "sublist"
                    src = f"o[{a} to {b}]" if form == "to" else f"{fn}(o, {a}, {b})"
                    o = expr_outcome(it, src)
                    e = {"op": op, "a": a, "b": b, "ok": o[0] == "val", "r": unseq(o[1]) if o[0] == "val" else []}
                elif op == "toend":
                    a = ri()
                    form = rng.choice(["to", "fn"])
                    fn = "substr" if kind == "str" else "sublist"
                    src = f"o[{a} to *]" if form == "to" else f"{fn}(o, {a})"
                    o = expr_outcome(it, src)
                    e = {"op": op, "a": a, "ok": o[0] == "val", "r": unseq(o[1]) if o[0] == "val" else []}
                elif op in ("find", "find_last"):
                    m = 1 if kind == "list" else rng.randint(1, 3)
                    t = [rng.randint(1, ksym) for _ in range(m)]
                    P = val(t[0]) if kind == "list" else lit("str", t)
                    nn = len(read_obj())
                    if op == "find":
                        if rng.random() < 0.5:
                            st = rng.randint(0, nn)
                            src = f"find(o, {P}, start={st})"
                        else:
                            st = 0
                            src = f"find(o, {P})"
                    else:
                        if rng.random() < 0.5 and nn > 0:
                            st = rng.randint(0, nn - 1)
                            src = f"find_last(o, {P}, start={st})"
                        else:
                            st = nn - 1
                            src = f"find_last(o, {P})"
                    o = expr_outcome(it, src)
                    e = {"op": op, "t": t, "start": st, "ok": o[0] == "val",
                         "r": o[1] if o[0] == "val" and isinstance(o[1], int) else -99}
                elif op == "length":
                    src = "length(o)"
                    o = expr_outcome(it, src)
                    e = {"op": op, "ok": o[0] == "val", "r": o[1] if o[0] == "val" and isinstance(o[1], int) else -99}
                elif op == "concat_split":
                    k = ri()
                    src = f"o[0 to {k}] + o[{k} to *]"
                    o = expr_outcome(it, src)
                    e = {"op": op, "k": k, "ok": o[0] == "val", "r": unseq(o[1]) if o[0] == "val" else []}
                elif op == "insert_at":
                    i, v = ri(), rng.randint(1, ksym)
                    src = f"insert_at(o, {i}, {v})"
                    o = expr_outcome(it, src)
                    e = {"op": op, "i": i, "v": v, "ok": o[0] == "val", "post": read_obj()}
                elif op == "delete_at":
                    i = ri()
                    src = f"delete_at(o, {i})"
                    o = expr_outcome(it, src)
                    r = NOVAL
                    if o[0] == "val" and o[1] is not None:
                        r = o[1]
                    e = {"op": op, "i": i, "ok": o[0] == "val", "r": r, "post": read_obj()}
                else:  # assign
                    i, v = ri(), rng.randint(1, ksym)
                    src = f"o[{i}] = {val(v)}"
                    o = expr_outcome(it, src)
                    e = {"op": op, "i": i, "v": v, "ok": o[0] == "val", "post": read_obj()}
                if o[0] == "host":
                    run.violation(f"trace:{kind}:{src}:host:{o[1]}",
                                  f"host exception {o[1]} from {src} on {lit(kind, read_obj())}",
                                  {"kind": "expr-on", "obj": lit(kind, read_obj()), "src": src})
                ev(e, f"{kind} {src}")
        except Shape as sh:
            run.violation(f"trace:{kind}:shape:{sh.got!r}"[:200],
                          f"result-shape: a read on {lit(kind, cur)} (or a later state of it) returned {sh.got!r}, "
                          "which is not a sequence over the symbols it was built from",
                          {"kind": "expr-on", "obj": lit(kind, cur), "src": "o"})
    return events, meta


def validate_traces(run, events, meta):
    d = tempfile.mkdtemp(prefix="c15-")
    path = os.path.join(d, "trace.ndjson")
    try:
        with open(path, "w") as f:
            for e in events:
                f.write(json.dumps(e) + "\n")
        res = run_tlc("Seq_Trace", workers=1, env={"TRACE_FILE": path}, timeout=3000)
    finally:
        try:
            os.remove(path)
            os.rmdir(d)
        except OSError:
            pass
    run.add_tlc(res, "Seq_Trace validation of recorded executions")
    done = res.records("DONE")
    if not done or done[-1]["n"] != len(events):
        raise MachineryError("trace validation did not consume the whole trace")
    for b in res.records("BAD"):
        k = b["l"] - 1
        # find the `new` event that started this trace, for the replay case
        j = k
        while events[j]["op"] != "new":
            j -= 1
        run.violation(f"trace:{meta[j]} ; {meta[k]} -> {json.dumps(events[k], sort_keys=True)}",
                      f"recorded call rejected by Seq_Trace at clause {b['why']}",
                      {"kind": "trace", "events": events[j:k + 1], "meta": meta[j:k + 1]})
    return len(events)


def run(run):
    quick = run.tier == "quick"
    rng = random.Random(run.seed)
    cfgs = ["Seq_quick"] if quick else ["Seq_quick", "Seq_thorough"]
    ck = Checker(run)
    seen = set()
    nread = nedge = 0
    for cfg in cfgs:
        res = run_tlc("Seq", cfg, coverage=True, timeout=3000)
        run.add_tlc(res, f"Seq list-object machine ({cfg})")
        for rec in res.records("READ"):
            key = (tuple(rec["s"]), rec["lo"], len(rec["index"]))
            if key in seen:
                continue
            seen.add(key)
            if nread == 3:
                run.sample({"READ": {"s": rec["s"], "index": rec["index"], "toend": rec["toend"]}})
            check_read_record(ck, rec)
            nread += 1
        for e in res.records("EDGE"):
            key = ("E", tuple(e["pre"]), e["op"], e["i"], e["v"])
            if key in seen:
                continue
            seen.add(key)
            if nedge in (100, 2000):
                run.sample({"EDGE": e})
            check_edge(ck, e)
            nedge += 1
    if nread == 0 or nedge == 0:
        raise MachineryError("TLC exported no cases")
    nt = 400 if quick else 6000
    events, meta = record_traces(run, rng, nt, 12, 20, 5)
    nev = validate_traces(run, events, meta)
    run.sample({"TRACE": events[:6]})
    run.cov["traces_validated_against_impl"] = nread + nedge + nt
    run.cov["evaluations"] = ck.n + nev
    run.cov["distinct_nontrivial"] = nread + nedge + nt
    run.cov["rule"] = ("binding A: one case per distinct reachable list of Seq.tla (all reads with all "
                       "arguments, for the string and the list form) and one per distinct transition; "
                       "binding B: one random call sequence per trace; evaluations counts interpreter calls")
    run.cov["exhaustive"] = True
    run.cov["bounds"] = {"cfgs": cfgs, "random_traces": nt}
    run.assumptions += [
        "strings are checked over the symbols a..e standing for the model's 1..5",
        "find/find_last with an empty part are not compared (the property does not define them)",
    ]


def replay(run, case):
    ck = Checker(run)
    if case["kind"] == "expr":
        want = case["want"]
        want = _untuple(want)
        ck.expect(case["src"], want, case["what"])
    elif case["kind"] == "trace":
        validate_traces(run, case["events"], case["meta"])
    elif case["kind"] == "expr-on":
        it = Interpreter(True, False)
        it.interpret("def o = " + case["obj"], "c15")
        o = expr_outcome(it, case["src"])
        if o[0] == "host":
            run.violation("replay:" + case["src"], f"host exception {o[1]}", case)


def _untuple(x):
    if isinstance(x, list):
        return tuple(_untuple(i) for i in x)
    return x
