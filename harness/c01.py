"""C01 - parsing is total.

Specs: spec/LexerOps.tla + Lexer.tla (+ LexerMC.tla chunk tables): the scanner
as a character-driven transducer; spec/Parser.tla + ParserTable.tla (+
ParserMC.tla alphabets): the recursive-descent parser as a pushdown automaton
with lazily fed input.

TLC model-checks the mirrors (scanner total over its alphabets, parser never
stuck, error positions inside the input, EOF errors only at the end) and the
same runs export every terminal state: a character string (scanner configs) or
a token-class sequence (parser configs).  Binding A replays each of them - and
every single-token deletion / insertion / substitution of the accepted ones -
on ckl.parser.parse_script under a watchdog.  The verdict is the property's
own: the real parser returns a node or raises CklSyntaxError carrying a
message and a position, twice the same; nothing else may escape and it may not
hang.  The model's prediction (accept / syntax error at token k / unexpected
end of input) is compared too, as drift: it shows how faithfully the table
mirrors parser.py, it is never a violation.
"""
import multiprocessing as mp
import random
import signal

from .common import import_ckl, MachineryError
from .tla import run_tlc, run_tlc_many

import_ckl()

TIMEOUT_S = 5

LEXEME = {"int": "1", "decimal": "1.5", "string": "'s'", "boolean": "TRUE", "pattern": "//a//"}
VARIANTS = {
    "int": ["0", "007", "0x1F", "0xff", "0b101", "1_000", "0x_f", "9007199254740993", "1_", "1__0",
            # what the host's int() tolerates but the language does not: signs, blanks, underscores, prefixes
            "0x-1", "0x+f", "0b-1", "0b+1", "0x 1", "0x1_", "0b1_", "0b_1", "0x0x1", "0b0b1", "0x", "0b", "0b2", "0xg",
            "1e5", "0x1.8", "0b1.1", "١٢", "0x١",
            # characters str.isdigit() accepts but int() / float() do not, and the like for other predicates
            "1²", "²", "1③", "1\u00a02", "1\u2028", "x²", "é1", "1é",
            "9" * 5000, "0x" + "f" * 5000, "0b" + "1" * 20000],
    "decimal": ["0.5", "1_0.2_5", "1.", "1_.5", "1._5", "1.5e3", "1.e3", "1.5_", "1.-5", "1.+5", "1.٥", "1.5.5", "1.inf", "1.nan", "1.²", "2.5¹", "1.③", "1.\u00a05", "².5", "1." + "0" * 400, "9" * 400 + ".5"],
    "string": ["''", '"a\\"b"', "'x\\ny'", '"\\x41"', "'{x}'", "'l1\nl2'",
               # \x escapes: exactly two hex digits; int() would also take signs, blanks and underscores
               '"\\x-1"', "'\\x-f'", '"\\x+1"', "'\\x 1'", '"\\x_1"', "'\\x1_'", '"\\x1"', "'\\x'", '"\\xg1"', "'\\x1g'",
               "'a\\n'", "'\\n'", "' '", "'a\n'", "'a\n  b\n'", "'\n'", '"f(x)\n"', "'  a\n b'", "'\t'",
               '"ab\\x-7cd"', "'\\x0x'", '"\\x١١"', "'\\u0041'", '"\\q"', "'\\'", '"\\x4'],
    "boolean": ["FALSE"],
    "pattern": ["//[//", "//(//", "//*//", "//a|b//", "///", "//a{99999999999999999999}//",
                "//" + "(" * 120 + "a" + ")" * 120 + "//", "//(?P<n>a)(?P<n>b)//", "//\\//"],
    "identifier:x": ["checkerlang_x", "y", "_p", "x1", "a.b"],
}


def tok_text(t):
    if t["ty"] in LEXEME:
        return LEXEME[t["ty"]]
    return t["v"]


def render(toks, texts=None):
    if texts is None:
        texts = [tok_text(t) for t in toks]
    return " ".join(texts)


# ------------------------------------------------------------------ workers
class _Timeout(Exception):
    pass


def _alarm(signum, frame):
    raise _Timeout()


def _classify(text):
    from ckl.parser import parse_script
    from ckl.errors import CklSyntaxError
    from ckl.lexer import SourcePos
    try:
        node = parse_script(text, "t.ckl")
        if node is None or not hasattr(node, "evaluate"):
            return ("notnode", repr(node)[:60])
        return ("node", type(node).__name__)
    except CklSyntaxError as e:
        ok = isinstance(e.msg, str) and len(e.msg) > 0
        pos = e.pos
        if not isinstance(pos, SourcePos):
            return ("syntax-badpos", repr(e.msg)[:80], repr(pos)[:40])
        if not ok:
            return ("syntax-nomsg", repr(e.msg)[:80])
        if not (isinstance(pos.line, int) and pos.line >= 1 and pos.filename == "t.ckl"):
            return ("syntax-badpos", e.msg[:80], repr(pos)[:40])
        return ("syntax", e.msg, pos.line, pos.column)
    except _Timeout:
        raise
    except RecursionError:
        return ("host", "RecursionError", "")
    except BaseException as e:  # noqa: BLE001 - the point is to see what escapes
        return ("host", type(e).__name__, str(e)[:100])


def _work(texts):
    import_ckl()
    signal.signal(signal.SIGALRM, _alarm)
    out = []
    hangs = 0
    for text in texts:
        if hangs >= 5:
            break          # this chunk sits in a family of hanging inputs: enough evidence, do not spend 5 s on each
        res = []
        for _ in range(2):
            signal.alarm(TIMEOUT_S)
            try:
                r = _classify(text)
            except _Timeout:
                r = ("timeout",)
            finally:
                signal.alarm(0)
            res.append(r)
            if r[0] == "timeout":
                hangs += 1
                break
        out.append((text, res))
    return out


def classify_all(texts, procs=16, chunk=400):
    texts = list(texts)
    parts = [texts[k:k + chunk] for k in range(0, len(texts), chunk)]
    out = []
    timeouts = 0
    with mp.Pool(procs) as pool:
        for part in pool.imap(_work, parts):
            out.extend(part)
            timeouts += sum(1 for _, res in part if res[0][0] == "timeout")
            if timeouts > 60:
                # the parser hangs on a whole family of inputs: what is collected so far is
                # reported; going on would only spend 5 s per further input
                pool.terminate()
                break
    return out


# ------------------------------------------------------------------ verdict
def judge(run, text, res, origin):
    """the property's own observation; returns the (first) outcome"""
    r = res[0]
    case = {"text": text, "origin": origin}
    if r[0] == "timeout":
        # re-run in isolation before reporting (load must not cause alarms); once a few
        # hangs are confirmed that way the rest of this run's timeouts are reported directly
        confirmed = getattr(run, "_hangs_confirmed", 0)
        if confirmed >= 3:
            run.violation("hang:" + text, f"hang: no result within {TIMEOUT_S}s for {text!r}", case)
            return r
        again = _work([text])[0][1][0]
        if again[0] == "timeout":
            run._hangs_confirmed = confirmed + 1
            run.violation("hang:" + text, f"hang: no result within {TIMEOUT_S}s for {text!r}", case)
        return again
    if r[0] == "host":
        run.violation("host:" + text, f"host-exception: {r[1]} ({r[2]}) from parse_script({text!r})", case)
    elif r[0] == "notnode":
        run.violation("notnode:" + text, f"not-a-program: parse_script({text!r}) returned {r[1]}", case)
    elif r[0] in ("syntax-badpos", "syntax-nomsg"):
        run.violation("badsyntax:" + text, f"{r[0]}: syntax error without message/position for {text!r}: {r[1:]}", case)
    elif len(res) > 1 and res[1] != r:
        run.violation("nondet:" + text, f"nondeterministic: {r} then {res[1]} for {text!r}", case)
    return r


def col_to_index(texts):
    cols = {}
    c = 1
    for k, t in enumerate(texts):
        cols[c] = k + 1
        c += len(t) + 1
    return cols


def predict_diff(rec, texts, r):
    """drift only: does the PDA predict what the code does?  None = yes"""
    st = rec["status"]
    if st in ("deep", "stuck"):
        return None
    text = render(None, texts)
    if st == "accept":
        if r[0] != "node":
            return ("pda-accepts-code-rejects", {"text": text, "code": r[:2]})
        return None
    if r[0] != "syntax":
        return ("pda-rejects-code-accepts", {"text": text, "pda": st, "errAt": rec["errAt"]})
    iseof = r[1].startswith("Unexpected end of input")
    if (st == "eof") != iseof:
        return ("eof-vs-syntax", {"text": text, "pda": st, "code": r[1][:60]})
    idx = col_to_index(texts).get(r[3]) if r[2] == 1 else None
    if idx != rec["errAt"]:
        return ("error-token-differs", {"text": text, "pda_errAt": rec["errAt"],
                                        "code_col": r[3], "code_tok": idx, "msg": r[1][:60]})
    return None


# ------------------------------------------------------------------ phases
def lexer_phase(run, cfgs):
    texts = {}
    results = run_tlc_many([(("LexerMC", cfg), dict(timeout=3000, workers=4)) for cfg in cfgs], parallel=5)
    for cfg, res in zip(cfgs, results):
        run.add_tlc(res, f"Lexer noise ({cfg})")
        for rec in res.records("LEX"):
            t = "".join(chr(c) for c in rec["inp"])
            texts.setdefault(t, rec)
    return texts


def parser_phase(run, cfgs):
    recs = {}
    results = run_tlc_many([(("ParserMC", cfg), dict(timeout=3400, workers=4)) for cfg in cfgs], parallel=6)
    for cfg, res in zip(cfgs, results):
        run.add_tlc(res, f"Parser PDA ({cfg})")
        for rec in res.records("PARSE"):
            key = tuple((t["ty"], t["v"]) for t in rec["toks"])
            # a choice point yields several terminal states for one input: keep all
            recs.setdefault(key, []).append(rec)
    return recs


def edits(rng, toks, sigma, nsub):
    """every single-token deletion, and sampled insertions/substitutions"""
    out = []
    n = len(toks)
    for p in range(n):
        out.append(toks[:p] + toks[p + 1:])
    for p in range(n + 1):
        for t in rng.sample(sigma, min(nsub, len(sigma))):
            out.append(toks[:p] + [t] + toks[p:])
    for p in range(n):
        for t in rng.sample(sigma, min(nsub, len(sigma))):
            out.append(toks[:p] + [t] + toks[p + 1:])
    return out


FRAMES = ["{A} ; {B}", "( {A} )", "[ {A} , {B} ]", "f ( {A} , {B} )", "do {A} ; {B} end", "if {A} then {B} else {A}",
          "{A} = {B}", "[ {A} ] = {B}", "def x = {A}", "{A} !> f ( {B} )", "{A} [ {B} ]", "{A} -> x ( {B} )",
          "<<< {A} => {B} >>>", "<< {A} , {B} >>", "fn ( x , y = {A} ) {B}", "for x in {A} do {B} end",
          "while {A} do {B} end", "[ {A} for x in {B} ]", "[ {A} for x in {B} ] = {A}", "[ {A} for x in {B} if {A} ]",
          "<< {A} for x in {B} also for y in {A} >>", "<<< {A} => {B} for x in {A} >>>", "{A} is not {B}", "{A} in {B}",
          "{A} [ {B} to {A} ]", "{A} [ {B} to * ] = {A}", "do {A} catch {B} {A} finally {B} end", "return {A}", "error {A}",
          "<* x = {A} , y ( a ) {B} *>", "{A} and not {B} or {A}", "- {A} * + {B}", "require {A} import [ x as y ]",
          "def class x do def y = {A} ; def z ( ) {B} end", "{A} ( {B} ) ( {A} )", "def [ x , y ] = {A}",
          "for [ x , y ] in entries {A} {B}", "x += {A}", "x [ {A} ] %= {B}", "x -> y /= {A}", "... {A}", "f ( ... {A} , x = {B} )",
          "return ; {A}", "{A} ; return ;", "fn ( ) return ;", "do {A} ; return ; end",
          # a string in front of `def` is the definition's doc comment (handled at parse time)
          "'s' def x = {A}", "'s' def f ( x ) {A}", "{A} ; 's' def f ( ) do {B} end", "do 's' def x = {A} ; {B} end",
          "'s' def [ x , y ] = {A}", "'s' def class x do 's' def y = {A} end", "'s' 's' def x = {A}", "'s' {A}"]


# every binding construct with a protected (`checkerlang_`) name: the guards in the node constructors run at
# parse time (C01 anchors "system-variable guard in assignment node constructors")
_SYS = ["checkerlang_x", "checkerlang_secure_mode", "checkerlang_"]
GUARD_FORMS = ["{S} = 1", "[ {S} ] = [ 1 ]", "[ a , {S} ] = [ 1 , 2 ]", "[ {S} , b ] = << 1 , 2 >>", "def {S} = 1",
               "def [ {S} ] = [ 1 ]", "def [ a , {S} ] = [ 1 , 2 ]", "{S} += 1", "{S} -= 1", "{S} *= 2", "{S} /= 2", "{S} %= 2",
               "for {S} in [ 1 ] do 1 end", "for [ a , {S} ] in [ [ 1 , 2 ] ] do 1 end", "fn ( {S} ) 1", "fn ( a , {S} = 1 ) 1",
               "def f ( {S} ) 1", "[ 1 for {S} in [ 1 ] ]", "<< 1 for a in [ 1 ] for {S} in [ 2 ] >>",
               "<<< a => 1 for {S} in [ 1 ] >>>", "x -> {S} = 1", "x [ {S} ] = 1", "<* {S} = 1 *>", "<* {S} ( a ) 1 *>",
               "require x as {S}", "require x import [ a as {S} ]", "def class {S} do end", "f ( {S} = 1 )",
               "do [ {S} , b ] = [ 1 , 2 ] ; end", "fn ( ) [ a , [ {S} ] ] = 1", "{S}", "{S} ( )", "def f ( ) do {S} = 1 ; end"]
GUARD_TEXTS = sorted({f.replace("{S}", sv) for f in GUARD_FORMS for sv in _SYS})
# pattern literals the host's regular-expression compiler accepts with a warning about its future syntax: whether a
# text is a program must not depend on the host's warning filter (one fresh process runs with warnings as errors)
WARN_TEXTS = ["//[[a]//", "//[a--b]//", "//[a&&b]//", "//[a||b]//", "//[a~~b]//", "def p = //[[:alpha:]]//", "x matches //[[a]//"]
# inline flags the host's compiler refuses with an exception of its own kind (not its pattern error)
FLAG_TEXTS = ["//(?a)(?u)x//", "//(?u)(?a)//", "//(?L)x//", "//(?aL)x//", "def p = //(?a)(?u)x//", "x matches //(?L)a//",
              "//(?a)x(?u)//", "//(?i)(?L)//"]
GUARD_TEXTS = sorted(set(GUARD_TEXTS) | set(WARN_TEXTS) | set(FLAG_TEXTS))


def compose(rng, fragments, n):
    """longer programs: short accepted programs plugged into every construct"""
    out = set()
    for _ in range(n):
        fr = rng.choice(FRAMES)
        a, b = rng.choice(fragments), rng.choice(fragments)
        if rng.random() < 0.3:          # nest once more
            a = rng.choice(FRAMES).replace("{A}", a).replace("{B}", rng.choice(fragments))
        out.add(fr.replace("{A}", a).replace("{B}", b))
    return out


def deep_texts(maxdepth):
    out = []
    for d in (1, 5, 10, 20, 30, 40):
        if d > maxdepth:
            break
        out.append("(" * d + "1" + ")" * d)
        out.append("[" * d + "1" + "]" * d)
        out.append("<<" * d + " 1 " + ">> " * d)
        out.append("do " * d + "1 " + "end " * d)
        out.append("fn() " * d + "1")
        out.append("if TRUE then " * d + "1")
        out.append("f(" * d + "1" + ")" * d)
        out.append("x[" * d + "1" + "]" * d)
        out.append("(" * d + "1")                    # truncated
        out.append("[" * d)
        out.append("do " * d)
        out.append("- " * d + "1")
        out.append("not " * d + "TRUE")
        out.append("1 " + "+ (1 " * d + ")" * d)
    return out


def run(run):
    quick = run.tier == "quick"
    rng = random.Random(run.seed)
    n_cases = 0
    # -- scanner noise
    lcfgs = ["Lexer_K1", "Lexer_K2", "Lexer_K3", "Lexer_K4", "Lexer_K5"] if quick else \
            ["Lexer_K1t", "Lexer_K2t", "Lexer_K3t", "Lexer_K4t", "Lexer_K5t"]
    ltexts = lexer_phase(run, lcfgs + ["Lexer_struct"])
    run.sample({"noise": [repr(t) for t in list(ltexts)[1000:1004]]})
    for text, res in classify_all(ltexts):
        r = judge(run, text, res, "lexer-noise")
        n_cases += 1
        st = ltexts[text]["status"]
        if st == "lexerror" and r[0] != "syntax":
            run.drift("lexer-model-error-code-not", {"text": text, "code": r[:2]})
    # -- parser automaton
    pcfgs = ["Parser_full2", "Parser_expr", "Parser_stmt", "Parser_lit", "Parser_req", "Parser_empty"] if quick else \
            ["Parser_full3", "Parser_expr_t", "Parser_stmt_t", "Parser_lit_t", "Parser_req_t", "Parser_empty_t"]
    precs = parser_phase(run, pcfgs)
    keys = list(precs)
    texts_of = {k: [tok_text({"ty": ty, "v": v}) for ty, v in k] for k in keys}
    by_text = {}
    for k in keys:
        by_text.setdefault(render(None, texts_of[k]), k)
    k0 = keys[len(keys) // 2]
    run.sample({"tokens": list(k0), "text": render(None, texts_of[k0]),
                "pda": [(r["status"], r["errAt"]) for r in precs[k0]]})
    agree = 0
    for text, res in classify_all(by_text):
        k = by_text[text]
        r = judge(run, text, res, "parser-pda")
        n_cases += 1
        # with data-dependent choices any of the model's outcomes may be the code's
        diffs = [predict_diff(rec, texts_of[k], r) for rec in precs[k]]
        if any(d is None for d in diffs):
            agree += 1
        else:
            run.drift(*diffs[0])
    run.cov["pda_predictions_agreeing"] = agree
    run.cov["pda_predictions_compared"] = len(by_text)
    # -- lexeme variants of accepted programs, and one-token edits
    accepted = [k for k in keys if any(r["status"] == "accept" for r in precs[k])]
    sigma = sorted({t for k in keys for t in k})
    sigma_t = [{"ty": ty, "v": v} for ty, v in sigma]
    vtexts = set()
    nacc = 400 if quick else 6000
    for k in rng.sample(accepted, min(nacc, len(accepted))):
        toks = [{"ty": ty, "v": v} for ty, v in k]
        base = [tok_text(t) for t in toks]
        for p, t in enumerate(toks):
            vs = VARIANTS.get(t["ty"], []) + VARIANTS.get(t["ty"] + ":" + t["v"], [])
            for v in vs:
                vtexts.add(render(None, base[:p] + [v] + base[p + 1:]))
        for e in edits(rng, toks, sigma_t, 6 if quick else 20):
            vtexts.add(render(e))
    # longer programs composed of short accepted ones, and their one-token edits
    frags = sorted({render(None, texts_of[k]) for k in accepted if 1 <= len(k) <= 4})
    comp = compose(rng, frags, 6000 if quick else 120000)
    for text in list(comp)[: (600 if quick else 6000)]:
        toks = text.split(" ")
        for p in range(len(toks)):
            comp.add(" ".join(toks[:p] + toks[p + 1:]))
            comp.add(" ".join(toks[:p] + [tok_text(rng.choice(sigma_t))] + toks[p + 1:]))
    # lexeme variants inside the composed programs too (the frames bring constructs the short accepted
    # programs do not reach: destructuring targets, parameters, members, import lists)
    cls_of = {"1": "int", "1.5": "decimal", "'s'": "string", "TRUE": "boolean", "//a//": "pattern",
              "x": "identifier:x", "y": "identifier:x", "z": "identifier:x", "a": "identifier:x", "f": "identifier:x"}
    nvar = 0
    for text in sorted(comp)[:: max(1, len(comp) // (400 if quick else 4000))]:
        toks = text.split(" ")
        for p, t in enumerate(toks):
            for v in VARIANTS.get(cls_of.get(t, ""), []):
                if len(v) <= 40:
                    comp.add(" ".join(toks[:p] + [v] + toks[p + 1:]))
                    nvar += 1
    run.cov["composed_lexeme_variants"] = nvar
    run.cov["composed_programs"] = len(comp)
    vtexts |= comp
    vtexts |= set(GUARD_TEXTS)
    vtexts -= set(by_text)
    for text, res in classify_all(sorted(vtexts)):
        judge(run, text, res, "edit-or-lexeme-variant")
        n_cases += 1
    # -- nesting up to 40
    for text, res in classify_all(deep_texts(40), procs=4, chunk=8):
        judge(run, text, res, "deep-nesting")
        n_cases += 1
    # -- "the same text always gives the same outcome": also in another process, under another string-hash
    # seed, and whatever was parsed before it (fresh processes parse the sample in reversed order)
    sample = sorted(by_text)[:: max(1, len(by_text) // (500 if quick else 5000))] + GUARD_TEXTS \
        + sorted(vtexts)[:: max(1, len(vtexts) // (500 if quick else 5000))]
    sample = sorted(set(sample))
    here = dict((t, res[0]) for t, res in classify_all(sample, procs=4, chunk=200))
    nx = cross_process(run, sample, here, seeds=(1, 2) if quick else (1, 2, 3, 4, 5))
    run.cov["cross_process_outcomes_compared"] = nx
    n_cases += nx
    # -- the read-eval-print loop on top of the parser (Repl.tla): continuation prompts follow the parser's
    # verdict on the buffer; a parser that fails with a host exception would make the loop ask for more for ever
    from . import repl
    beh = repl.model_behaviours(run, "Repl_quick" if quick else "Repl_thorough",
                                "Repl: every way of typing <= %d tokens in lines" % (3 if quick else 4))

    def _parse_viol(key, what, case):
        run.violation(key, what, case)

    def _eval_note(key, what, case):            # evaluation-level failures of a session are C13's subject
        run.drift("repl-evaluation-failure", {"key": key, "what": what})
    rstats = repl.replay(run, beh, rng, 600 if quick else 20000, _parse_viol, _eval_note,
                         max_finished=7000 if quick else 60000)
    run.cov["repl"] = dict(rstats, model_behaviours=len(beh))
    n_cases += rstats["behaviours"]
    run.cov["traces_validated_against_impl"] = n_cases
    run.cov["evaluations"] = 2 * n_cases
    run.cov["distinct_nontrivial"] = n_cases - 1
    run.cov["rule"] = ("distinct source texts (terminal states of the scanner and parser models, one-token "
                       "edits and lexeme variants of accepted programs, nesting to 40); each parsed twice; "
                       "all but the empty text count as non-trivial")
    run.cov["exhaustive"] = True
    run.cov["bounds"] = {"lexer_cfgs": lcfgs, "parser_cfgs": pcfgs,
                         "accepted_programs_edited": min(nacc, len(accepted))}
    run.assumptions += [
        "nesting deeper than 40 is out of scope (property statement)",
        "the PDA does not model data-dependent parser branches (destructuring-assign item check, "
        "checkerlang_ guard, pattern compilation): its accept/reject prediction is drift-only",
    ]
    if not n_cases:
        raise MachineryError("no cases")


_CROSS = r"""
import sys, json, signal
sys.path.insert(0, %r)
from harness import c01
from harness.common import import_ckl
import_ckl()
texts = json.load(open(sys.argv[1]))
signal.signal(signal.SIGALRM, c01._alarm)
out = []
for t in reversed(texts):
    signal.alarm(20)
    try:
        r = c01._classify(t)
    except c01._Timeout:
        r = ("timeout",)
    finally:
        signal.alarm(0)
    out.append([t, list(r)])
json.dump(out, open(sys.argv[2], "w"))
"""


def cross_process(run, texts, here, seeds):
    import json
    import os
    import subprocess
    import sys
    import tempfile
    d = tempfile.mkdtemp(prefix="c01x-")
    n = 0
    try:
        src = os.path.join(d, "texts.json")
        with open(src, "w") as f:
            json.dump(texts, f)
        root = os.path.dirname(os.path.dirname(os.path.abspath(__file__)))
        procs = []
        for sd in seeds:
            out = os.path.join(d, f"out{sd}.json")
            env = dict(os.environ, PYTHONHASHSEED=str(sd))
            env.pop("PYTHONWARNINGS", None)
            strict = ["-W", "error"] if sd == seeds[-1] else []       # the last process turns warnings into errors
            procs.append((sd, out, subprocess.Popen([sys.executable] + strict + ["-c", _CROSS % root, src, out], env=env,
                                                    stdout=subprocess.DEVNULL, stderr=subprocess.PIPE)))
        for sd, out, pr in procs:
            _, err = pr.communicate(timeout=1500)
            if pr.returncode != 0 or not os.path.exists(out):
                raise MachineryError(f"cross-process parse (seed {sd}) failed: {err.decode()[-300:]}")
            for t, r in json.load(open(out)):
                n += 1
                a = here.get(t)
                if a is None or a[0] == "timeout" or r[0] == "timeout":
                    continue
                if list(a) != list(r):
                    run.violation("crossproc:" + t,
                                  f"nondeterministic: {t!r} gives {tuple(a)} in this process and {tuple(r)} in a fresh process "
                                  f"with string-hash seed {sd} (texts parsed in reversed order"
                                  + (", host warnings turned into errors)" if sd == seeds[-1] else ")"),
                                  {"text": t, "kind": "cross", "seed": sd})
    finally:
        import shutil
        shutil.rmtree(d, ignore_errors=True)
    return n


def replay(run, case):
    if case.get("kind") == "cross":
        import_ckl()
        a = _classify(case["text"])
        got = cross_process(run, [case["text"]], {case["text"]: a}, seeds=(case["seed"], case["seed"] + 7))
        run.cov["evaluations"] = got
        return
    if case.get("kind") == "repl":
        from . import repl
        prompts, outputs, exc = repl.session(case["lines"])
        buf = "".join(case["lines"])
        cls, detail = repl.parse_class(buf)
        if exc is not None or cls == "host":
            run.violation("repl-host:" + buf, f"repl-host-exception: {type(exc).__name__ if exc else detail} on {buf!r}", case)
        elif cls in ("syntax", "ok") and len(prompts) == len(case["lines"]) + 1 and prompts[-1] == "+ ":
            run.violation("repl-hang:" + buf, f"repl-continuation: the parser's verdict on {buf!r} is {cls}; the loop asks for more input", case)
        return
    res = _work([case["text"]])[0][1]
    judge(run, case["text"], res, case.get("origin", "replay"))
