"""C19 - collection and numeric library functions satisfy their defining laws.

Spec: spec/LibOps.tla (reference operators), spec/BigInt.tla (limb integers),
spec/Bits32.tla (32-bit words), spec/Lib.tla (driver machine, the laws as
invariants), spec/Lib_Trace.tla (validation of recorded calls),
spec/BigIntTest.tla (the limb arithmetic against TLC's native arithmetic).

Binding A: TLC explores Lib.tla and prints, for every small argument tuple of
every function family, the expected result; each is replayed on the
interpreter (lists and sets, every permutation of every multiset), once with
the modules required unqualified and once in the legacy base environment,
where the same names are bound by modules/legacy.ckl.
Binding B: random lists/sets up to length 8 (duplicates, 1 versus 1.0), ints
up to 2^80 and the whole word/shift grid are run through the interpreted
functions; every call is logged with what it returned and the log is
validated by TLC against Lib_Trace.tla (all arithmetic in limbs, by TLC).

Round 3: the element universe is every int, decimal and string of the
language (LibOps "bint" / "bdec" / "text": limb integers, exact dyadic
rationals, code point sequences).  Both bindings hold ints above 2^53 beside
the neighbouring decimals, decimals of tiny magnitude (2^-41 ...: sums that
are exact doubles with 13+ decimal places), the doubles of 0.1 / 0.2 / 0.3,
strings of several characters in both cases, and pow with exponents up to
2^16 (and up to 2^70 for the bases 0, 1, -1).
"""
import json
import multiprocessing
import os
import random
import tempfile
import threading
from fractions import Fraction

from .common import import_ckl, MachineryError
from .tla import run_tlc
from . import absval

import_ckl()
from ckl.interpreter import Interpreter  # noqa: E402

# The six order/mean statistics are named by the statement only as "invariant
# under permutation".  With STRICT_STAT_VALUES a value that differs from the
# textbook definition on every permutation (e.g. median_high off by one) is a
# violation too; set it to False to count those as drift.
STRICT_STAT_VALUES = True

# mean over decimals whose sum is not an exact double: before the repair "sum() and mean() of decimals do not
# depend on the order of the list" the result depended on the order of the list in its last bit
# (mean([0.1, 0.2, 0.3]) against mean([0.3, 0.2, 0.1])).  The statement says "invariant under permutation", so
# that is reported (perm-variance); set this to False to count a difference within 1e-9 on such inputs as drift.
STRICT_MEAN_ORDER = True

ALPHA = {1: "a", 2: "b", 3: "c", 4: "d"}
CODE = {v: k for k, v in ALPHA.items()}
MODULES = ["List", "Set", "Stat", "Math", "Bitwise"]
T32 = 1 << 32

PRED = {"even": "fn(x) x % 2 == 0", "gt": "fn(x) x > {c}", "ne": "fn(x) x != {c}"}
MAPF = {"sq": "fn(x) x * x", "addc": "fn(x) x + {c}", "neg": "fn(x) -x"}
BINF = {"add": "fn(a, b) a + b", "sub": "sub", "mix": "fn(a, b) 2 * a + b"}
PREDS = ["even", "gt", "ne"]
MAPS = ["sq", "addc", "neg"]
BINS = ["add", "sub", "mix"]
BITOPS = ["bit_and", "bit_or", "bit_xor", "bit_not", "bit_shift_left",
          "bit_shift_right", "bit_rotate_left", "bit_rotate_right"]
WORDS = [0, 1, 1 << 15, (1 << 16) - 1, (1 << 31) - 1, 1 << 31, (1 << 32) - 1]


# ------------------------------------------------------------------ encodings
def big(n):
    """Python int -> limb record (base 10^4, little endian)."""
    sg = (n > 0) - (n < 0)
    n = abs(n)
    mag = []
    while n:
        mag.append(n % 10000)
        n //= 10000
    return {"sg": sg, "mag": mag}


def unbig(d):
    n = 0
    for limb in reversed(d["mag"]):
        n = n * 10000 + limb
    return d["sg"] * n


def dec_text(n, e):
    """the exact decimal expansion of n / 2^e (a finite one: n * 5^e / 10^e)"""
    sign = "-" if n < 0 else ""
    digits = str(abs(n) * 5 ** e)
    if e == 0:
        return sign + digits + ".0"
    digits = digits.rjust(e + 1, "0")
    return sign + digits[:-e] + "." + digits[-e:]


def text_of(x):
    """model string -> Python string"""
    if x["k"] == "str":
        return ALPHA[x["v"]]
    return "".join(chr(c) for c in x["cp"])


def qfrac(x):
    """model number -> its exact value"""
    k = x["k"]
    if k == "int":
        return Fraction(x["v"])
    if k == "dec":
        return Fraction(x["v"], 2)
    if k == "bint":
        return Fraction(unbig(x["big"]))
    if k == "bdec":
        return Fraction(unbig(x["num"]), 1 << x["e"])
    raise ValueError(x)


NUMK = ("int", "dec", "bint", "bdec")
STRK = ("str", "text")


def lit(x):
    """model scalar / nested list -> checkerlang source literal"""
    k = x["k"]
    if k == "int":
        return str(x["v"])
    if k == "dec":
        return repr(x["v"] / 2.0)
    if k == "bint":
        return str(unbig(x["big"]))
    if k == "bdec":
        return dec_text(unbig(x["num"]), x["e"])
    if k == "str":
        return "'" + ALPHA[x["v"]] + "'"
    if k == "text":
        return absval.quote(text_of(x))
    if k == "list":
        return "[" + ", ".join(lit(i) for i in x["items"]) + "]"
    raise ValueError(x)


def mk_int(n):
    """Python int -> model scalar (the compact kind when it exists)"""
    return {"k": "int", "v": n} if abs(n) < (1 << 30) else {"k": "bint", "big": big(n)}


def mk_dec(x):
    """finite Python float -> model scalar: halves when possible, else the exact dyadic rational in lowest terms"""
    num, den = x.as_integer_ratio()
    if den <= 2 and abs(num) * (2 // den) < (1 << 30):
        return {"k": "dec", "v": num * (2 // den)}
    return {"k": "bdec", "num": big(num), "e": den.bit_length() - 1}


def mk_str(t):
    return {"k": "str", "v": CODE[t]} if t in CODE else {"k": "text", "cp": [ord(c) for c in t]}


def lits(seq, form="list"):
    body = ", ".join(lit(x) for x in seq)
    return "<<" + body + ">>" if form == "set" else "[" + body + "]"


OTHER = {"k": "other", "v": 0}


def enc(p):
    """absval abstraction of a ckl value -> model scalar (or OTHER); every int, finite decimal and string has
    exactly one encoding"""
    if isinstance(p, bool) or p is None:
        return OTHER
    if isinstance(p, int):
        return mk_int(p)
    if isinstance(p, tuple) and len(p) == 2:
        if p[0] == "dec":
            x = p[1]
            if not isinstance(x, float) or x != x or x in (float("inf"), float("-inf")):
                return OTHER
            return mk_dec(x)
        if p[0] == "str":
            return mk_str(p[1]) if isinstance(p[1], str) else OTHER
        if p[0] == "list":
            return {"k": "list", "items": [enc(i) for i in p[1]]}
    return OTHER


def enc_seq(p):
    """a ckl list of scalars -> list of model scalars, or None (wrong shape)"""
    if isinstance(p, tuple) and len(p) == 2 and p[0] == "list":
        return [enc(i) for i in p[1]]
    return None


def enc_seqseq(p):
    if isinstance(p, tuple) and len(p) == 2 and p[0] == "list":
        out = []
        for i in p[1]:
            s = enc_seq(i)
            if s is None:
                return None
            out.append(s)
        return out
    return None


def enc_num(p):
    """numeric ckl value -> exact observation record, or None"""
    if isinstance(p, bool):
        return None
    if isinstance(p, int):
        return {"k": "int", "big": big(p)}
    if isinstance(p, tuple) and len(p) == 2 and p[0] == "dec":
        x = p[1]
        if x != x or x in (float("inf"), float("-inf")):
            return None
        num, den = x.as_integer_ratio()
        return {"k": "dec", "num": big(num), "e": den.bit_length() - 1}
    return None


def enc_int(p):
    if isinstance(p, int) and not isinstance(p, bool):
        return big(p)
    return None


def cls(x):
    """equality class of a model scalar: 1 and 1.0 are one element (the exact values are compared: 2^53 + 1 and
    the decimal 2^53 are two)"""
    if x["k"] in NUMK:
        return ("num", qfrac(x))
    if x["k"] in STRK:
        return ("str", text_of(x))
    return (x["k"], json.dumps(x, sort_keys=True))


def key_of(x):
    if x["k"] == "int":
        return 2 * x["v"]
    return x["v"]


# ------------------------------------------------------------------ the code
class Impl:
    """legacy=False: Interpreter(True, False) + `require M unqualified` for the modules of the
    property; legacy=True: the legacy base environment as it comes (Interpreter(True, True)),
    where all of these functions are meant to exist unqualified."""

    def __init__(self, legacy=False):
        self.legacy = legacy
        self.it = Interpreter(True, legacy)
        if not legacy:
            for m in MODULES:
                self.it.interpret(f"require {m} unqualified", "c19")
        self.n = 0

    def call(self, src):
        """-> ("val", abstraction) | ("err", text) | ("host", class, text)"""
        self.n += 1
        o = absval.outcome(lambda: self.it.interpret(src, "c19"))
        if o[0] == "val":
            return ("val", absval.to_py(o[1]))
        if o[0] == "err":
            return ("err", str(getattr(o[2], "msg", ""))[:80])
        if o[0] == "syntax":
            raise MachineryError(f"harness produced a syntax error: {src}: {o[1]}")
        return ("host", o[1], o[2])


def show(o):
    try:
        return repr(o)[:160]
    except ValueError:            # the host refuses to print an int of more than 4300 digits
        if len(o) > 1 and isinstance(o[1], int):
            return f"({o[0]!r}, <an int of {o[1].bit_length()} bits>)"
        return f"({o[0]!r}, <a value holding an int too long to print>)"


# -------------------------------------------------- binding A: check forms
def fits(o, want):
    """does outcome o of the interpreter satisfy the expectation `want`
    (a JSON-able dict produced from a TLC record)?  -> (bool, note)"""
    if o[0] != "val":
        return False, "no value"
    v = o[1]
    t = want["t"]
    if t == "seq":                      # list of scalars / nested, exact
        return enc_seq(v) == want["v"], ""
    if t == "seqseq":
        return enc_seqseq(v) == want["v"], ""
    if t == "enum":
        if not (isinstance(v, tuple) and v[0] == "list"):
            return False, "not a list"
        got = []
        for p in v[1]:
            if not (isinstance(p, tuple) and p[0] == "list" and len(p[1]) == 2
                    and isinstance(p[1][0], int)):
                return False, "not [index, element] pairs"
            got.append({"idx": p[1][0], "x": enc(p[1][1])})
        return got == want["v"], ""
    if t == "set":                      # set, compared on equality classes
        if not (isinstance(v, tuple) and v[0] == "set"):
            return False, "not a set"
        el = [enc(i) for i in v[1]]
        cl = [cls(i) for i in el]
        if len(set(cl)) != len(cl):
            return False, "Equal duplicates inside a set"
        return set(cl) == set(cls(i) for i in want["v"]), ""
    if t == "ints":
        return absval.strict_eq(v, ("list", tuple(want["v"]))), ""
    if t == "int":                      # exact int of any size
        return (isinstance(v, int) and not isinstance(v, bool) and v == int(want["v"])), ""
    if t == "num":                      # rational n/d; int flag if given
        q = num_value(v)
        if q is None:
            return False, "not a number"
        if want.get("int") is not None and isinstance(v, int) != want["int"]:
            return False, "int/decimal kind"
        exp = Fraction(int(want["n"]), int(want["d"]))
        if "tol" in want:               # the model says whether the double arithmetic is exact on this input
            if want["exact"]:
                return q == exp, "(to the last bit: every step of the double arithmetic is exact here)"
            return abs(q - exp) <= Fraction(int(want["tol"][0]), int(want["tol"][1])), ""
        d = int(want["d"])
        if want.get("exact") or (d & (d - 1)) == 0:
            return q == exp, ""
        return abs(q - exp) <= Fraction(1, 10 ** 9) * abs(exp), ""
    if t == "key":                      # element with this order key
        e = enc(v)
        if e["k"] not in ("int", "dec", "str"):
            return False, "not an element of the list"
        if (e["k"] != "str") != want["numeric"]:
            return False, "kind"
        return key_of(e) == want["key"], ""
    if t == "el":                       # an element Equal to this one (1 or 1.0: not stated which)
        e = enc(v)
        if e["k"] not in NUMK + STRK:
            return False, "not an element"
        return cls(e) == cls(want["el"]), ""
    raise MachineryError("unknown expectation " + t)


def num_value(v):
    if isinstance(v, bool):
        return None
    if isinstance(v, int):
        return Fraction(v)
    if isinstance(v, tuple) and len(v) == 2 and v[0] == "dec" and v[1] == v[1] \
            and abs(v[1]) != float("inf"):
        return Fraction(v[1])
    return None


def canon(o):
    """result up to Equal (1 == 1.0), for comparing runs on permutations"""
    if o[0] != "val":
        return (o[0],)
    q = num_value(o[1])
    if q is not None:
        return ("num", q)
    return ("val", absval.tagged(o[1]))


ENVS = (False, True)          # the environments every law is replayed in (legacy flag)


def env_tag(legacy):
    return "legacy: " if legacy else ""


# "for all lists and sets" is also "whatever the program did before": a collection a function handed out
# belongs to the caller, who may change it in place; the same call afterwards is still the textbook function
# (a result kept by the function and handed out again would now carry the caller's changes)
AGAIN = ("do def r_ = {src}; if is_list(r_) then do append(r_, 'zz'); r_[0] = 'yy' end "
         "elif is_set(r_) then append(r_, 'zz') elif is_map(r_) then r_['zz'] = 1; NULL end")
AGAIN_ALWAYS = 40          # per function name; afterwards every AGAIN_EVERY-th call
AGAIN_EVERY = 6


class Checker:
    def __init__(self, run, envs=ENVS):
        self.run = run
        self.impls = [Impl(legacy) for legacy in envs]
        self.impl = self.impls[0]
        self.nchecks = 0
        self.seen_fn = {}
        self.nagain = 0

    def _again(self, src):
        name = src.split("(", 1)[0]
        k = self.seen_fn.get(name, 0)
        self.seen_fn[name] = k + 1
        return k < AGAIN_ALWAYS or k % AGAIN_EVERY == 0

    def expect(self, src, want, cat):
        """the call `src` must give `want` in every environment (a violation in the legacy
        environment has the key 'legacy: ' + src)"""
        for impl in self.impls:
            self.nchecks += 1
            o = impl.call(src)
            ok, note = fits(o, want)
            if not ok:
                tag = env_tag(impl.legacy)
                self.run.violation(tag + src, f"{cat}: {tag}expected {json.dumps(want)[:200]} got {show(o)} {note}",
                                   {"kind": "expect", "src": src, "want": want, "cat": cat, "legacy": impl.legacy})
            elif o[0] == "val" and isinstance(o[1], tuple) and o[1][:1] in (("list",), ("set",), ("map",)) and self._again(src):
                self.nagain += 1
                self.nchecks += 1
                impl.call(AGAIN.format(src=src))
                o2 = impl.call(src)
                ok2, note2 = fits(o2, want)
                if not ok2:
                    tag = env_tag(impl.legacy)
                    self.run.violation(tag + "again:" + src,
                                       f"{cat}: {tag}after the caller changed the result of {src} in place, the same call gives "
                                       f"{show(o2)} {note2}, expected {json.dumps(want)[:200]}",
                                       {"kind": "expect-again", "src": src, "want": want, "cat": cat, "legacy": impl.legacy})

    def drift_unless(self, src, want, kind):
        self.nchecks += 1
        o = self.impl.call(src)
        ok, _ = fits(o, want)
        if not ok:
            self.run.drift(kind, {"src": src, "got": show(o), "reference": want})
        return o


def check_pair(ck, r):
    la, lb = r["la"], r["lb"]
    for fa, fb in (("list", "list"), ("set", "set"), ("list", "set")):
        A, B = lits(la, fa), lits(lb, fb)
        for op in ("union", "intersection", "diff", "symmetric_diff"):
            ck.expect(f"{op}({A}, {B})", {"t": "set", "v": r[op]}, "set-algebra")
    A, B = lits(la), lits(lb)
    ck.expect(f"zip({A}, {B})", {"t": "seqseq", "v": r["zip"]}, "textbook")
    if lb:
        return          # the functions of one list: once per list (with the record whose second list is empty)
    ck.expect(f"unique({A})", {"t": "seq", "v": r["unique"]}, "unique")
    ck.expect(f"reverse({A})", {"t": "seq", "v": r["reverse"]}, "textbook")
    ck.expect(f"enumerate({A})", {"t": "enum", "v": r["enumerate"]}, "textbook")
    ck.expect(f"pairs({A})", {"t": "seqseq", "v": r["pairs"]}, "textbook")
    ck.expect(f"grouped({A})", {"t": "seqseq", "v": r["grouped"]}, "textbook")
    for k in (1, 2, 3):
        # (the empty list included: the textbook definition - Concat(pieces) = list, every piece
        # non-empty, LibOps!Chunks / Lib!StructLaws - gives no piece for it)
        ck.expect(f"chunks({A}, {k})", {"t": "seqseq", "v": r["chunks"][k - 1]}, "textbook")


def check_flat(ck, r):
    ck.expect(f"flatten({lits(r['s'])})", {"t": "seq", "v": r["flatten"]}, "textbook")


# directed cases beside the exported ones ------------------------------------------------------------------------
# flatten splices the members that are LISTS, one level deep, and keeps every other member as it is (Lib!Flatten over
# elements of any kind): members that are sets, maps, strings, NULL, empty lists, lists of lists
FLATTEN_CASES = [
    ("[1, <<3, 4>>]", "[1, <<3, 4>>]"), ("[1, NULL, [2]]", "[1, NULL, 2]"), ("[NULL]", "[NULL]"), ("[[NULL], NULL]", "[NULL, NULL]"),
    ("[<<1>>, [<<2>>], []]", "[<<1>>, <<2>>]"), ("[<<<1 => 2>>>, [3]]", "[<<<1 => 2>>>, 3]"), ("['ab', ['cd']]", "['ab', 'cd']"),
    ("[[1, [2, [3]]], 4]", "[1, [2, [3]], 4]"), ("[<<>>, [], <<<>>>]", "[<<>>, <<<>>>]"), ("[TRUE, [FALSE], 1.5, [2.5]]", "[TRUE, FALSE, 1.5, 2.5]"),
    ("[[<<1, 2>>], <<[1]>>]", "[<<1, 2>>, <<[1]>>]"), ("[date('20240101'), [//a//]]", "[date('20240101'), //a//]"),
]


def sum_cases():
    """lists of ints beyond 2^53 and decimals whose exact sum IS a double: the textbook sum, to the last bit
    (an int total that is rounded before the decimals are added shows here)"""
    out = []
    for c in (1 << 53, 1 << 60, 1 << 63, 1 << 64, 10 ** 20, 1 << 80):
        for ints, decs in (([c + 1], [-1.0]), ([c + 3], [-3.0]), ([c + 1], [0.5, -1.5]), ([-(c + 1)], [1.0]),
                           ([c + 1, c + 1], [-2.0]), ([c + 1, 1], [-2.0]), ([c + 5, -2], [-1.0, -2.0]), ([c + 1], [1.0] if c == 1 << 53 else [-1.0])):
            total = Fraction(sum(ints)) + sum(Fraction(d) for d in decs)
            if Fraction(float(total)) != total:
                continue
            members = [str(i) for i in ints] + [repr(d) for d in decs]
            for order in (members, members[::-1]):
                out.append(("[" + ", ".join(order) + "]", total, len(order)))
    return out


# a set (a list) that was walked, then edited in place by a documented mutator, then handed to the functions: they see
# the collection as it is now (a sorted view kept from before the edit would show here)
HISTORY_EDITS = [("<<1, 2, 3, 'a'>>", "remove(s, 2)", "<<1, 3, 'a'>>"), ("<<1, 2, 3>>", "append(s, 0)", "<<0, 1, 2, 3>>"),
                 ("<<1, 2, 3>>", "remove(s, 3); append(s, 9)", "<<1, 2, 9>>"), ("[3, 1, 2]", "delete_at(s, 0)", "[1, 2]"),
                 ("[3, 1, 2]", "s[1] = 7", "[3, 7, 2]"), ("<<[1], [2]>>", "remove(s, [1])", "<<[2]>>")]
HISTORY_WALKS = ["string(s)", "for x in s do x end", "[x for x in s]", "s == s", "union(s, s)", "sorted(list(s))", "length(s)"]
HISTORY_USES = ["union(s, <<>>)", "union(<<5>>, s)", "intersection(s, s)", "diff(s, <<1>>)", "symmetric_diff(s, <<1, 5>>)", "unique(list(s))",
                "reverse(list(s))", "enumerate(list(s))", "pairs(list(s))", "zip(list(s), list(s))", "flatten([list(s)])", "chunks(list(s), 2)",
                "min(list(s))", "max(list(s))", "[x for x in s]", "string(s)", "list(s)", "set(s)", "length(s)", "grouped(list(s))"]


def check_directed(ck):
    n = 0
    for before, edit, after in HISTORY_EDITS:
        for walk in HISTORY_WALKS:
            for use in HISTORY_USES:
                for impl in ck.impls:
                    ck.nchecks += 1
                    n += 1
                    a = impl.call(f"do def s = {before}; {walk}; {edit}; {use} end")
                    b = impl.call(f"do def s = {after}; {use} end")
                    same = a[0] == b[0] and (a[0] != "val" or absval.strict_eq(a[1], b[1])) and (a[0] == "val" or a[1:] == b[1:])
                    if not same:
                        tag = env_tag(impl.legacy)
                        ck.run.violation(tag + f"history:{before};{walk};{edit};{use}",
                                         f"textbook: {tag}def s = {before}; {walk}; {edit}; {use} gives {show(a)}, the same call on "
                                         f"{after} gives {show(b)}", {"kind": "directed", "legacy": impl.legacy})
    for arg, want in FLATTEN_CASES:
        for impl in ck.impls:
            ck.nchecks += 1
            n += 1
            a, b = impl.call(f"flatten({arg})"), impl.call(want)
            if a[0] != "val" or b[0] != "val" or not absval.strict_eq(a[1], b[1]):
                tag = env_tag(impl.legacy)
                ck.run.violation(tag + f"flatten({arg})", f"textbook: {tag}flatten({arg}) gives {show(a)}, the members that are lists "
                                 f"spliced in and everything else kept is {want}", {"kind": "directed", "legacy": impl.legacy})
    # the other means of the Stat module are functions of prod / sum / length: reachable in both environments
    for src, want in (("geometric_mean([1, 4])", "2.0"), ("geometric_mean([4, 1])", "2.0"), ("round(geometric_mean([54, 24, 36]), 1)", "36.0"),
                      ("round(harmonic_mean([40, 60]), 1)", "48.0"), ("round(harmonic_mean([60, 40]), 1)", "48.0")):
        for impl in ck.impls:
            ck.nchecks += 1
            n += 1
            a, b = impl.call(src), impl.call(want)
            if a[0] != "val" or b[0] != "val" or not absval.strict_eq(a[1], b[1]):
                tag = env_tag(impl.legacy)
                ck.run.violation(tag + src, f"textbook: {tag}{src} gives {show(a)}, expected {want}", {"kind": "directed", "legacy": impl.legacy})
    for arg, total, k in sum_cases():
        ck.expect(f"sum({arg})", numwant(total, True, Fraction(0)), "textbook")
        ck.expect(f"mean({arg})", numwant(total / k, Fraction(float(total / k)) == total / k, abs(total) / k * E9), "textbook")
        n += 2
    return n


def check_range(ck, r):
    a, b, st = r["a"], r["b"], r["step"]
    ck.expect(f"range({a}, {b}, {st})", {"t": "ints", "v": r["range"]}, "textbook")
    ck.expect(f"range({a}, {b}, step = {st})", {"t": "ints", "v": r["range"]}, "textbook")
    ck.expect(f"range({a}, {b})", {"t": "ints", "v": r["range2"]}, "textbook")
    ck.expect(f"interval({a}, {b})", {"t": "ints", "v": r["interval"]}, "textbook")
    if a == 0:
        ck.expect(f"range({b})", {"t": "ints", "v": r["range2"]}, "textbook")
    if a == 1:
        ck.expect(f"interval({b})", {"t": "ints", "v": r["interval"]}, "textbook")


def check_func(ck, r):
    s, c = r["s"], r["c"]
    S = "[" + ", ".join(str(x) for x in s) + "]"
    for i in range(3):
        ck.expect(f"filter({S}, {PRED[PREDS[i]].format(c=c)})", {"t": "ints", "v": r["filter"][i]}, "textbook")
        ck.expect(f"map_list({S}, {MAPF[MAPS[i]].format(c=c)})", {"t": "ints", "v": r["map_list"][i]}, "textbook")
        if s:
            ck.expect(f"reduce({S}, {BINF[BINS[i]]})", {"t": "int", "v": str(r["reduce"][i])}, "textbook")


STATS = ["mean", "median", "median_low", "median_high", "min", "max"]


def check_perm(ck, r):
    """every permutation of one multiset: the results must not depend on the
    order (the statement), and equal the reference value"""
    numeric = r["numeric"]
    fns = STATS if numeric else ["median_low", "median_high", "min", "max"]
    for f in fns:
        if f in ("mean", "median"):
            want = {"t": "num", "n": r[f]["n"], "d": r[f]["d"]}
        else:
            want = {"t": "key", "key": r[f], "numeric": numeric}
        for impl in ck.impls:
            tag = env_tag(impl.legacy)
            first = None
            for p in r["perms"]:
                src = f"{f}({lits(p)})"
                ck.nchecks += 1
                o = impl.call(src)
                if first is None:
                    first = (src, o)
                elif canon(o) != canon(first[1]):
                    ck.run.violation(f"{tag}{src} vs {first[0]}",
                                     f"perm-variance: {tag}{src} = {show(o)} but {first[0]} = {show(first[1])}",
                                     {"kind": "perm", "f": f, "p": p, "q": r["perms"][0], "legacy": impl.legacy})
                ok, note = fits(o, want)
                if not ok:
                    if STRICT_STAT_VALUES or o[0] == "host":
                        ck.run.violation(tag + src, f"definition: {tag}expected {json.dumps(want)} got {show(o)} {note}",
                                         {"kind": "expect", "src": src, "want": want, "cat": "definition",
                                          "legacy": impl.legacy})
                    else:
                        ck.run.drift("stat-value-vs-reference", {"src": tag + src, "got": show(o), "reference": want})
    if numeric:
        for f in ("sum", "prod"):
            want = {"t": "num", "n": r[f]["r"]["n"], "d": r[f]["r"]["d"], "int": r[f]["int"], "exact": True}
            for p in r["perms"]:
                ck.expect(f"{f}({lits(p)})", want, "textbook")


def check_num(ck, r):
    a, b, k = r["a"], r["b"], r["k"]
    ck.expect(f"pow({a}, {k})", {"t": "int", "v": str(unbig(r["pow"]))}, "exact-int")
    ck.expect(f"gcd({a}, {b})", {"t": "int", "v": str(unbig(r["gcd"]))}, "exact-int")
    ck.expect(f"lcm({a}, {b})", {"t": "int", "v": str(unbig(r["lcm"]))}, "exact-int")
    ck.expect(f"abs({a})", {"t": "int", "v": str(unbig(r["abs"]))}, "exact-int")
    ck.expect(f"sign({a})", {"t": "int", "v": str(r["sign"])}, "exact-int")


def word(w):
    return w["hi"] * 65536 + w["lo"]


def check_bits(ck, r, seen):
    a, b, n = word(r["a"]), word(r["b"]), r["n"]
    for op in BITOPS:
        if op == "bit_not":
            src = f"{op}({a})"
        elif op in ("bit_and", "bit_or", "bit_xor"):
            src = f"{op}({a}, {b})"
        else:
            src = f"{op}({a}, {n})"
        if src in seen:
            continue
        seen.add(src)
        want = {"t": "int", "v": str(word(r[op]))}
        ck.expect(src, want, "bitwise")     # shift counts >= 32 included: the mathematical result is the word 0


def check_wide(ck, r):
    """the set algebra, unique and grouped over ints above 2^53 beside the neighbouring decimals"""
    la, lb = r["la"], r["lb"]
    for fa, fb in (("list", "list"), ("set", "set"), ("list", "set")):
        A, B = lits(la, fa), lits(lb, fb)
        for op in ("union", "intersection", "diff", "symmetric_diff"):
            ck.expect(f"{op}({A}, {B})", {"t": "set", "v": r[op]}, "set-algebra")
    if lb:
        return
    A = lits(la)
    ck.expect(f"unique({A})", {"t": "seq", "v": r["unique"]}, "unique")
    ck.expect(f"grouped({A})", {"t": "seqseq", "v": r["grouped"]}, "textbook")


def qrec(q):
    """exported dyadic rational {num: limbs, e: k} -> Fraction"""
    return Fraction(unbig(q["num"]), 1 << q["e"])


E9 = Fraction(1, 10 ** 9)


def numwant(value, exact, tol, isint=None):
    w = {"t": "num", "n": str(value.numerator), "d": str(value.denominator), "exact": bool(exact),
         "tol": [str(tol.numerator), str(tol.denominator)]}
    if isint is not None:
        w["int"] = isint
    return w


def check_xperm(ck, r):
    """every permutation of one multiset of wide numbers / tiny decimals / strings of several characters: the
    results must not depend on the order (the statement) and equal the reference value - to the last bit
    where the model says the double arithmetic is exact, else within 1e-9 of the magnitudes involved"""
    numeric = r["numeric"]
    n = len(r["s"])
    wants = {f: {"t": "el", "el": r[f]} for f in ("median_low", "median_high", "min", "max")}
    fns = ["median_low", "median_high", "min", "max"]
    if numeric:
        total, asum = qrec(r["sum"]["q"]), qrec(r["sum"]["abs"])
        wants["mean"] = numwant(total / n, r["mean"]["exact"], asum / n * E9)
        lo, hi = qfrac(r["median_low"]), qfrac(r["median_high"])
        wants["median"] = numwant(qrec(r["median"]["twice"]) / 2, r["median"]["exact"], (abs(lo) + abs(hi)) / 2 * E9)
        fns = ["mean", "median"] + fns
    for f in fns:
        want = wants[f]
        for impl in ck.impls:
            tag = env_tag(impl.legacy)
            first = None
            for p in r["perms"]:
                src = f"{f}({lits(p)})"
                ck.nchecks += 1
                o = impl.call(src)
                if first is None:
                    first = (src, o)
                elif canon(o) != canon(first[1]):
                    if (not STRICT_MEAN_ORDER and want["t"] == "num" and not want["exact"]
                            and fits(o, want)[0] and fits(first[1], want)[0]):
                        ck.run.drift("last-bit-of-an-inexact-mean-depends-on-the-order",
                                     {"src": tag + src, "got": show(o), "other": first[0], "other got": show(first[1])})
                    else:
                        ck.run.violation(f"{tag}{src} vs {first[0]}",
                                         f"perm-variance: {tag}{src} = {show(o)} but {first[0]} = {show(first[1])}",
                                         {"kind": "perm", "f": f, "p": p, "q": r["perms"][0], "legacy": impl.legacy})
                ok, note = fits(o, want)
                if not ok:
                    if STRICT_STAT_VALUES or o[0] == "host":
                        ck.run.violation(tag + src, f"definition: {tag}expected {json.dumps(want)[:300]} got {show(o)} {note}",
                                         {"kind": "expect", "src": src, "want": want, "cat": "definition",
                                          "legacy": impl.legacy})
                    else:
                        ck.run.drift("stat-value-vs-reference", {"src": tag + src, "got": show(o), "reference": want})
    if numeric:
        prod = qrec(r["prod"]["q"])
        for f, want in (("sum", numwant(total, r["sum"]["exact"], asum * E9, r["sum"]["int"])),
                        ("prod", numwant(prod, r["prod"]["exact"], abs(prod) * E9, r["prod"]["int"]))):
            for p in r["perms"]:
                ck.expect(f"{f}({lits(p)})", want, "textbook")


def check_pow(ck, r):
    ck.expect(f"pow({unbig(r['a'])}, {unbig(r['k'])})", {"t": "int", "v": str(unbig(r["pow"]))}, "exact-int")


class _Collect:
    """stands in for Run inside a worker process"""

    def __init__(self):
        self.v = []
        self.d = []

    def violation(self, key, what, case):
        self.v.append((key, what, case))

    def drift(self, kind, sample=None):
        self.d.append((kind, sample))


def _worker(job):
    name, recs = job
    col = _Collect()
    ck = Checker(col)
    fn = globals()[name]
    for r in recs:
        fn(ck, r)
    return col.v, col.d, ck.nchecks


def replay_parallel(ck, name, recs, nproc=12):
    """binding A over many records: split over worker processes (each with
    its own interpreter); verdicts are merged in record order"""
    if len(recs) < 200:
        for r in recs:
            globals()[name](ck, r)
        return
    size = max(1, (len(recs) + nproc * 4 - 1) // (nproc * 4))
    jobs = [(name, recs[i:i + size]) for i in range(0, len(recs), size)]
    with multiprocessing.get_context("fork").Pool(nproc) as pool:
        for v, d, n in pool.map(_worker, jobs):
            for key, what, case in v:
                ck.run.violation(key, what, case)
            for kind, sample in d:
                ck.run.drift(kind, sample)
            ck.nchecks += n


# ------------------------------------------------------------------ binding B
def plan_events(rng, n_each, full=False):
    """the calls of binding B: (op + arguments) without observations"""
    P = []

    def pool():
        base = rng.sample(range(-3, 7), rng.randint(1, 4))
        out = []
        for v in base:
            c = rng.random()
            if c < 0.45:
                out.append({"k": "int", "v": v})
            elif c < 0.7:
                out.append({"k": "dec", "v": 2 * v})
            else:                                   # 1 versus 1.0
                out.append({"k": "int", "v": v})
                out.append({"k": "dec", "v": 2 * v})
        if rng.random() < 0.5:
            out.append({"k": "dec", "v": 2 * rng.randint(-3, 5) + 1})
        for _ in range(rng.randint(0, 2)):
            out.append({"k": "str", "v": rng.randint(1, 4)})
        return out

    # values where a conversion between int and double is lossy, and decimals with many places
    CENTRES = [1 << 53, 1 << 53, 1 << 63, 1 << 64, 10 ** 20, 1 << 80]
    TINY = [(1, 41), (3, 41), (-1, 41), (1, 44), (5, 44), (1, 60), (-3, 60), (1, 20), (7, 20)]       # m / 2^e
    TEXTS = ["", "A", "a", "Ab", "aB", "ab", "AB", "B", "b", "aa", "10", "9", "1", "Z", "z", "\u00e4", "a b", " a"]

    def widepool():
        """ints around a power of two beyond 2^53 beside the decimals next to them"""
        c = rng.choice(CENTRES)
        out = []
        for d in rng.sample([-2, -1, 0, 1, 2, 3], rng.randint(2, 4)):
            out.append(mk_int(c + d))
        for d in rng.sample([-2, 0, 0, 2], rng.randint(1, 2)):
            out.append(mk_dec(float(c) + d) if c == 1 << 53 else mk_dec(float(c)))
        if rng.random() < 0.3:
            out.append(mk_int(-(c + 1)))
            out.append(mk_dec(-float(c)))
        if rng.random() < 0.4:
            out.append(mk_int(rng.randint(-3, 6)))
        return out

    def tinypool():
        """decimals of tiny magnitude (sums that are exact doubles with many decimal places), the doubles of
        0.1 / 0.2 / 0.3 (inexact sums: compared with a tolerance), beside 0, 1, 1.0, 2"""
        out = [mk_dec(m / float(1 << e)) for m, e in rng.sample(TINY, rng.randint(2, 4))]
        if rng.random() < 0.4:
            out += [mk_dec(x) for x in rng.sample([0.1, 0.2, 0.3, 0.7, 1e-13, 2.5e-12], 2)]
        out += [mk_int(v) for v in rng.sample([0, 1, 2, -1], rng.randint(0, 2))]
        if rng.random() < 0.3:
            out.append(mk_dec(1.0))
        return out

    def textpool():
        return [mk_str(t) for t in rng.sample(TEXTS, rng.randint(2, 6))]

    def lst(pl, lo=0, hi=8):
        return [dict(rng.choice(pl)) for _ in range(rng.randint(lo, hi))]

    def numpool():
        return [x for x in pool() if x["k"] in NUMK] or [{"k": "int", "v": 1}]

    def bigint():
        c = rng.random()
        if c < 0.15:
            return rng.choice([0, 1, -1, 2, 1 << 31, (1 << 53) + 1, (1 << 63) - 1, -(1 << 63), 1 << 64,
                               (1 << 80), -(1 << 80), (1 << 80) - 1, 10 ** 20])
        bits = rng.choice([8, 16, 31, 32, 53, 54, 63, 64, 70, 80])
        v = rng.getrandbits(bits)
        return -v if rng.random() < 0.35 else v

    for rnd in range(n_each):
        pl = pool()
        for op in ("union", "intersection", "diff", "symmetric_diff"):
            P.append({"op": op, "a": lst(pl), "b": lst(pl),
                      "fa": rng.choice(["list", "set"]), "fb": rng.choice(["list", "set"])})
        for op in ("unique", "reverse", "pairs", "grouped", "enumerate"):
            P.append({"op": op, "a": lst(pl)})
        P.append({"op": "zip", "a": lst(pl), "b": lst(pl)})
        P.append({"op": "chunks", "a": lst(pl, 0, 8), "n": rng.randint(1, 9)})
        items = []
        for _i in range(rng.randint(0, 6)):
            c = rng.random()
            if c < 0.5:
                items.append(dict(rng.choice(pl)))
            else:
                sub = []
                for _j in range(rng.randint(0, 3)):
                    if rng.random() < 0.8:
                        sub.append(dict(rng.choice(pl)))
                    else:
                        sub.append({"k": "list", "items": lst(pl, 0, 2)})
                items.append({"k": "list", "items": sub})
        P.append({"op": "flatten", "a": items})
        st = rng.choice([1, 1, 2, 3, 5, 7, -1, -2, -3, -7])
        P.append({"op": "range", "a": rng.randint(-20, 20), "b": rng.randint(-20, 20), "step": st,
                  "form": rng.choice(["pos", "kw"])})
        P.append({"op": "range", "a": rng.randint(-20, 20), "b": rng.randint(-20, 20), "step": 1, "form": "two"})
        P.append({"op": "range", "a": 0, "b": rng.randint(-3, 20), "step": 1, "form": "one"})
        P.append({"op": "interval", "a": rng.randint(-20, 20), "b": rng.randint(-20, 20), "form": "two"})
        P.append({"op": "interval", "a": 1, "b": rng.randint(-3, 20), "form": "one"})
        s = [rng.randint(-9, 9) for _i in range(rng.randint(0, 8))]
        c = rng.randint(-3, 3)
        P.append({"op": "filter", "s": s, "f": rng.choice(PREDS), "c": c})
        P.append({"op": "map_list", "s": s, "f": rng.choice(MAPS), "c": c})
        if s:
            P.append({"op": "reduce", "s": s, "f": rng.choice(BINS), "c": 0})
        npl = numpool()
        nl = lst(npl, 0, 8)
        P.append({"op": "sum", "a": nl})
        if nl:
            P.append({"op": "prod", "a": nl})
        nl = lst(npl, 1, 8)
        sh = list(nl)
        rng.shuffle(sh)
        for op in ("mean", "median", "median_low", "median_high", "min", "max"):
            P.append({"op": op, "a": nl})
            P.append({"op": op, "a": sh})
        sl = [{"k": "str", "v": rng.randint(1, 4)} for _i in range(rng.randint(1, 8))]
        for op in ("median_low", "median_high", "min", "max"):
            P.append({"op": op, "a": sl})
        bl = [bigint() for _i in range(rng.randint(0, 8))]
        P.append({"op": "isum", "a": bl})
        if bl:
            P.append({"op": "iprod", "a": bl})
        P.append({"op": "pow", "a": bigint(), "b": 0, "k": rng.randint(0, 12)})
        P.append({"op": "pow", "a": rng.randint(-12, 12), "b": 0, "k": rng.randint(0, 80)})
        g = bigint() if rng.random() < 0.7 else rng.randint(-50, 50)
        x, y = rng.randint(-10 ** 6, 10 ** 6), rng.randint(-10 ** 6, 10 ** 6)
        if rng.random() < 0.5:
            a, b = g * x, g * y
            if abs(a) > (1 << 80) or abs(b) > (1 << 80):
                a, b = bigint(), bigint()
        else:
            a, b = bigint(), bigint()
        if rng.random() < 0.08:
            a = 0
        if rng.random() < 0.08:
            b = 0
        P.append({"op": "gcd", "a": a, "b": b, "k": 0})
        P.append({"op": "lcm", "a": a, "b": b, "k": 0})
        v = bigint()
        P.append({"op": "abs", "a": v, "b": 0, "k": 0})
        P.append({"op": "sign", "a": v, "b": 0, "k": 0})
        # ---- round 3: the wide universe.  One flavour per round: lossy conversions / tiny decimals / texts
        flavour = rnd % 3
        if flavour == 0:
            wp = widepool()
        elif flavour == 1:
            wp = tinypool()
        else:
            wp = textpool() + ([mk_int(1), mk_dec(1.0)] if rng.random() < 0.5 else [])
        if rng.random() < 0.35:
            wp = wp + rng.sample(pl, min(len(pl), 2))                  # mixed with the compact values
        for op in rng.sample(["union", "intersection", "diff", "symmetric_diff"], 2):
            P.append({"op": op, "a": lst(wp, 0, 6), "b": lst(wp, 0, 6),
                      "fa": rng.choice(["list", "set"]), "fb": rng.choice(["list", "set"])})
        for op in ("unique", "grouped"):
            P.append({"op": op, "a": lst(wp, 0, 7)})
        P.append({"op": rng.choice(["reverse", "pairs", "enumerate", "flatten"]), "a": lst(wp, 0, 5)})
        homo = [x for x in wp if x["k"] in (STRK if flavour == 2 else NUMK)]
        hl = lst(homo, 1, 6)
        sh = list(hl)
        rng.shuffle(sh)
        stats = ["median_low", "median_high", "min", "max"] + ([] if flavour == 2 else ["mean", "median"])
        for op in rng.sample(stats, 3):
            P.append({"op": op, "a": hl})
            if sh != hl:
                P.append({"op": op, "a": sh})
        if flavour != 2:
            P.append({"op": "sum", "a": hl})
            P.append({"op": "prod", "a": hl})
            if sh != hl:
                P.append({"op": "sum", "a": sh})
            x = dict(rng.choice(homo))                                  # the laws that hold to the last bit
            for op, a in rng.sample([("sum", [x]), ("sum", [x, dict(x)]), ("prod", [x]), ("mean", [x, dict(x)])], 2):
                P.append({"op": op, "a": a})
        if rnd % 8 == 0:                                               # a random rung of the exponent ladder
            P.append({"op": "powx", "a": rng.choice([-1, 1]) * rng.randint(2, 20),
                      "k": rng.choice([97, 200, 333, 500, 800])})
    for a in ([], [{"k": "int", "v": 1}], [{"k": "int", "v": 1}, {"k": "dec", "v": 2}, {"k": "str", "v": 1}]):
        for n in (1, 3):                       # the empty list and lists that fit into one piece
            P.append({"op": "chunks", "a": a, "n": n})
        P.append({"op": "reverse", "a": a})
    for a, k in ((3, 40), (10, 400), (2, 100), (7, 64), (-3, 41), (0, 0), (0, 5), (1 << 80, 3), (-(1 << 80), 2)):
        P.append({"op": "pow", "a": a, "b": 0, "k": k})
    for a, b in ((0, 0), (0, 5), (5, 0), (0, -5), (-5, 0), (4, -6), (-4, 6), (-4, -6),
                 (1 << 80, 3), (3 * (1 << 70), 9 * (1 << 60)), ((1 << 80) - 1, (1 << 40) - 1)):
        P.append({"op": "gcd", "a": a, "b": b, "k": 0})
        P.append({"op": "lcm", "a": a, "b": b, "k": 0})
    # the anchors of round 3: 2^53 + 1 beside the decimal 2^53, sums of tiny decimals, strings that tie when
    # the case is ignored
    i53, d53 = mk_int((1 << 53) + 1), mk_dec(float(1 << 53))
    i64, d64 = mk_int((1 << 64) + 1), mk_dec(float(1 << 64))
    for x, y in ((i53, d53), (i64, d64), (mk_int(1 << 53), d53)):
        for op in ("union", "intersection", "diff", "symmetric_diff"):
            for fa in ("list", "set"):
                P.append({"op": op, "a": [x], "b": [y], "fa": fa, "fb": fa})
        for a in ([x, y], [y, x]):
            for op in ("unique", "grouped", "min", "max", "median_low", "median_high", "median", "mean", "sum"):
                P.append({"op": op, "a": a})
    t41, t44 = mk_dec(2.0 ** -41), mk_dec(5 * 2.0 ** -44)
    for a in ([t41], [t41, t41], [t41, t44], [mk_int(1), t41], [t41, mk_int(0)], [t44, mk_int(2)],
              [mk_dec(0.1), mk_dec(0.2)], [mk_dec(0.1), mk_dec(0.2), mk_dec(0.3)], [mk_dec(1e-13), mk_dec(2e-13)]):
        for op in ("sum", "prod", "mean", "median", "min", "max"):
            P.append({"op": op, "a": a})
            if len(a) > 1:
                P.append({"op": op, "a": a[::-1]})
    for a in (["a", "A"], ["A", "a"], ["ab", "aB", "Ab"], ["Ab", "ab", "aB"], ["", "a"], ["10", "9", "1"],
              ["b", "B", "a", "A"], ["A", "a", "B", "b"]):
        tl = [mk_str(t) for t in a]
        for op in ("min", "max", "median_low", "median_high", "unique", "grouped"):
            P.append({"op": op, "a": tl})
    # the exponent ladder of pow: small bases, exponents up to 2^16; the bases 0, 1, -1 up to 2^70.  (TLC
    # multiplies out the rungs whose estimated cost is below Lib_Trace!PowExactSteps - 2^5000, 3^5000, 7^2047
    # ... - and validates the longer ones through LibOps!PowPlausible.)
    ladder = {2: (500, 1000, 1024, 2047, 4095, 4096, 4097, 5000, 8192, 10000, 1 << 15, 1 << 16),
              -2: (1000, 4097, (1 << 16) + 1), 3: (4097, 5000, 10000, 20000), -3: (4097,), 7: (500, 2000, 4097, 10000),
              10: (500, 4096, 4097, 10000, 1 << 16), -10: (4097,), 12: (1000, 4097),
              1 << 64: (1000,), -(1 << 64): (1001,), (1 << 80) - 1: (500,), 10 ** 20: (700,), 65537: (3000,)}
    if full:
        for a in (2, -2, 3, -3, 7, 10, -10, 12):
            ladder[a] = (500, 1000, 1023, 1024, 1025, 2047, 2048, 4095, 4096, 4097, 5000, 8191, 8192, 10000,
                         1 << 15, 1 << 16)
        ladder[1 << 64] = (1000, 4100)
    for a, ks in ladder.items():
        for k in ks:
            P.append({"op": "powx", "a": a, "k": k})
    for a in (0, 1, -1):
        for k in (0, 1, 4097, 1 << 16, 1 << 70, (1 << 70) + 1, 10 ** 20, (1 << 80) - 1):
            P.append({"op": "powx", "a": a, "k": k})
    # the whole word / shift grid of the quantifier
    for a in WORDS:
        P.append({"op": "bit_not", "a": a, "b": 0, "n": 0})
        for b in WORDS:
            for op in ("bit_and", "bit_or", "bit_xor"):
                P.append({"op": op, "a": a, "b": b, "n": 0})
        for n in range(0, 41):
            for op in BITOPS[4:]:
                P.append({"op": op, "a": a, "b": 0, "n": n})
    return P


def source(p):
    op = p["op"]
    if op in ("union", "intersection", "diff", "symmetric_diff"):
        return f"{op}({lits(p['a'], p['fa'])}, {lits(p['b'], p['fb'])})"
    if op in ("unique", "reverse", "pairs", "grouped", "enumerate", "flatten", "sum", "prod",
              "mean", "median", "median_low", "median_high", "min", "max"):
        return f"{op}({lits(p['a'])})"
    if op == "zip":
        return f"zip({lits(p['a'])}, {lits(p['b'])})"
    if op == "chunks":
        return f"chunks({lits(p['a'])}, {p['n']})"
    if op == "range":
        f = p["form"]
        if f == "pos":
            return f"range({p['a']}, {p['b']}, {p['step']})"
        if f == "kw":
            return f"range({p['a']}, {p['b']}, step = {p['step']})"
        if f == "two":
            return f"range({p['a']}, {p['b']})"
        return f"range({p['b']})"
    if op == "interval":
        return f"interval({p['a']}, {p['b']})" if p["form"] == "two" else f"interval({p['b']})"
    S = "[" + ", ".join(str(x) for x in p.get("s", [])) + "]"
    if op == "filter":
        return f"filter({S}, {PRED[p['f']].format(c=p['c'])})"
    if op == "map_list":
        return f"map_list({S}, {MAPF[p['f']].format(c=p['c'])})"
    if op == "reduce":
        return f"reduce({S}, {BINF[p['f']]})"
    if op in ("isum", "iprod"):
        return ("sum" if op == "isum" else "prod") + "([" + ", ".join(str(x) for x in p["a"]) + "])"
    if op in ("pow", "powx"):
        return f"pow({p['a']}, {p['k']})"
    if op in ("gcd", "lcm"):
        return f"{op}({p['a']}, {p['b']})"
    if op in ("abs", "sign"):
        return f"{op}({p['a']})"
    if op == "bit_not":
        return f"bit_not({p['a']})"
    if op in ("bit_and", "bit_or", "bit_xor"):
        return f"{op}({p['a']}, {p['b']})"
    if op in BITOPS:
        return f"{op}({p['a']}, {p['n']})"
    raise MachineryError("no source for " + op)


def observe(impl, p):
    """run the call of plan p on the interpreter; -> (event for TLC, source, outcome)"""
    src = source(p)
    o = impl.call(src)
    op = p["op"]
    e = {k: v for k, v in p.items() if k not in ("fa", "fb", "form")}
    if op in ("isum", "iprod"):
        e["a"] = [big(x) for x in p["a"]]
    elif op == "powx":
        e["a"] = big(p["a"])
        e["kb"] = big(p["k"])
        del e["k"]
    elif op in ("pow", "gcd", "lcm", "abs", "sign") or op in BITOPS:
        e["a"] = big(p["a"])
        e["b"] = big(p["b"])
    r = None
    if o[0] == "val":
        v = o[1]
        if op in ("union", "intersection", "diff", "symmetric_diff"):
            e["isset"] = isinstance(v, tuple) and v[0] == "set"
            if isinstance(v, tuple) and v[0] in ("set", "list"):
                r = sorted((enc(i) for i in v[1]), key=lambda x: json.dumps(x, sort_keys=True))
        elif op in ("unique", "reverse", "flatten"):
            r = enc_seq(v)
        elif op in ("pairs", "grouped", "zip", "chunks"):
            r = enc_seqseq(v)
        elif op == "enumerate":
            if isinstance(v, tuple) and v[0] == "list" and all(
                    isinstance(q, tuple) and q[0] == "list" and len(q[1]) == 2
                    and isinstance(q[1][0], int) and not isinstance(q[1][0], bool)
                    and abs(q[1][0]) < 1000 for q in v[1]):
                r = [{"idx": q[1][0], "x": enc(q[1][1])} for q in v[1]]
        elif op in ("range", "interval", "filter", "map_list"):
            if isinstance(v, tuple) and v[0] == "list" and all(
                    isinstance(x, int) and not isinstance(x, bool) and abs(x) < (1 << 30) for x in v[1]):
                r = list(v[1])
        elif op == "reduce":
            if isinstance(v, int) and not isinstance(v, bool) and abs(v) < (1 << 30):
                r = v
        elif op in ("sum", "prod", "mean", "median"):
            r = enc_num(v)
        elif op in ("median_low", "median_high", "min", "max"):
            r = enc(v)
        else:                                         # integer results
            r = enc_int(v)
    e["ok"] = r is not None
    if r is not None:
        e["r"] = r
    return e, src, o


class Validation:
    """Lib_Trace on the recorded events.  The events are independent of each other (the trace spec keeps no
    state between them), so a long trace is cut into parts that are validated by TLC processes running side by
    side; the parts are dealt round-robin so that the expensive events (long powers) spread over all of them."""

    def __init__(self, events, parts=1):
        self.events = events
        parts = max(1, min(parts, len(events) // 500 or 1))
        self.index = [list(range(i, len(events), parts)) for i in range(parts)]      # part -> global positions
        self.results = [None] * parts
        self.errors = []
        self.threads = [threading.Thread(target=self._part, args=(i,)) for i in range(parts)]
        for t in self.threads:
            t.start()

    def _part(self, i):
        d = tempfile.mkdtemp(prefix="c19-")
        path = os.path.join(d, "trace.ndjson")
        try:
            with open(path, "w") as f:
                for k in self.index[i]:
                    f.write(json.dumps(self.events[k]) + "\n")
            self.results[i] = run_tlc("Lib_Trace", workers=1, env={"TRACE_FILE": path}, timeout=3000)
        except Exception as ex:  # noqa: BLE001
            self.errors.append(ex)
        finally:
            try:
                os.remove(path)
                os.rmdir(d)
            except OSError:
                pass

    def join(self):
        """-> {tag: [(global position, record)]}"""
        for t in self.threads:
            t.join()
        if self.errors:
            raise self.errors[0]
        out = {"BAD": [], "DRIFT": [], "NOTE": []}
        for i, res in enumerate(self.results):
            done = res.records("DONE")
            if not done or done[-1]["n"] != len(self.index[i]):
                raise MachineryError("trace validation did not consume the whole trace")
            for tag in out:
                seen = set()
                for b in res.records(tag):
                    key = (b["l"], b["why"])
                    if key not in seen:
                        seen.add(key)
                        out[tag].append((self.index[i][b["l"] - 1], b))
        for tag in out:
            out[tag].sort(key=lambda x: x[0])
        return out


def validate(run, events, srcs, outs, plans, started=None):
    val = started or Validation(events)
    found = val.join()
    for i, res in enumerate(val.results):
        run.add_tlc(res, "Lib_Trace validation of recorded calls" +
                    (f" (part {i + 1} of {len(val.results)})" if len(val.results) > 1 else ""))
    bad = set()
    for k, b in found["BAD"]:
        if b["why"] == "unknown-op":
            raise MachineryError("trace spec does not know op " + events[k]["op"])
        bad.add(k)
        cat = category(events[k]["op"])
        if cat == "definition" and not STRICT_STAT_VALUES and outs[k][0] != "host":
            run.drift("stat-value-vs-reference", {"src": srcs[k], "got": show(outs[k])})
            continue
        run.violation(srcs[k], f"{cat}: Lib_Trace rejects the recorded result {show(outs[k])}",
                      {"kind": "trace-call", "plan": plans[k][0], "legacy": plans[k][1]})
    for k, b in found["DRIFT"]:
        run.drift("shift-count>=32", {"src": srcs[k], "got": show(outs[k])})
    # powers too long for TLC to multiply out were validated through necessary conditions (residues modulo a
    # dozen primes, sign, length bracket: LibOps!PowPlausible); these are compared with the host's exact
    # power as well (the one comparison of this check that the model cannot make itself within the time of a tier)
    nnec = 0
    for k, b in found["NOTE"]:
        if b["why"] != "pow-necessary-conditions" or k in bad:
            continue
        nnec += 1
        p, o = plans[k][0], outs[k]
        if not (o[0] == "val" and isinstance(o[1], int) and not isinstance(o[1], bool) and o[1] == p["a"] ** p["k"]):
            run.violation(srcs[k], f"exact-int: the result {show(o)} has the residues, sign and length of the power "
                                   "but is not the power",
                          {"kind": "trace-call", "plan": p, "legacy": plans[k][1]})
    val.pow_by_necessary_conditions = nnec
    return val


def category(op):
    if op in ("union", "intersection", "diff", "symmetric_diff"):
        return "set-algebra"
    if op == "unique":
        return "unique"
    if op in ("mean", "median", "median_low", "median_high", "min", "max"):
        return "definition"
    if op in ("pow", "powx", "gcd", "lcm", "abs", "sign"):
        return "exact-int"
    if op in BITOPS:
        return "bitwise"
    return "textbook"


def record(plans, envs=ENVS):
    """the planned calls are run and recorded in every environment (the legacy ones keyed 'legacy: ' + call)"""
    events, srcs, outs, plist, ncalls = [], [], [], [], 0
    for legacy in envs:
        impl = Impl(legacy)
        for p in plans:
            e, src, o = observe(impl, p)
            events.append(e)
            srcs.append(env_tag(legacy) + src)
            outs.append(o)
            plist.append((p, legacy))
        ncalls += impl.n
    return ncalls, events, srcs, outs, plist


def record_and_validate(run, plans, envs=ENVS):
    """... and validated as one trace"""
    ncalls, events, srcs, outs, plist = record(plans, envs)
    val = validate(run, events, srcs, outs, plist)
    return ncalls, events, srcs, val


def probe_drift(run, impl):
    """inputs outside the stated domain: never violations"""
    for src, ref in (("bit_and(-1, 5)", 5), ("bit_not(-1)", 0), ("bit_shift_right(-2147483648, 1)", 1073741824),
                     ("bit_or(4294967296, 1)", 1), ("bit_shift_left(-1, 4)", 4294967280)):
        o = impl.call(src)
        if not (o[0] == "val" and o[1] == ref):
            run.drift("bitwise-outside-0..2^32-1", {"src": src, "got": show(o), "two's complement reading": ref})
    # pow with a negative exponent: the mathematical result is not an integer, so there is no exact
    # integer result to equal (the code truncates: 0; pow(0, -1) is undefined and raises); chunks of a
    # string: the statement quantifies over lists and sets
    for src in ("pow(2, -1)", "pow(0, -1)", "prod([])", "range(0, 5, 0)", "chunks('', 3)", "chunks('abc', 5)"):
        o = impl.call(src)
        run.drift("outside-the-defined-domain", {"src": src, "got": show(o)})


def actions_taken(res):
    """how often each action of Lib.tla was taken, counted from the exported records (every Apply step exports
    one record; TLC may print a record more than once, so distinct records are counted)"""
    firsts, total, fams = set(), 0, 0
    for tag, recs in res.printed.items():
        distinct = {json.dumps(r, sort_keys=True) for r in recs}
        if not distinct:
            continue
        fams += 1
        total += len(distinct)
        for r in distinct:
            d = json.loads(r)
            firsts.add(tag + json.dumps([d.get(k) for k in ("la", "s", "a") if k in d][:1], sort_keys=True))
    return {"Init": fams, "Pick1": len(firsts), "Pick2": total, "Apply": total}


# ------------------------------------------------------------------ run
def run(run):
    quick = run.tier == "quick"
    rng = random.Random(run.seed)

    # the limb arithmetic itself, against TLC's native arithmetic (in parallel)
    bt = {}

    def bigint_test():
        try:
            bt["res"] = run_tlc("BigIntTest", "BigIntTest_quick" if quick else "BigIntTest",
                                workers=6, timeout=3000)
        except Exception as ex:  # noqa: BLE001
            bt["err"] = ex

    th = threading.Thread(target=bigint_test)
    th.start()

    cfg = "Lib_quick" if quick else "Lib_thorough"
    lt = {}

    def lib_model():
        try:
            # (no -coverage: it tripled the CPU time of this exporting run; the actions are counted from the records)
            lt["res"] = run_tlc("Lib", cfg, workers=10, coverage=False, timeout=3000)
        except Exception as ex:  # noqa: BLE001
            lt["err"] = ex

    th2 = threading.Thread(target=lib_model)
    th2.start()

    # binding B is recorded while TLC explores the model, and validated (three TLC processes) while binding A
    # is replayed
    plans = plan_events(rng, 200 if quick else 1500, full=not quick)
    ncalls, events, srcs, outs, plist = record(plans)
    started = Validation(events, parts=3)

    th2.join()
    if "err" in lt:
        raise lt["err"]
    res = lt["res"]
    res.coverage = actions_taken(res)
    never = [a for a, n in res.coverage.items() if n == 0]
    if never:
        raise MachineryError("Lib.tla: actions never taken: " + ", ".join(never))
    run.add_tlc(res, f"Lib driver machine, laws as invariants ({cfg})")

    ck = Checker(run)
    ncases = 0
    seen = set()
    handlers = ["PAIR", "FLAT", "RANGE", "FUNC", "PERM", "NUM", "WIDE", "XPERM", "POW"]
    nperms = 0
    for tag in handlers:
        recs = res.records(tag)
        if not recs:
            raise MachineryError("TLC exported no " + tag + " cases")
        uniq = []
        for r in recs:
            key = tag + json.dumps(r, sort_keys=True)
            if key in seen:
                continue
            seen.add(key)
            uniq.append(r)
        run.sample({tag: {k: uniq[len(uniq) // 2][k] for k in list(uniq[0])[:6]}}, limit=12)
        if tag in ("PERM", "XPERM"):
            uniq.sort(key=lambda r: -len(r["perms"]))      # long jobs first
            nperms += sum(len(r["perms"]) for r in uniq)
        replay_parallel(ck, "check_" + tag.lower(), uniq)
        ncases += len(uniq)
    bseen = set()
    recs = res.records("BITS")
    if not recs:
        raise MachineryError("TLC exported no BITS cases")
    for r in recs:
        check_bits(ck, r, bseen)
    ncases += len(bseen)
    run.sample({"BITS": recs[len(recs) // 2]}, limit=12)

    ncases += check_directed(ck)
    tres = validate(run, events, srcs, outs, plist, started)
    run.sample({"TRACE": events[:3]}, limit=12)
    probe_drift(run, ck.impl)

    th.join()
    if "err" in bt:
        raise bt["err"]
    run.add_tlc(bt["res"], "BigIntTest: limb operators against native arithmetic")

    run.cov["traces_validated_against_impl"] = ncases + len(events)
    run.cov["evaluations"] = ck.nchecks + ncalls
    run.cov["distinct_nontrivial"] = ncases + len(set(srcs))
    run.cov["rule"] = ("binding A: one case per distinct argument tuple exported by Lib.tla (every function "
                       "of the family replayed on it; PERM cases replay every permutation); binding B: distinct "
                       "call texts recorded and validated by Lib_Trace; evaluations counts interpreter calls")
    run.cov["exhaustive"] = True
    run.cov["permutations_replayed"] = nperms
    run.cov["powers_validated_by_necessary_conditions_and_host_power"] = tres.pow_by_necessary_conditions
    run.cov["bounds"] = {"cfg": cfg, "trace_events": len(events), "word_grid": len(WORDS), "shifts": "0..40",
                         "environments": ["modules required unqualified", "legacy base environment"]}
    run.assumptions += [
        "bitwise domain: words 0..2^32-1, results unsigned 32-bit words (doc: bit_not(0) ==> 4294967295); "
        "negative or wider arguments are drift probes only",
        "shift counts >= 32 shift every bit out: the result must be the word 0; rotations by n are rotations by n mod 32",
        "pow is compared for int base and int exponent >= 0 only; gcd/lcm are the non-negative ones, "
        "gcd(0,0) = 0, lcm(x,0) = 0",
        "mean/median/median_low/median_high/min/max: order dependence is the stated violation; a value that "
        "differs from the textbook definition is reported as 'definition:' (STRICT_STAT_VALUES)",
        "prod([]), range with step 0, chunk sizes < 1, chunks of a string and pow with a negative exponent are "
        "not compared (drift probes); chunks of an empty list is compared: no piece",
        "every law is replayed in two environments: Interpreter(True, False) + `require M unqualified` and the "
        "legacy base environment Interpreter(True, True) as it comes (keys 'legacy: ...')",
        "compact lists: decimals are multiples of 0.5 (exact doubles); mean is compared with 1e-9 relative "
        "tolerance when the exact mean is not a dyadic rational, exactly otherwise",
        "wide lists (ints of any size, every finite double as an exact dyadic rational): sum / prod / mean / median "
        "are compared to the last bit exactly when the model says that every step of the left-to-right double "
        "arithmetic is exact (LibOps!ExactSum, ExactProd, ExactMean, ExactMedian: all elements ints, or every element "
        "and every intermediate result is a double), else within 1e-9 of the magnitudes involved (IEEE accuracy is "
        "not the subject of the property)",
        "lists mix ints, decimals and strings (any length, both cases, digits, a non-ASCII letter; ordered by code "
        "point); order statistics only on all-numeric or all-string lists",
        "pow: powers of a one-limb base up to an estimated 250 000 limb steps (2^5000, 3^5000, 7^2047), of longer bases "
        "up to 600 bits, and every power of 0, 1, -1 and +-10 are multiplied out by TLC in limbs; longer ones (exponents "
        "up to 2^16) are validated by TLC through necessary conditions (residues modulo 12 primes, sign, length "
        "bracket) and compared with the host's exact power by the harness",
        "mean over decimals whose sum is not an exact double must not depend on the order of the list either "
        "(STRICT_MEAN_ORDER; repaired in the repository by adding without intermediate rounding)",
    ]


def replay(run, case):
    kind = case["kind"]
    envs = (bool(case.get("legacy", False)),)
    if kind == "directed":
        check_directed(Checker(run, envs))
        return
    if kind in ("expect", "expect-again"):
        Checker(run, envs).expect(case["src"], case["want"], case["cat"])
    elif kind == "word":
        o = Impl().call(case["src"])
        if not (o[0] == "val" and isinstance(o[1], int) and 0 <= o[1] < T32):
            run.violation(case["src"], f"bitwise: result is not a 32-bit word: {show(o)}", case)
    elif kind == "perm":
        impl = Impl(envs[0])
        s1, s2 = f"{case['f']}({lits(case['p'])})", f"{case['f']}({lits(case['q'])})"
        o1, o2 = impl.call(s1), impl.call(s2)
        if canon(o1) != canon(o2):
            run.violation(f"{s1} vs {s2}", f"perm-variance: {s1} = {show(o1)} but {s2} = {show(o2)}", case)
    elif kind == "trace-call":
        record_and_validate(run, [case["plan"]], envs)
    else:
        raise MachineryError("unknown replay case")
