"""C16 - only documented mutators change their arguments; aliases see mutations.

Spec: spec/HeapOps.tla (cells, containers, reachability, the "who may change"
rule), spec/Heap.tla (the alias-graph state machine: heap + four names,
mutators / non-mutating operations / Alias / literal evaluation as actions,
PureLeavesHeap, MutatorTouchesOnlyTarget, FreshResultsIndependent,
AliasesAgree), spec/Heap_Trace.tla (validation of the recorded function sweep).

Binding A: TLC explores Heap.tla breadth-first to the depth bound (and by
random walks beyond it) and prints every transition (pre-state, operation,
post-state).  The harness turns the transition graph into operation sequences
(shortest path from a generated initial alias graph to the pre-state, then the
operation: an edge cover), runs each as a checkerlang program on
Interpreter(True, False) and, after every operation, reads every name
(`string(x)`) and compares with what the model's heap says that name reads.
The names are reached as a variable (a), a function parameter (b), a slot of
another container (outer[0]) and a variable captured by closures (c).
Every non-mutating transition is additionally followed by each probe the model
offers in its post-state (one documented mutation per container the result or
the source reaches): an aliased result shows only after a later mutation.

Binding B: every function found in the live base environment, in every bundled
module and in the legacy base environment is applied to argument tuples from a
pool of container-bearing values; the rendering of the whole pool after every
call is logged and the log is validated by TLC against Heap_Trace.tla: only
the first argument of a documented mutator may change.  Every call event also
records which of the containers passed to the call the returned value IS and
which it HOLDS (identity of the implementation's objects); Heap_Trace accepts
that only for the documented mutators, selectors and constructors
(HeapOps.tla ResultIndependent): `chunks(l, n)` handing out `l` as its only
piece is rejected.

Round 3: the model also reads (`t = n[0]`, `n[k]`, `n->m`, the read with a
default `n[k, d]`), takes list indexes from both ends, assigns an element in
the compound form on a missing key, calls a method found on the prototype
chain (self = the receiver), lets a list be the key of a map, evaluates a
parameter's default expression and has OPAQUE results (substitute outside the
list: content left open, independence not).  The sweep calls every function of
three or more places with all its parameters (all pairs x a column), sweeps the
natives bound only outside secure mode inside a sandbox directory, the element
/ member assignment forms as documented mutators of their first operand, and
reports per function whether it ever returned a value and which parts of the
implementation's syntax tree no swept form fills.  Binding B runs in a thread
beside binding A.
"""
import io
import itertools
import json
import multiprocessing
import os
import random
import shutil
import signal
import sys
import tempfile
import threading
import time
import warnings

from .common import import_ckl, MachineryError, REPO
from .tla import run_tlc
from . import absval

import_ckl()
from ckl.interpreter import Interpreter  # noqa: E402
from ckl.parser import parse_script  # noqa: E402
from ckl import values as V  # noqa: E402

NAMES = ("a", "b", "s", "c")
MEMBER = {1: "m", 2: "n", 3: "z", 4: "_proto_", 5: "f"}
# Heap.tla MethodCell: the member f holds this function (self = the receiver of `x->f(v)`)
METHOD_CELL = 77
METHOD_SRC = "fn(self, v) do self->z = v; NULL end"
CHARS = {1: "a", 2: "b", 3: "c", 4: "d", 5: "e"}
MUTATOR_OPS = {"append", "append_ref", "append_all", "insert_at", "delete_at", "remove",
               "remove_member", "put", "put_ref", "put_key_ref", "set_elem", "set_elem_ref",
               "set_member", "set_member_ref", "add_assign_elem", "method_set_member"}
ALL_OPS = ["append", "append_ref", "append_all", "insert_at", "delete_at", "remove", "remove_member",
           "put", "put_ref", "put_key_ref", "set_elem", "set_elem_ref", "set_member", "set_member_ref",
           "add_assign_elem", "method_set_member",
           "get", "get_member", "get_default", "get_member_default", "lit_default",
           "concat_empty", "concat_one", "add_assign", "minus_empty", "minus_one", "repeat",
           "slice_full", "slice_head", "sublist", "sorted", "zip", "to_list", "to_set", "to_map",
           "to_object", "comprehension", "reverse", "spread", "chunks", "unique", "flatten", "filter",
           "substitute", "lit_list", "lit_str", "alias"]
PROBE_OPS = ["append", "put", "set_member", "set_elem"]
NPROC = max(1, min(16, os.cpu_count() or 1))


class Timeout(BaseException):
    pass


def _alarm(signum, frame):
    raise Timeout()


def timed(fn, seconds):
    """absval.outcome(fn) under an interval timer; ('timeout',) when it fires (also when it
    fires between the end of fn and the disarming of the timer: nothing escapes)."""
    try:
        signal.setitimer(signal.ITIMER_REAL, seconds)
        try:
            return absval.outcome(fn)
        finally:
            signal.setitimer(signal.ITIMER_REAL, 0)
    except Timeout:
        signal.setitimer(signal.ITIMER_REAL, 0)
        return ("timeout",)


# ------------------------------------------------------------ model states
def norm_state(js):
    """TLC's JSON of a state projection (Heap.tla Proj: cell = int, reference
    r as -r; container = [kind, keys, cells]) -> hashable normal form
    (heap: tuple of (kind, keys, items((t, v)...)), names: tuple in NAMES order)."""
    def cell(x):
        return ("r", -x) if x < 0 else ("i", x)
    heap = tuple((c[0], tuple(c[1]), tuple(cell(x) for x in c[2])) for c in js["h"])
    names = tuple(cell(x) for x in js["n"])
    return (heap, names)


def pad_brackets(content):
    # the canonical text keeps a set's or map's content apart from its angle
    # brackets when it begins with '<' or ends with '>' (so that it reads back)
    if content.startswith("<"):
        content = " " + content
    if content.endswith(">"):
        content = content + " "
    return content


def render_cell(heap, cell, top=False):
    t, v = cell
    if t == "i":
        if v == METHOD_CELL:
            return _method_text()
        return "" if (top and v == 0) else str(v)      # string(NULL) is the empty string
    k, keys, items = heap[v - 1]
    if k == "list":
        return "[" + ", ".join(render_cell(heap, x) for x in items) + "]"
    if k in ("set", "rset"):
        return "<<" + pad_brackets(", ".join(render_cell(heap, x) for x in items)) + ">>"
    if k == "map":
        return "<<<" + pad_brackets(", ".join(f"{kk} => {render_cell(heap, x)}" for kk, x in zip(keys, items))) + ">>>"
    if k == "rmap":         # a map whose only key is a list: items = (key, value)
        return "<<<" + pad_brackets(f"{render_cell(heap, items[0])} => {render_cell(heap, items[1])}") + ">>>"
    if k == "any":          # an opaque result: the model leaves its content open
        raise Opaque()
    if k == "obj":          # string(obj) does not show the prototype link
        return "<*" + ", ".join(f"{MEMBER[kk]}={render_cell(heap, x)}" for kk, x in zip(keys, items) if kk != 4) + "*>"
    if k == "str":
        s = "".join(CHARS[x[1]] for x in items)
        return s if top else "'" + s + "'"
    raise MachineryError("render of a free reference")


class Opaque(Exception):
    pass


_METHOD_TEXT = []


def _method_text():
    """How the implementation renders a function held by an object (measured, not assumed)."""
    if not _METHOD_TEXT:
        t = "<*f=<#lambda>*>"
        try:
            t = Interpreter(True, False).interpret(f"string(<*f={METHOD_SRC}*>)", "c16").value
        except Exception:       # the rendering of a function is not C16's subject
            pass
        _METHOD_TEXT.append(t[4:-2] if t.startswith("<*f=") and t.endswith("*>") else "<#lambda>")
    return _METHOD_TEXT[0]


def render_state(st):
    """What every name reads (string(x)) according to the model; None for a name that
    holds an opaque result (Heap.tla kind "any": the content is left open, the name is
    compared with its own previous reading only)."""
    heap, names = st
    out = []
    for c in names:
        try:
            out.append(render_cell(heap, c, top=True))
        except Opaque:
            out.append(None)
    return out


def reach(heap, r):
    """References reachable from reference r (r included)."""
    out, todo = set(), [r]
    while todo:
        x = todo.pop()
        if x in out:
            continue
        out.add(x)
        todo.extend(v for t, v in heap[x - 1][2] if t == "r")
    return out


def partition(st):
    """Which names hold the same reference according to the model."""
    heap, names = st
    return [[j for j in range(4) if names[j] == names[i]] if names[i][0] == "r" else None
            for i in range(4)]


# ------------------------------------------------------------ programs
DIRECT = {"a": "a", "b": "b", "s": "outer[0]", "c": "getc()"}

SETUP = ("require List import [reverse, append_all, unique, flatten, filter]; "
         "def mk() do def c = NULL; [fn() c, fn(v) do c = v; NULL end, fn(f) f(c), "
         "fn(v) do c += v; NULL end] end; "
         "NULL")
# per program (so that the literals are new program text every time)
PROLOGUE = ("def a = NULL; def b = NULL; def outer = [NULL]; "
            "def [getc, setc, withc, addc] = mk(); "
            "def lit_list() [1]; def lit_str() 'ab'; def lit_def(x = [1]) x; NULL")
READ = "[string(a), string(b), string(outer[0]), string(getc())]"
READ_ID = "[a, b, outer[0], getc()]"


def wrap_stmt(n, body):
    """A statement acting on the container name n denotes; `@` stands for it."""
    if n == "a":
        return body.replace("@", "a")
    if n == "s":
        return body.replace("@", "outer[0]")
    if n == "b":       # reached as a function parameter
        return "(fn(p) do " + body.replace("@", "p") + " end)(b)"
    return "withc(fn(x) do " + body.replace("@", "x") + " end)"   # closure variable


def bind(t, expr):
    if t == "a":
        return "a = " + expr
    if t == "b":
        return "b = " + expr
    if t == "s":
        return "outer[0] = " + expr
    return "setc(" + expr + ")"


def wrap_expr(n, body, force_param=False):
    if n == "b" or (force_param and n in ("a", "s")):
        return "(fn(p) " + body.replace("@", "p") + ")(" + DIRECT[n] + ")"
    if n == "a":
        return body.replace("@", "a")
    if n == "s":
        return body.replace("@", "outer[0]")
    return "withc(fn(x) " + body.replace("@", "x") + ")"


def op_source(op, kind):
    """The checkerlang statement for one model operation; kind = kind of the
    container the operation's name n denotes in the pre-state."""
    o, n, m, t, x, y = op["op"], op["n"], op["m"], op["t"], op["x"], op["y"]
    M = DIRECT.get(m, "")
    lo, hi = ("<<", ">>") if kind == "set" else ("[", "]")
    if o == "append":
        return wrap_stmt(n, f"append(@, {x})")
    if o == "append_ref":
        return wrap_stmt(n, f"append(@, {M})")
    if o == "append_all":
        return wrap_stmt(n, f"append_all(@, {M})")
    if o == "insert_at":
        return wrap_stmt(n, f"insert_at(@, {y}, {x})")
    if o == "delete_at":
        return wrap_stmt(n, f"delete_at(@, {x})")
    if o == "put_key_ref":
        return wrap_stmt(n, f"put(@, {M}, {y})")
    if o == "add_assign_elem":
        return wrap_stmt(n, f"@[{x}, 0] += {y}")
    if o == "method_set_member":
        return wrap_stmt(n, f"@->{MEMBER[5]}({y})")
    if o == "remove":
        return wrap_stmt(n, f"remove(@, {x})")
    if o == "remove_member":
        return wrap_stmt(n, f"remove(@, '{MEMBER[x]}')")
    if o == "put":
        return wrap_stmt(n, f"put(@, {x}, {y})")
    if o == "put_ref":
        return wrap_stmt(n, f"put(@, {x}, {M})")
    if o == "set_elem":
        if kind == "str":
            return wrap_stmt(n, f"@[{x}] = '{CHARS[y]}'")
        return wrap_stmt(n, f"@[{x}] = {y}")
    if o == "set_elem_ref":
        return wrap_stmt(n, f"@[{x}] = {M}")
    if o == "set_member":
        return wrap_stmt(n, f"@->{MEMBER[x]} = {y}")
    if o == "set_member_ref":
        return wrap_stmt(n, f"@->{MEMBER[x]} = {M}")
    if o == "alias":
        return bind(t, DIRECT[n])
    if o == "lit_list":
        return bind(t, "lit_list()")
    if o == "lit_str":
        return bind(t, "lit_str()")
    if o == "lit_default":
        return bind(t, "lit_def()")
    if o == "add_assign":
        if n == "c":
            return f"addc([{x}])"
        return {"a": "a", "b": "b", "s": "outer[0]"}[n] + f" += [{x}]"
    force = False
    if o == "concat_empty":
        body = f"@ + {lo}{hi}"
    elif o == "concat_one":
        body = f"@ + {lo}{x}{hi}"
    elif o == "minus_empty":
        body = f"@ - {lo}{hi}"
    elif o == "minus_one":
        body = f"@ - {lo}{x}{hi}"
    elif o == "repeat":
        body = f"@ * {x}"
    elif o == "slice_full":
        body = "@[0 to *]"
    elif o == "slice_head":
        body = "@[0 to 1]"
    elif o == "sublist":
        body = "sublist(@, 0)"
    elif o == "sorted":
        body = "sorted(@)"
    elif o == "zip":
        body = "zip(@, @)"
    elif o == "to_list":
        body = "list(@)"
    elif o == "to_set":
        body = "set(@)"
    elif o == "to_map":
        body = "map(@)"
    elif o == "to_object":
        body = "object(@)"
    elif o == "comprehension":
        body = {"list": "[e for e in @]", "set": "<<e for e in @>>",
                "map": "<<<e[0] => e[1] for e in @>>>"}[kind]
    elif o == "reverse":
        body = "reverse(@)"
    elif o == "spread":
        body = "[...@]"
        force = True      # the spread operator wants an identifier
    elif o == "chunks":
        body = f"chunks(@, {x})"
    elif o == "unique":
        body = "unique(@)"
    elif o == "flatten":
        body = "flatten(@)"
    elif o == "filter":
        body = "filter(@, fn(e) TRUE)"
    elif o == "substitute":
        body = f"substitute(@, {y}, {x})"
    elif o == "get":
        body = f"@[{x}]"
    elif o == "get_member":
        body = f"@->{MEMBER[x]}"
    elif o == "get_default":
        body = f"@[{x}, {y}]"
    elif o == "get_member_default":
        body = f"@['{MEMBER[x]}', {y}]"
    else:
        raise MachineryError("unknown model operation " + o)
    return bind(t, wrap_expr(n, body, force))


def build_source(st):
    """A program that builds the alias graph of an initial model state."""
    heap, names = st
    order = []

    def visit(r):
        if r in order:
            return
        for tt, v in heap[r - 1][2]:
            if tt == "r":
                visit(v)
        order.append(r)

    for tt, v in names:
        if tt == "r":
            visit(v)

    def cell(c):
        if c == ("i", METHOD_CELL):
            return METHOD_SRC
        return f"r{c[1]}" if c[0] == "r" else str(c[1])

    parts = []
    for r in order:
        k, keys, items = heap[r - 1]
        if k == "list":
            lit = "lit_list()" if items == (("i", 1),) else "[" + ", ".join(cell(c) for c in items) + "]"
        elif k in ("set", "rset"):
            lit = "<<" + ", ".join(cell(c) for c in items) + ">>"
        elif k == "map":
            lit = "<<<" + ", ".join(f"{kk} => {cell(c)}" for kk, c in zip(keys, items)) + ">>>"
        elif k == "obj":
            lit = "<*" + ", ".join(f"{MEMBER[kk]}={cell(c)}" for kk, c in zip(keys, items)) + "*>"
        elif k == "str":
            if items != (("i", 1), ("i", 2)):
                raise MachineryError("string in an initial state that is not the literal")
            lit = "lit_str()"
        else:
            raise MachineryError("free reference reachable")
        parts.append(f"def r{r} = {lit}")
    for n, c in zip(NAMES, names):
        if c[0] == "r":
            parts.append(bind(n, f"r{c[1]}"))
    return "def build() do " + "; ".join(parts + ["NULL"]) + " end; build()"


def graph_label(st):
    """Readable identification of an initial alias graph (used in violation keys)."""
    src = build_source(st)
    return "{" + src[len("def build() do "):-len("; NULL end; build()")].replace("def ", "") + "}"


def loose_names(st, n):
    """The names holding an opaque result that may share the container the name n denotes
    (a container nested in the input of the operation that produced the result)."""
    heap, names = st
    if n not in NAMES or names[NAMES.index(n)][0] != "r":
        return []
    tr = names[NAMES.index(n)][1]
    return [i for i in range(4) if names[i][0] == "r" and heap[names[i][1] - 1][0] == "any"
            and tr in reach(heap, names[i][1])]


def kind_of(st, n):
    heap, names = st
    c = names[NAMES.index(n)] if n in NAMES else ("i", 0)
    return heap[c[1] - 1][0] if c[0] == "r" else "scalar"


# ------------------------------------------------------------ binding A worker
_IT = None


def _worker_init():
    global _IT
    signal.signal(signal.SIGALRM, _alarm)
    _IT = Interpreter(True, False)
    _IT.setStandardOutput(io.StringIO())
    _IT.setStandardInput(io.StringIO(""))
    _IT.interpret(SETUP, "c16")


_PARSED = {}


def _run_src(it, src):
    """Interpreter.interpret(src) with the parse cached per source text (the
    replay runs the same few hundred statements tens of thousands of times).
    Sources containing a string literal are parsed afresh every time, so that
    a literal is new program text in every program."""
    node = _PARSED.get(src)
    if node is None:
        node = parse_script(src, "c16")
        if "'" not in src:
            _PARSED[src] = node
    result = node.evaluate(it.environment)
    if result.isReturn():
        return result.value
    return result


def _read(it):
    o = timed(lambda: _run_src(it, READ), 20)
    if o[0] != "val":
        return None
    return [x.value for x in o[1].value]


def _identity(it):
    o = timed(lambda: _run_src(it, READ_ID), 20)
    if o[0] != "val":
        return None
    vals = o[1].value
    cont = (V.ValueList, V.ValueSet, V.ValueMap, V.ValueObject, V.ValueString)
    return [[j for j in range(4) if vals[j] is vals[i]] if isinstance(vals[i], cont) else None
            for i in range(4)]


def _nz(reads):
    """readings compared modulo blanks: C16 is about which container changed, not about the
    spacing of the canonical text (that is C08's subject; values here contain no blanks)"""
    return None if reads is None else [t.replace(" ", "") if isinstance(t, str) else t for t in reads]


def run_case(case, limit=0.5):
    """case: {"build": src, "init_want": [...], "steps": [{"src", "want", "op", "part"}]}
    -> {"viol": (key, what) | None, "drift": [(kind, sample)], "evals": n}"""
    it = _IT
    res = {"viol": None, "drift": [], "evals": 0}
    _run_src(it, PROLOGUE)
    o = timed(lambda: _run_src(it, case["build"]), 20)
    res["evals"] += 2
    if o[0] != "val":
        raise MachineryError(f"initial alias graph could not be built: {case['build']} -> {o[:2]}")
    got = _read(it)
    if _nz(got) != _nz(case["init_want"]):
        raise MachineryError(f"initial alias graph reads {got}, model {case['init_want']}: {case['build']}")
    prog = []
    prev_got, prev_want = got, case["init_want"]
    for k, step in enumerate(case["steps"]):
        prog.append(step["src"])
        o = timed(lambda: _run_src(it, step["src"]), limit)
        res["evals"] += 2
        key = case["label"] + " ; " + " ; ".join(prog)
        if o[0] == "timeout":
            res["viol"] = (key, f"operation-does-not-finish: `{step['src']}` ({step['op']}) ran longer than "
                                f"{limit}s; the model says it ends with names reading {step['want']}")
            return res
        if o[0] != "val":
            # the model enabled an operation the implementation refuses: not
            # what C16 is about; nothing further can be compared on this path
            res["drift"].append(("operation-raised:" + step["op"],
                                 {"program": key, "outcome": [str(z)[:100] for z in o[:3]]}))
            return res
        got = _read(it)
        want = step["want"]
        if None in want and got is not None:
            # a name holding an opaque result (the model leaves its content open): it reads
            # what it read before, unless this very operation bound it
            held = [i for i in range(4) if want[i] is None and prev_want[i] is None
                    and NAMES[i] != step.get("t") and prev_got is not None and i not in step.get("loose", ())]
            moved = [i for i in held if got[i] != prev_got[i]]
            if moved:
                diff = [f"{('a', 'b(param)', 'outer[0]', 'c(closure)')[i]}: reads {got[i]}, read {prev_got[i]} "
                        "before (it holds the result of an earlier non-mutating operation and was not assigned)"
                        for i in moved]
                res["viol"] = (key, "result-of-non-mutating-operation-not-independent: after "
                                    f"`{step['src']}` ({step['op']}) " + "; ".join(diff))
                return res
            want = [got[i] if want[i] is None else want[i] for i in range(4)]
        if _nz(got) != _nz(want):
            diff = [f"{n}: reads {g}, model {w}" for n, g, w in
                    zip(("a", "b(param)", "outer[0]", "c(closure)"), got or [None] * 4, want)
                    if _nz([g]) != _nz([w])]
            cat = "mutator-effect" if step["op"] in MUTATOR_OPS else "non-mutating-effect"
            res["viol"] = (key, f"{cat}: after `{step['src']}` ({step['op']}) " + "; ".join(diff))
            return res
        prev_got, prev_want = got, step["want"]
        if k == len(case["steps"]) - 1:
            ident = _identity(it)
            res["evals"] += 1
            if ident is not None and ident != step["part"]:
                res["drift"].append(("identity-differs-from-model:" + step["op"],
                                     {"program": key, "impl_same_object": ident, "model_same_ref": step["part"]}))
    return res


def _run_chunk(cases):
    out = []
    for c in cases:
        try:
            try:
                out.append(run_case(c))
            except Timeout:         # a stray alarm (none should be pending): once more, in a new session
                signal.setitimer(signal.ITIMER_REAL, 0)
                _worker_init()
                out.append(run_case(c))
        except MachineryError as e:
            out.append({"machinery": str(e)})
        except Timeout:
            out.append({"machinery": "stray timer signal in a replay worker, twice"})
    return out


# ------------------------------------------------------------ binding A driver
class Graph:
    """The transition graph TLC printed: states and edges."""

    def __init__(self):
        self.inits = []            # normal-form states
        self.edges = {}            # (pre, opkey) -> (op, post)
        self.out = {}              # pre -> [opkey]
        self.probe_only = set()    # transitions exported at the probe level only

    def add(self, res):
        for js in res.records("INIT"):
            st = norm_state(js)
            if st not in self.inits:
                self.inits.append(st)
        for e in res.records("EDGE"):
            pre, post = norm_state(e["pre"]), norm_state(e["post"])
            op = e["op"]
            ok = (op["op"], op["n"], op["m"], op["t"], op["x"], op["y"])
            if (pre, ok) not in self.edges:
                self.edges[(pre, ok)] = (op, post)
                self.out.setdefault(pre, []).append(ok)
                if e["probe"]:
                    self.probe_only.add((pre, ok))
            elif not e["probe"]:
                self.probe_only.discard((pre, ok))


def make_case(g, parent, pre, ok):
    """The program for one transition: the path that reached its pre-state
    (through transitions the implementation already followed) + the operation."""
    steps = [(pre, ok)]
    st = pre
    while parent[st] is not None:
        steps.append(parent[st])
        st = parent[st][0]
    steps.reverse()
    case = {"label": graph_label(st), "build": build_source(st),
            "init_want": render_state(st), "steps": []}
    for (p, k) in steps:
        op, post = g.edges[(p, k)]
        case["steps"].append({"src": op_source(op, kind_of(p, op["n"])), "op": op["op"], "t": op["t"],
                              "loose": loose_names(p, op["n"]) if op["op"] in MUTATOR_OPS else [],
                              "want": render_state(post), "part": partition(post)})
    return case


def replay_graph(run, g, pool):
    """Edge cover, level by level: every transition out of every state reached
    so far is replayed; a state counts as reached only through transitions the
    implementation followed exactly, so one defect is reported at the
    transition that shows it and not again behind it."""
    g.inits.sort()
    parent = {st: None for st in g.inits}
    frontier = list(g.inits)
    stats = {"cases": 0, "evals": 0, "levels": [], "longest": 0, "confirmed_hangs": {}}
    samples = []
    while frontier:
        level = [(st, ok) for st in frontier for ok in sorted(g.out.get(st, []))
                 if (st, ok) not in g.probe_only]
        cases = [make_case(g, parent, st, ok) for st, ok in level]
        chunks = [cases[i:i + 64] for i in range(0, len(cases), 64)]
        results = []
        for out in pool.imap(_run_chunk, chunks):
            results.extend(out)
        nxt = []
        nbad = 0
        for (st, ok), case, r in zip(level, cases, results):
            if "machinery" in r:
                raise MachineryError(r["machinery"])
            stats["evals"] += r["evals"]
            stats["longest"] = max(stats["longest"], len(case["steps"]))
            for kind, sample in r["drift"]:
                run.drift(kind, sample)
            if r["viol"]:
                key, what = r["viol"]
                opk = case["steps"][-1]["op"]
                if what.startswith("operation-does-not-finish") and stats["confirmed_hangs"].get(opk, 0) < 2:
                    # re-run alone with a generous limit before believing it
                    _worker_init()
                    r2 = run_case(case, limit=5.0)
                    if not r2["viol"]:
                        run.drift("slow-operation", {"program": key})
                        r = r2
                    else:
                        key, what = r2["viol"]
                        stats["confirmed_hangs"][opk] = stats["confirmed_hangs"].get(opk, 0) + 1
                if r["viol"]:
                    nbad += 1
                    run.violation("A:" + key, what, {"kind": "program", "case": case})
                    continue
            if r["drift"] and any(k.startswith("operation-raised") for k, _ in r["drift"]):
                continue
            post = g.edges[(st, ok)][1]
            if post not in parent:
                parent[post] = (st, ok)
                nxt.append(post)
        # What a non-mutating operation returned can be told apart from an alias
        # of its input only by a later mutation: every non-mutating transition that
        # the implementation followed is replayed once more, followed by each probe
        # (one documented mutation per distinct container, Heap.tla IsProbe) that
        # the model offers in its post-state.
        pairs = []
        for (st, ok), case, r in zip(level, cases, results):
            if ok[0] in MUTATOR_OPS or r["viol"] or any(k.startswith("operation-raised") for k, _ in r["drift"]):
                continue
            post = g.edges[(st, ok)][1]
            # containers worth probing: the result and whatever the source reaches
            want_refs = set()
            for nm in (ok[1], ok[3]):
                if nm in NAMES and post[1][NAMES.index(nm)][0] == "r":
                    want_refs |= reach(post[0], post[1][NAMES.index(nm)][1])
            seen_refs = set()
            for ok2 in sorted(g.out.get(post, []), key=lambda k: (PROBE_OPS.index(k[0]) if k[0] in PROBE_OPS else 9, k)):
                if ok2[0] not in PROBE_OPS:
                    continue
                ref = post[1][NAMES.index(ok2[1])]
                if ref in seen_refs or ref[1] not in want_refs:
                    continue
                seen_refs.add(ref)
                op2, post2 = g.edges[(post, ok2)]
                c2 = dict(case)
                c2["steps"] = case["steps"] + [{"src": op_source(op2, kind_of(post, op2["n"])), "op": op2["op"],
                                                "t": op2["t"], "loose": loose_names(post, op2["n"]) if op2["op"] in MUTATOR_OPS else [],
                                                "want": render_state(post2), "part": partition(post2)}]
                pairs.append(c2)
        presults = []
        for out in pool.imap(_run_chunk, [pairs[i:i + 64] for i in range(0, len(pairs), 64)]):
            presults.extend(out)
        npbad = 0
        for case, r in zip(pairs, presults):
            if "machinery" in r:
                raise MachineryError(r["machinery"])
            stats["evals"] += r["evals"]
            stats["longest"] = max(stats["longest"], len(case["steps"]))
            for kind, sample in r["drift"]:
                run.drift(kind, sample)
            if r["viol"]:
                key, what = r["viol"]
                if what.startswith("operation-does-not-finish"):
                    run.drift("slow-or-hanging-probe", {"program": key})
                    continue
                npbad += 1
                if what.startswith("mutator-effect:"):
                    what = ("result-of-non-mutating-operation-not-independent (or the probe changed more "
                            "than its target):" + what[len("mutator-effect:"):])
                run.violation("A:" + key, what, {"kind": "program", "case": case})
        stats["cases"] += len(cases) + len(pairs)
        stats["levels"].append({"states": len(frontier), "transitions": len(cases), "violating": nbad,
                                "probe_pairs": len(pairs), "violating_pairs": npbad})
        if cases:
            samples.append(cases[len(cases) // 2])
        frontier = nxt
    stats["unreached_transitions"] = sum(1 for (pre, ok) in g.edges if pre not in parent)
    return stats, samples


# ------------------------------------------------------------ binding B
POOL_SRC = ["[]", "[1, 2, 3]", "[3, 1, 2]", "[[1], [2]]", "<<>>", "<<1, 2>>", "<<<>>>",
            "<<<'a' => 1>>>", "<*m=1, n=[1]*>", "'abc'", "0", "2", "NULL", "fn(x) x",
            "3"]        # (3 = the length of p2 / p3: a size at which "the whole list" is one piece)
# The natives that touch the operating system are bound only outside secure mode.  They (and the
# library functions that need them) are swept in Interpreter(False, ...) inside a sandbox: the
# working directory is a fresh temporary directory that is rebuilt before every call, and the pool
# has four more values that name things there: a program that exists and ends at once, a file, a
# directory, a list of names (a search path, an argument list).  No pool value is an absolute path or contains `..`, so nothing outside is named.
INSECURE_POOL_SRC = ["'true'", "'f.txt'", "'d'", "['d', 'f.txt']"]
SANDBOX_FILE, SANDBOX_FILE_TEXT, SANDBOX_DIR = "f.txt", "1\n", "d"
# third (and later) places of a call: all pairs of pool values for the first two places are
# combined with this column, so that every function is executed with ALL its parameters
COLUMN = [11, 15, 2, 10]      # 0, 3, [1, 2, 3], 'abc'
MODULE_FILES_DIR = os.path.join(REPO, "src", "ckl", "modules")
SKIP_FUNCS = {"exit", "sleep"}      # would leave / block the process
MUTATOR_FNS = ("append", "append_all", "insert_at", "delete_at", "remove", "put")
# functions whose documented result holds an argument (HeapOps.tla HolderFns and the mutators): only
# used to keep the string drift list short; containers are judged by Heap_Trace
HOLDER_NAMES = {"add", "substitute", "new", "append", "append_all", "insert_at", "put",
                "operator <<@1, @2>>", "operator <*m = @1, n = @2*>", "operator [@1 for e in @2]",
                "operator <<<e => @2 for e in @1>>>", "operator [[x, @3] for x in @1 also for y in @2]",
                "operator (fn(q) do q += @2; q end)(@1)", "operator @1[@2] = @3", "operator @1->m = @2",
                "operator @1->zz = @2", "operator @1[@2] += @3", "operator @1[@2, @3] += @3", "operator @1->m += @2",
                "operator @1 + @2", "operator [@1, @2]", "operator <<<@1 => @2>>>", "operator [...@1, @2]",
                "operator [...@1, ...@2]", "operator [@2, ...@1, @3]", "operator (fn(args...) args...)(@1, @2)",
                "operator string(@1) + @2"}


# operators and syntax forms that take values ("Operators ... never modify the
# values passed to them"); @1 @2 @3 stand for pool variables
OPERATOR_FORMS = [
    "@1 + @2", "@1 - @2", "@1 * @2", "@1 / @2", "@1 % @2", "@1 == @2", "@1 != @2", "@1 <> @2",
    "@1 < @2", "@1 <= @2", "@1 > @2", "@1 >= @2", "@1 in @2", "@1 not in @2", "@1 and @2",
    "@1 or @2", "not @1", "-@1", "@1[@2]", "@1[@2 to *]", "@1[@2 to @3]", "@1 !> identity()",
    "[e for e in @1]", "<<e for e in @1>>", "[[x, y] for x in @1 for y in @2]",
    "(fn(q) [...q])(@1)", "(fn(q) [0, ...q, 0])(@1)", "for e in @1 do e end",
    "if @1 then 1 else 2", "@1 == @1", "@1 + @1", "@1 - @1", "[@1, @2]", "<<<@1 => @2>>>",
    "string(@1) + @2", "(fn(x, y) x)(@1, @2)", "(fn(args...) args...)(@1, @2)",
    # the call mechanism itself: spread arguments in every position, with further arguments after them
    "(fn(args...) 1)(...@1, @2)", "(fn(args...) 1)(@2, ...@1)", "(fn(args...) 1)(...@1, ...@2)",
    "(fn(a = 0, b = 0, rest...) 1)(...@1, @2, @3)", "(fn(a = 0, b = 0) 1)(...@1)", "(fn(a = 0, b = 0) 1)(...@1, b = @2)",
    "[...@1, @2]", "[...@1, ...@2]", "[@2, ...@1, @3]", "@1 !> (fn(a, rest...) 1)(...@2, @3)",
    "<*m = fn(self, rest...) 1*>->m(...@1, @2)", "def [u, v] = @1", "for [u, v] in @1 do u end",
    # reads: with a default (the third place is the default), members that are there / not there,
    # a member invoked, a method that reaches its receiver as `self`
    "@1[@2, @3]", "@1->m", "@1->n", "@1->zz", "@1->m(@2)",
    "<*_proto_ = <*g = fn(self, x) self->m*>*>->g(@1)", "(fn(o) o->g(@2))(<*_proto_ = <*g = fn(self, x) 1*>, m = @1*>)",
    # predicates written as syntax
    "@1 is empty", "@1 is not empty", "@1 is zero", "@1 is not in @2", "@1 is @2", "@1 is not @2",
    "@1 starts with @2", "@1 ends with @2", "@1 contains @2", "@1 matches @2",
    # containers built around operands, comprehensions of every form
    "<<@1, @2>>", "<*m = @1, n = @2*>", "[@1 for e in @2]", "[e for e in @1 if e == @2]",
    "<<e for e in @1 if e == @2>>", "<<<e => @2 for e in @1>>>", "<<<e => e for e in @1 if e == @2>>>",
    "[[x, @3] for x in @1 also for y in @2]", "<<x for x in @1 for y in @2>>", "<<x for x in @1 also for y in @2>>",
    "[x for x in keys @1]", "[x for x in values @1]", "[x for x in entries @1]", "for x in keys @1 do x end",
    "[x for x in keys @1 for y in values @2 if x == y]", "[x for x in keys @1 also for y in values @2 if x == y]",
    "<<x for x in keys @1 for y in values @2 if x == y>>", "<<x for x in keys @1 also for y in values @2 if x == y>>",
    "<<x for x in keys @1>>", "<<<x => 1 for x in keys @1>>>",
    # control flow that hands an operand on
    "(fn(a, b = @2) b)(@1)", "(fn(a) do if a == a then return a; 1 end)(@1)", "do @1; @2 end", "if @1 == @2 then @1 else @2",
    "do @1 finally @2 end", "while @1 do break end", "while @1 == @2 do break end",
    "@1 == @2 and @1 != @2", "@1 == @2 or @1 != @2", "not @1 == @2", "for e in @1 do if e == @2 then continue; e end",
    "do def u = 0; def v = 0; [u, v] = @1 end", "(fn(q) do q += @2; q end)(@1)", "(fn(q) do q -= @2; q end)(@1)",
    "(fn(q) do q *= @2; q end)(@1)", "(fn(q) do q /= @2; q end)(@1)", "(fn(q) do q %= @2; q end)(@1)",
    "(fn(a, b) 1)(b = @2, a = @1)", "error @1", "do error @1 catch all 1 end", "do error @1 catch @2 1 end",
    "do def class K do def _init_(self, x) do self->x = x; end; def g(self, y) self->x; end; new(K, @1)->g(@2) end",
    # element and member assignment: documented mutators of their FIRST operand (HeapOps.tla MutatorForms)
    "@1[@2] = @3", "@1->m = @2", "@1->zz = @2", "@1[@2] += @3", "@1[@2, @3] += @3", "@1->m += @2",
]
MUTATOR_FORMS = {"operator " + f for f in ("@1[@2] = @3", "@1->m = @2", "@1->zz = @2", "@1[@2] += @3",
                                           "@1[@2, @3] += @3", "@1->m += @2")}


def pool_src(label):
    return POOL_SRC + (INSECURE_POOL_SRC if label.startswith("insecure") else [])


def pool_defs(label="base"):
    return "; ".join(f"def p{i + 1} = {s}" for i, s in enumerate(pool_src(label))) + "; NULL"


def module_names():
    """The bundled modules; base and legacy (which re-export the others) last,
    so that a function is attributed to the module that defines it."""
    mods = sorted(f[:-4] for f in os.listdir(MODULE_FILES_DIR) if f.endswith(".ckl"))
    return [m for m in mods if m not in ("base", "legacy")] + [m for m in mods if m in ("base", "legacy")]


def _def_site(f):
    if type(f).__name__ == "FuncLambda":
        pos = getattr(f.body, "pos", None)
        return ("lambda", f.name, repr(pos), tuple(f.argNames))
    return ("native", type(f).__name__, f.name)


def enumerate_functions():
    """[(env label, callable expression, bare name, arity, definition site)] from the
    live environments; a definition reachable by several routes is swept once."""
    found = []
    seen = set()

    def take(label, expr, name, f):
        if name in SKIP_FUNCS:
            return
        site = _def_site(f)
        if site in seen:
            return
        seen.add(site)
        found.append((label, expr, name, len(f.getArgNames())))

    it = Interpreter(True, False)
    base = it.base_environment
    for sym in base.getSymbols():
        f = base.get(sym, None)
        if isinstance(f, V.ValueFunc):
            take("base", sym, sym, f)
    for mod in module_names():
        it = Interpreter(True, False)
        ident = mod.capitalize()
        o = absval.outcome(lambda: it.interpret(f"require {ident}; {ident}", "c16"))
        if o[0] != "val" or not isinstance(o[1], V.ValueObject):
            raise MachineryError(f"cannot load bundled module {mod}: {o[:2]}")
        for sym in sorted(o[1].value):
            f = o[1].value[sym]
            if isinstance(f, V.ValueFunc):
                take("module:" + ident, f"{ident}->{sym}", sym, f)
    it = Interpreter(True, True)
    base = it.base_environment
    for sym in base.getSymbols():
        f = base.get(sym, None)
        if isinstance(f, V.ValueFunc):
            take("legacy", sym, sym, f)
    # outside secure mode: what is bound only there, and - in full, once more - every module that
    # binds such a native (its library functions may work only with them: Os->which, IO->read_file)
    def take_insecure(label, expr, name, f, whole):
        if name in SKIP_FUNCS:
            return
        site = _def_site(f)
        if ("insecure", site) in seen or (site in seen and not whole):
            return
        seen.add(("insecure", site))
        found.append((label, expr, name, len(f.getArgNames())))

    secure_base = set(Interpreter(True, False).base_environment.getSymbols())
    it = Interpreter(False, False)
    base = it.base_environment
    for sym in base.getSymbols():
        f = base.get(sym, None)
        if isinstance(f, V.ValueFunc) and sym not in secure_base:
            take_insecure("insecure:base", sym, sym, f, True)
    for mod in module_names():
        ident = mod.capitalize()
        objs = []
        for secure in (True, False):
            it = Interpreter(secure, False)
            o = absval.outcome(lambda: it.interpret(f"require {ident}; {ident}", "c16"))
            if o[0] != "val" or not isinstance(o[1], V.ValueObject):
                raise MachineryError(f"cannot load bundled module {mod} (secure={secure}): {o[:2]}")
            objs.append(o[1].value)
        whole = mod not in ("base", "legacy") and set(objs[1]) != set(objs[0])
        for sym in sorted(objs[1]):
            f = objs[1][sym]
            if isinstance(f, V.ValueFunc):
                take_insecure("insecure:module:" + ident, f"{ident}->{sym}", sym, f, whole)
    it = Interpreter(False, True)
    base = it.base_environment
    for sym in base.getSymbols():
        f = base.get(sym, None)
        if isinstance(f, V.ValueFunc):
            take_insecure("insecure:legacy", sym, sym, f, False)
    for form in OPERATOR_FORMS:
        ar = 3 if "@3" in form else 2 if "@2" in form else 1
        found.append(("base", form, "operator " + form, ar))
    return found


def arg_tuples(arity, maxar, rng, cap, n=len(POOL_SRC)):
    """Argument tuples (pool positions) of length 0..min(arity, maxar): all of them, or `cap`
    sampled ones per length; and for a function / form of three or more places additionally ALL
    pairs for the first two places combined with the column of values for the rest - up to the
    full arity, so that no function is left without a call that passes every parameter."""
    tuples = []
    for k in range(0, min(arity, maxar) + 1):
        allk = list(itertools.product(range(1, n + 1), repeat=k))
        if len(allk) > cap:
            allk = rng.sample(allk, cap)
            allk.sort()
        tuples.extend(allk)
    if arity >= 3:
        have = set(tuples)
        for k in sorted({3, arity}):
            for a, b in itertools.product(range(1, n + 1), repeat=2):
                for j in range(len(COLUMN)):
                    t = (a, b) + tuple(COLUMN[(j + i) % len(COLUMN)] for i in range(k - 2))
                    if t not in have:
                        have.add(t)
                        tuples.append(t)
    return tuples


def _filled(v):
    return not (v is None or v is False or (isinstance(v, (list, tuple, dict, str)) and len(v) == 0))


def syntax_parts_never_swept():
    """Which parts of the implementation's syntax tree no swept form fills: the classes of
    ckl.nodes, each with the parameters of its constructor and the attributes its instances
    carry, against the trees of the operator forms (a function call `f(@1, @2)` stands for the
    sweep of the functions).  `NodeDeref.default_value` missing from this list is what tells that
    the read with a default is swept.  A diagnostic only (drift): guarded against any change of
    the implementation's internals."""
    import inspect
    from ckl import nodes as N
    universe, filled = set(), set()

    def walk(x, into, seen):
        if id(x) in seen:
            return
        seen.add(id(x))
        if isinstance(x, (list, tuple)):
            for y in x:
                walk(y, into, seen)
        elif isinstance(x, dict):
            for k, y in x.items():
                walk(k, into, seen)
                walk(y, into, seen)
        elif type(x).__name__.startswith("Node") and hasattr(x, "__dict__"):
            cn = type(x).__name__
            into.add(cn)
            for k, v in vars(x).items():
                if k == "pos":
                    continue
                universe.add(cn + "." + k)
                if _filled(v):
                    into.add(cn + "." + k)
                walk(v, into, seen)

    for cn, cls in vars(N).items():
        if cn.startswith("Node") and inspect.isclass(cls):
            universe.add(cn)
    for f in sorted(os.listdir(MODULE_FILES_DIR)):      # (the modules only show which parts exist)
        if f.endswith(".ckl"):
            with open(os.path.join(MODULE_FILES_DIR, f), encoding="utf-8") as fh:
                walk(parse_script(fh.read(), f), set(), set())
    for form in OPERATOR_FORMS + ["f(@1, @2)"]:
        src = form
        for k in (1, 2, 3):
            src = src.replace(f"@{k}", f"p{k}")
        walk(parse_script(src, "c16"), filled, set())
    return sorted(universe - filled)


def _children(v):
    if isinstance(v, (V.ValueList, V.ValueSet)):
        return list(v.value)
    if isinstance(v, V.ValueMap):
        return list(v.value.keys()) + list(v.value.values())
    if isinstance(v, V.ValueObject):
        return list(v.value.values())
    return []


def shares(res, targets):
    """Which of the argument values `targets` ({id(host object): pool position}) the
    value `res` IS and which it HOLDS (reaches below its top level): (is, holds) as
    sorted lists of pool positions.  Identity of host objects, not equality."""
    holds, seen = set(), {id(res)}
    todo = _children(res)
    while todo:
        x = todo.pop()
        if id(x) in seen:
            continue
        seen.add(id(x))
        if id(x) in targets:
            holds.add(targets[id(x)])
        todo.extend(_children(x))
    return ([targets[id(res)]] if id(res) in targets else []), sorted(holds)


class Sandbox:
    """The working directory of the calls made outside secure mode: a temporary directory
    holding one file and one directory, put back into that state before every call; what
    the calls (and the programs they start) write to the process's standard streams goes
    to the null device."""

    def __init__(self):
        self.old = os.getcwd()
        self.dir = tempfile.mkdtemp(prefix="c16-sandbox-")
        self.saved = None
        os.chdir(self.dir)
        sys.stdout.flush()
        sys.stderr.flush()
        self.null = os.open(os.devnull, os.O_RDWR)
        self.saved = [os.dup(0), os.dup(1), os.dup(2)]
        for fd in (0, 1, 2):
            os.dup2(self.null, fd)
        self.reset()

    def reset(self):
        fpath, dpath = os.path.join(self.dir, SANDBOX_FILE), os.path.join(self.dir, SANDBOX_DIR)
        try:
            if sorted(os.listdir(self.dir)) == sorted([SANDBOX_FILE, SANDBOX_DIR]) and not os.listdir(dpath) \
                    and os.path.isfile(fpath) and os.getcwd() == self.dir:
                with open(fpath) as f:
                    if f.read() == SANDBOX_FILE_TEXT:
                        return
        except (OSError, UnicodeError):
            pass
        os.chdir(self.old)
        shutil.rmtree(self.dir, ignore_errors=True)
        os.makedirs(os.path.join(self.dir, SANDBOX_DIR))
        with open(os.path.join(self.dir, SANDBOX_FILE), "w") as f:
            f.write(SANDBOX_FILE_TEXT)
        os.chdir(self.dir)

    def close(self):
        os.chdir(self.old)
        if self.saved:
            sys.stdout.flush()
            sys.stderr.flush()
            for fd, keep in zip((0, 1, 2), self.saved):
                os.dup2(keep, fd)
                os.close(keep)
            os.close(self.null)
        shutil.rmtree(self.dir, ignore_errors=True)


def _sweep_chunk(job):
    """job: [(label, expr, name, tuples)] -> (events with rendered strings, stats)"""
    box = None
    try:
        if any(j[0].startswith("insecure") for j in job):
            box = Sandbox()
        return _sweep_chunk1(job, box)
    finally:
        if box is not None:
            box.close()


def _sweep_chunk1(job, box):
    signal.signal(signal.SIGALRM, _alarm)
    warnings.simplefilter("ignore")     # host `re` FutureWarnings from pattern(...) calls
    events = []
    stats = {"calls": 0, "val": 0, "err": 0, "host": 0, "timeout": 0, "syntax": 0, "per_fn": {}}
    aliasres = {}
    its = {}
    cont = (V.ValueList, V.ValueSet, V.ValueMap, V.ValueObject)
    for label, expr, name, tuples in job:
        it = its.get(label)
        insecure = label.startswith("insecure")
        kind = label[9:] if insecure else label
        if it is None:
            it = Interpreter(not insecure, kind == "legacy")
            it.setStandardOutput(io.StringIO())
            it.setStandardInput(io.StringIO(""))
            if kind.startswith("module:"):
                it.interpret("require " + kind[7:], "c16")
            its[label] = it
        env = it.environment
        names = [f"p{i + 1}" for i in range(len(pool_src(label)))]
        # per function: calls, calls that returned a value, calls with a container among the
        # arguments, and those of them that returned a value (0 there = the function was never
        # seen at work on a container: a hole of the sweep, reported)
        pf = stats["per_fn"].setdefault(f"{label}: {name}", [0, 0, 0, 0])

        def render(p):
            try:
                return str(env.get(p, None))
            except RecursionError:      # append(p, p) made the value contain itself
                return "<cyclic " + p + ">"

        def snapshot():
            return [render(p) for p in names]

        def fresh():
            it.interpret(pool_defs(label), "c16")
            snap = snapshot()
            events.append({"op": "new", "pool": snap, "src": label})
            return snap

        cur = fresh()
        for tup in tuples:
            if "@" in expr:                     # an operator form: all places filled
                ar = 3 if "@3" in expr else 2 if "@2" in expr else 1
                if len(tup) != ar:
                    continue
                src = expr
                for k, i in enumerate(tup):
                    src = src.replace(f"@{k + 1}", f"p{i}")
            else:
                src = expr + "(" + ", ".join(f"p{i}" for i in tup) + ")"
            it.setStandardInput(io.StringIO(""))
            if box is not None:
                box.reset()
            with_cont = any(isinstance(env.get(f"p{i}", None), cont) for i in set(tup))
            o = timed(lambda: it.interpret(src, "c16"), 3.0)
            stats["calls"] += 1
            stats[o[0]] += 1
            pf[0] += 1
            pf[1] += o[0] == "val"
            pf[2] += with_cont
            pf[3] += with_cont and o[0] == "val"
            if o[0] == "timeout":
                aliasres.setdefault("timeout:" + name, src)
            post = snapshot()
            # what the call returned against the containers passed to it: is it one
            # of them, does it hold one of them (identity of the host objects)
            r_is, r_holds = [], []
            if o[0] == "val":
                args_c, args_s = {}, {}
                for i in set(tup):
                    v = env.get(f"p{i}", None)
                    if isinstance(v, cont):
                        args_c[id(v)] = i
                    elif isinstance(v, V.ValueString):
                        args_s[id(v)] = i
                if args_c:
                    r_is, r_holds = shares(o[1], args_c)
                    if r_is:
                        aliasres.setdefault(name, src)
                if args_s and isinstance(o[1], (V.ValueString,) + cont):
                    s_is, s_holds = shares(o[1], args_s)
                    if s_is:
                        aliasres.setdefault("str-is:" + name, src)
                    elif s_holds and name not in HOLDER_NAMES:
                        aliasres.setdefault("str-holds:" + name, src)
            events.append({"op": "call", "fn": name, "args": list(tup), "post": post,
                           "is": r_is, "holds": r_holds,
                           "src": f"{label}: {src}", "expr": expr, "outcome": o[0]})
            if post != cur or name in MUTATOR_FNS or name in MUTATOR_FORMS:
                cur = fresh()
    return events, stats, aliasres


def sweep(run, rng, maxar, cap, pool):
    funcs = enumerate_functions()
    jobs = []
    for label, expr, name, arity in funcs:
        jobs.append((label, expr, name, arg_tuples(arity, 3 if "@" in expr else maxar, rng, cap,
                                                   len(pool_src(label)))))
    # one function per job: deterministic event order = function order
    results = pool.map(_sweep_chunk, [[j] for j in jobs], chunksize=4)
    intern = {}
    table = []

    def ident(s):
        i = intern.get(s)
        if i is None:
            i = intern[s] = len(table) + 1
            table.append(s)
        return i

    events, meta = [], []
    stats = {}
    aliasres = {}
    per_fn = {}
    for evs, st, al in results:
        for k, v in st.pop("per_fn").items():
            per_fn[k] = [x + y for x, y in zip(per_fn.get(k, [0, 0, 0, 0]), v)]
        for k, v in st.items():
            stats[k] = stats.get(k, 0) + v
        for k, v in al.items():
            aliasres.setdefault(k, v)
        for e in evs:
            if e["op"] == "new":
                events.append({"op": "new", "pool": [ident(s) for s in e["pool"]]})
            else:
                events.append({"op": "call", "fn": e["fn"], "args": e["args"],
                               "post": [ident(s) for s in e["post"]],
                               "is": e["is"], "holds": e["holds"]})
            meta.append(e)
    for name in sorted(aliasres):
        if name.startswith("timeout:"):
            run.drift("B-call-did-not-finish-in-3s", {"fn": name[8:], "call": aliasres[name]})
        elif name.startswith("str-is:"):
            # strings can be changed in place (`s[i] = ch`) but the statement names lists, sets,
            # maps and objects only: a string result that is the argument string is recorded, not judged
            run.drift("B-string-result-is-its-argument", {"fn": name[7:], "call": aliasres[name]})
        elif name.startswith("str-holds:"):
            run.drift("B-result-holds-its-string-argument", {"fn": name[10:], "call": aliasres[name]})
        elif name not in MUTATOR_FNS and name not in MUTATOR_FORMS:
            run.drift("B-result-is-its-argument", {"fn": name, "call": aliasres[name]})
    # holes of the sweep: a function / form that never returned a value at all (every call ended in an
    # error: wrong number of arguments, an argument of the wrong kind ...) was not seen at work
    never = sorted(k for k, v in per_fn.items() if v[0] and not v[1])
    for k in never:
        run.drift("B-function-never-returned-a-value", {"fn": k, "calls": per_fn[k][0]})
    stats["functions_never_returning_a_value"] = never
    stats["functions_never_returning_a_value_given_a_container"] = sorted(
        k for k, v in per_fn.items() if v[2] and not v[3])
    stats["calls_with_a_container_that_returned_a_value"] = sum(v[3] for v in per_fn.values())
    stats["min_full_arity_calls"] = min((sum(1 for t in j[3] if len(t) == a) for j, (_l, _e, _n, a)
                                         in zip(jobs, funcs) if a >= 3), default=0)
    stats["result_is_argument_fns"] = sorted(k for k in aliasres if ":" not in k)
    stats["string_result_is_argument_fns"] = sorted(k[7:] for k in aliasres if k.startswith("str-is:"))
    stats["timeout_calls"] = sorted(v for k, v in aliasres.items() if k.startswith("timeout:"))
    return funcs, events, meta, table, stats


def trace_tlc(events):
    """Heap_Trace over the recorded events: the TLC result (no access to `run`: may run in a thread)."""
    d = tempfile.mkdtemp(prefix="c16-")
    path = os.path.join(d, "trace.ndjson")
    try:
        with open(path, "w") as f:
            for e in events:
                f.write(json.dumps(e) + "\n")
        res = run_tlc("Heap_Trace", workers=1, env={"TRACE_FILE": path}, timeout=3000)
    finally:
        try:
            os.remove(path)
            os.rmdir(d)
        except OSError:
            pass
    return res


def validate_sweep(run, events, meta, table, label="Heap_Trace validation of the function sweep", res=None):
    if res is None:
        res = trace_tlc(events)
    run.add_tlc(res, label)
    done = res.records("DONE")
    if not done or done[-1]["n"] != len(events):
        raise MachineryError("trace validation did not consume the whole trace")
    nbad = 0
    for b in res.records("BAD"):
        k = b["l"] - 1
        j = k
        while events[j]["op"] != "new":
            j -= 1
        nbad += 1
        if meta is None:
            run.violation(f"B:event {k}", f"{b['why']}: recorded call rejected by Heap_Trace", {"kind": "none"})
            continue
        if b["why"] == "result-not-independent-of-its-argument":
            src = meta[k]["src"]
            shared = ([f"the result is p{i} itself" for i in events[k]["is"]]
                      + [f"the result holds p{i} itself" for i in events[k]["holds"]])
            run.violation("B-result:" + src,
                          f"{b['why']}: `{src}`: " + "; ".join(shared) + " (a later change of one shows in the other)",
                          {"kind": "call", "label": src.split(": ")[0], "call": src.split(": ", 1)[1],
                           "expr": meta[k]["expr"], "fn": events[k]["fn"], "args": events[k]["args"]})
            continue
        pre = [table[i - 1] for i in events[k - 1]["post" if events[k - 1]["op"] == "call" else "pool"]]
        post = [table[i - 1] for i in events[k]["post"]]
        changed = [f"p{i + 1}: {pre[i]} -> {post[i]}" for i in range(len(pre)) if pre[i] != post[i]]
        src = meta[k]["src"]
        run.violation("B:" + src,
                      f"{b['why']}: `{src}` (outcome {meta[k]['outcome']}) changed " + "; ".join(changed)[:400],
                      {"kind": "call", "label": src.split(": ")[0], "call": src.split(": ", 1)[1],
                       "expr": meta[k]["expr"], "fn": events[k]["fn"], "args": events[k]["args"]})
    return nbad


# ------------------------------------------------------------ entry points
class Beside:
    """fn(*args, **kw) in a daemon thread (a thread that is still blocked when the check ends
    with an error must not keep the process alive); result() waits and re-raises."""

    def __init__(self, fn, *args, **kw):
        self.out = self.err = None

        def work():
            try:
                self.out = fn(*args, **kw)
            except BaseException as e:      # handed to the main thread
                self.err = e

        self.thread = threading.Thread(target=work, daemon=True)
        self.thread.start()

    def result(self):
        self.thread.join()
        if self.err is not None:
            raise self.err
        return self.out


def run(run):
    quick = run.tier == "quick"
    rng = random.Random(run.seed)
    ctx = multiprocessing.get_context("fork")
    astats = {"cases": 0, "evals": 0, "longest": 0, "levels": [], "unreached": 0, "bfs": 0, "all": 0}
    asamples = []
    never = None
    optaken = {}

    phase = {}
    t0 = [time.time()]

    def lap(name):
        phase[name] = round(phase.get(name, 0) + time.time() - t0[0], 1)
        t0[0] = time.time()

    def explore(pool, label, results):
        lap("tlc")
        g = Graph()
        for r in results:
            g.add(r)
        if not g.inits or not g.edges:
            raise MachineryError("TLC exported no transitions")
        st, sm = replay_graph(run, g, pool)
        astats["cases"] += st["cases"]
        astats["evals"] += st["evals"]
        astats["longest"] = max(astats["longest"], st["longest"])
        astats["unreached"] += st["unreached_transitions"]
        astats["levels"].append({label: st["levels"]})
        astats["all"] += len(g.edges)
        asamples.extend(sm[1:3])
        lap("replay_A")

    # Binding B does not depend on binding A: its sweep and the validation of its trace run in a
    # thread beside A (the worker processes of both are forked here, before the thread exists; the
    # thread reports through a recorder, `run` is touched by the main thread only).
    class Recorder:
        def __init__(self):
            self.drifts = []

        def drift(self, kind, sample=None):
            self.drifts.append((kind, sample))

    maxar = 2 if quick else 3
    cap = len(POOL_SRC) ** 2 if quick else 1500      # quick: every pair of pool values
    rec = Recorder()
    bphase = {}

    def binding_b(pool):
        t = time.time()
        out = sweep(rec, rng, maxar, cap, pool)
        bphase["sweep_B"] = round(time.time() - t, 1)
        t = time.time()
        tres = trace_tlc(out[1])
        bphase["validate_B"] = round(time.time() - t, 1)
        return out, tres

    pool_b = ctx.Pool(NPROC)
    pool_a = ctx.Pool(NPROC, initializer=_worker_init)
    future_b = Beside(binding_b, pool_b)
    with pool_b, pool_a as pool:
        # depth 2 from all initial graphs + random walks (both tiers)
        # (-coverage triples TLC's time here; which actions fired is counted from
        # the exported transitions instead: every action labels its transitions)
        walks, wdepth = (300, 6) if quick else (4000, 8)
        future_sim = Beside(run_tlc, "Heap", "Heap_sim", workers=1, simulate=f"num={walks}", depth=wdepth,
                            seed=run.seed % 100000, timeout=3000, coverage=False, env={"INIT_SEL": "0"})
        res = run_tlc("Heap", "Heap_quick", coverage=False, timeout=3000, env={"INIT_SEL": "0"})
        run.add_tlc(res, "Heap alias-graph machine, breadth-first, sequences <= 2 (Heap_quick)")
        for e in res.records("EDGE"):
            if not e["probe"]:
                optaken[e["op"]["op"]] = optaken.get(e["op"]["op"], 0) + 1
        never = sorted(set(ALL_OPS) - set(optaken))
        astats["bfs"] += len(res.records("EDGE"))
        ninit = len({json.dumps(x, sort_keys=True) for x in res.records("INIT")})
        sim = future_sim.result()
        run.add_tlc(sim, f"Heap random walks of {wdepth} operations ({walks})")
        explore(pool, "depth2+walks", [res, sim])
        del res, sim
        if not quick:
            # depth 3, one initial graph per TLC run
            for k in range(1, ninit + 1):
                r3 = run_tlc("Heap", "Heap_thorough", coverage=False, timeout=3000, env={"INIT_SEL": str(k)})
                run.add_tlc(r3, f"Heap breadth-first, sequences <= 3, initial graph {k} (Heap_thorough)")
                astats["bfs"] += len(r3.records("EDGE"))
                explore(pool, f"depth3:G{k}", [r3])
                del r3
        (funcs, events, meta, table, stats), tres = future_b.result()
        lap("wait_for_B")
    for c in asamples[:3]:
        run.sample({"A-program": {"label": c["label"], "build": c["build"],
                                  "steps": [(s["src"], s["want"]) for s in c["steps"]]}})
    if never:
        run.drift("model-action-never-taken", never)

    # binding B: what the thread found
    for kind, sample in rec.drifts:
        run.drift(kind, sample)
    nbad = validate_sweep(run, events, meta, table, res=tres)
    phase.update({k + "(beside A)": v for k, v in bphase.items()})
    try:
        unswept = syntax_parts_never_swept()
    except Exception as e:      # a diagnostic that reads the implementation's internals: never fatal
        unswept = ["(not available: " + type(e).__name__ + ")"]
    if unswept:
        run.drift("B-syntax-part-never-swept", unswept)
    run.cov["phase_wall_s"] = phase
    ncalls = sum(1 for e in events if e["op"] == "call")
    k = next((i for i, e in enumerate(events) if e["op"] == "call" and e["fn"] == "append" and len(e["args"]) == 2
              and e["args"][0] == 2), next(i for i, e in enumerate(events) if e["op"] == "call"))
    run.sample({"B-event": events[k], "B-source": meta[k]["src"],
                "rendered_after": [table[i - 1] for i in events[k]["post"]]})
    run.sample({"B-functions": len(funcs), "by_environment": _count_by(funcs),
                "outcomes": {k: v for k, v in stats.items() if isinstance(v, int)}})

    run.cov["traces_validated_against_impl"] = astats["cases"] + ncalls
    run.cov["evaluations"] = astats["evals"] + stats.get("calls", 0)
    run.cov["distinct_nontrivial"] = astats["cases"] + ncalls
    run.cov["rule"] = ("binding A: one program per distinct transition (pre-state, operation) of the model's "
                       "state graph (path from an initial alias graph + the operation; every name read after "
                       "every operation); binding B: one event per call of a distinct function definition on "
                       "a distinct argument tuple, validated by Heap_Trace; evaluations counts interpreter calls")
    run.cov["exhaustive"] = True
    run.cov["model_operations_taken_depth2"] = optaken
    run.cov["bounds"] = {"A_bfs_transitions_exported": astats["bfs"],
                         "A_distinct_transitions_replayed": astats["cases"],
                         "A_longest_program": astats["longest"], "A_random_walks": walks,
                         "A_levels": astats["levels"],
                         "A_transitions_not_replayed_behind_a_violation": astats["unreached"],
                         "B_functions": len(funcs), "B_calls": ncalls, "B_max_arity": maxar,
                         "B_full_arity_family": f"all pairs of pool values x a column of {len(COLUMN)} for the "
                                                "further places, for every function / form of >= 3 places",
                         "B_min_calls_at_full_arity_per_function": stats.get("min_full_arity_calls"),
                         "B_functions_outside_secure_mode": sum(1 for f in funcs if f[0].startswith("insecure")),
                         "B_operator_forms": len(OPERATOR_FORMS),
                         "B_calls_with_a_container_that_returned_a_value":
                             stats.get("calls_with_a_container_that_returned_a_value"),
                         "B_functions_never_returning_a_value": stats.get("functions_never_returning_a_value"),
                         "B_functions_never_returning_a_value_given_a_container":
                             stats.get("functions_never_returning_a_value_given_a_container"),
                         "B_syntax_parts_never_swept": unswept,
                         "B_tuple_cap_per_arity": cap, "B_rejected_events": nbad,
                         "B_distinct_renderings": len(table), "processes": NPROC}
    run.assumptions += [
        "set elements and map keys are ints in the model (containers as set elements / keys are hashed by "
        "content by the implementation; not modelled)",
        "no cyclic containers (rendering a cycle does not terminate)",
        "strings are never aliased in the model: the statement does not say whether strings are shared by "
        "reference, so only literal evaluation and `s[i] = ch` on a string held by one name are compared",
        "identity of results (same host object) is reported as drift only; independence is judged by "
        "what names read after a later mutation",
        "binding B looks at the pool values before/after a call and at whether the returned value is / holds "
        "one of the containers passed (not at the result's content or at errors: C13, C19); functions whose "
        "documented result is or holds an argument (HeapOps.tla SelectorFns, HolderFns, EchoFns, the mutators) "
        "are exempt and listed as drift `B-result-is-its-argument`; sharing the ELEMENTS of an argument "
        "(shallow copies) is not judged",
        "string results that are the argument string (string(s), replace without a match, esc, chunks('abc', 5)[0], "
        "identity ...) are drift only: the statement names lists, sets, maps and objects",
        "natives bound only outside secure mode (execute, run, the file natives) and the modules that bind them "
        "(Os, IO) are swept in Interpreter(False, ..) inside a temporary working directory rebuilt before every "
        "call, with four more pool values naming a program (`true`), a file, a directory and a list of names "
        "there; only `exit` "
        "and `sleep` are left out",
        "a name holding an opaque result (substitute with an index outside the list: the documentation does "
        "not say what it contains) is compared with its own previous reading only",
    ]


def _count_by(funcs):
    out = {}
    for label, _e, _n, _a in funcs:
        out[label] = out.get(label, 0) + 1
    return out


def replay(run, case):
    if case["kind"] == "program":
        _worker_init()
        r = run_case(case["case"], limit=12.0)
        for kind, sample in r["drift"]:
            run.drift(kind, sample)
        if r["viol"]:
            run.violation("A:" + r["viol"][0], r["viol"][1], case)
    elif case["kind"] == "call":
        signal.signal(signal.SIGALRM, _alarm)
        tup = tuple(case["args"])
        events, _st, _al = _sweep_chunk([(case["label"], case["expr"], case["fn"], [tup])])
        table, intern = [], {}
        evs = []
        for e in events:
            ids = []
            for s in e["pool" if e["op"] == "new" else "post"]:
                if s not in intern:
                    intern[s] = len(table) + 1
                    table.append(s)
                ids.append(intern[s])
            if e["op"] == "new":
                evs.append({"op": "new", "pool": ids})
            else:
                evs.append({"op": "call", "fn": e["fn"], "args": e["args"], "post": ids,
                            "is": e["is"], "holds": e["holds"]})
        validate_sweep(run, evs, events, table, "Heap_Trace validation of one replayed call")
